"""C13 — data buckets only ever hold arrays of the detector's shape and unit type."""
from __future__ import annotations

import copy
import json

from .. import core
from ..core import Broken, Ctx, Violation

PROP_FILE = "Properties/C13.v"
CORPUS = core.VERIF / "harness" / "corpus" / "C13"

TRUSTED = [
    "translator/c13.py (TYPE_LISTs, guard sequences of the ArrayBase.array setter with _validate followed / Photon.array / "
    "Photon.array_3d setters, Detector bucket setters, shapes of Photon.__iadd__/__add__/__eq__ and "
    "ArrayBase.__iadd__/__add__/__eq__, array_2d delegation -> Gen_C13.src_tables; fails closed on any other shape; "
    "TYPE_LISTs cross-checked against the imported classes) reading every function through translator/c13_norm.py "
    "(private helpers followed, cheap local aliases and module-level literals substituted where nothing in between can "
    "change them, control flow expanded to a decision tree and rendered canonically, messages / annotations / logging "
    "dropped; trusted to preserve behaviour; its self-test translator/c13_norm_test.py runs on every check)",
    "numpy's in-place output-casting rule is generated data: can_cast(result_type(dst, src), dst, 'same_kind') over "
    "15 dtypes, cross-checked by executing `dst += src` in the installed numpy",
    "correspondence harness: harness/props/c13.py generators, harness/drivers/c13.py (builds the arrays, applies "
    "each operation to a bucket of a real detector, renders `_array`, .shape, .dtype, the result / exception class)",
    "modelled, not verified: numpy/xarray elementwise addition, broadcasting, integer wrap-around, np.clip, "
    "np.array_equal, DataArray.equals and xarray's in-place alignment rule (checked by the correspondence only); "
    "float rounding (generated values are small integers, NaN and infinities, exact in float16)",
]

DTYPES = ["bool", "int8", "int16", "int32", "int64", "uint8", "uint16", "uint32", "uint64",
          "float16", "float32", "float64", "complex64", "complex128", "object"]
COQ_DT = {"bool": "DBool", "int8": "I8", "int16": "I16", "int32": "I32", "int64": "I64", "uint8": "U8",
          "uint16": "U16", "uint32": "U32", "uint64": "U64", "float16": "F16", "float32": "F32",
          "float64": "F64", "complex64": "C64", "complex128": "C128", "object": "DObj", "other": "DOther"}
FLOATS = ["float16", "float32", "float64"]
UINTS = ["uint8", "uint16", "uint32", "uint64"]
ALLOWED = {"photon": FLOATS, "pixel": FLOATS, "signal": FLOATS, "phase": FLOATS, "image": UINTS}
COQ_KIND = {"photon": "Photon", "pixel": "Pixel", "signal": "Signal", "image": "Image", "phase": "Phase"}
INT_RANGE = {"int8": (-128, 127), "int16": (-2 ** 15, 2 ** 15 - 1), "int32": (-2 ** 31, 2 ** 31 - 1),
             "int64": (-2 ** 63, 2 ** 63 - 1), "uint8": (0, 255), "uint16": (0, 65535), "uint32": (0, 2 ** 32 - 1),
             "uint64": (0, 2 ** 64 - 1), "bool": (0, 1)}
GEOMS = [(2, 3), (3, 2), (1, 4), (2, 2), (3, 4), (1, 1), (4, 1), (2, 4)]
SPECIAL = {"nan": 1000000001, "inf": 1000000002, "-inf": 1000000003}
CLAUSES = {1: "inv", 2: "failed_assign", 3: "read_empty", 4: "read_value", 5: "eq_spec", 6: "reset",
           7: "must_reject", 8: "assign_stores"}


# ------------------------------------------------------------------------------------------ generators


def prod(s):
    n = 1
    for x in s:
        n *= x
    return n


def gen_values(r, dt, n, vclass, budget):
    """n cells of the given value class that fit dtype `dt`; budget[0] bounds the sum of magnitudes of a case
    (all partial sums stay below 2048, exact in float16).  `vclass` may name several classes joined by '+'
    (e.g. 'neg+nan': a negative value AND a NaN in the same array, at different positions where n allows it)."""
    lo, hi = INT_RANGE.get(dt, (-10 ** 9, 10 ** 9))
    cap = max(1, min(60, budget[0] // 2))
    floaty = dt in FLOATS or dt in ("complex64", "complex128", "object")
    parts = vclass.split("+")
    vclass = parts[0]
    if vclass == "wrap" and dt in ("uint8", "int8") and budget[0] >= 600:
        m = 250 if dt == "uint8" else 120
        budget[0] -= m
        return [r.randrange(m - 20, m + 1) for _ in range(n)]
    top = min(cap, hi)
    budget[0] -= top
    if vclass == "zero" and len(parts) == 1:
        return [0] * n
    if vclass == "allneg" and lo < 0:
        return [-r.randrange(1, min(top, -lo) + 1) for _ in range(n)]
    vals = [0] * n if vclass == "zero" else [r.randrange(0, top + 1) for _ in range(n)]
    free = list(range(n))
    r.shuffle(free)
    for cls in parts:
        if cls in ("nan", "inf", "ninf") and not floaty:
            cls = "neg"
        if cls == "neg" and lo >= 0:
            continue
        if cls not in ("neg", "nan", "inf", "ninf") or not n:
            continue
        k = free.pop() if free else r.randrange(n)
        if cls == "neg":
            vals[k] = -r.randrange(1, min(top, -lo) + 1)
            if free and r.random() < 0.5:
                vals[free.pop()] = -r.randrange(1, min(top, -lo) + 1)
        else:
            vals[k] = {"nan": "nan", "inf": "inf", "ninf": "-inf"}[cls]
    return vals


def gen_vclass(r, names, weights, p_mix=0.3):
    """A value class; with probability p_mix a combination of two or three classes in one array (the clipping
    and comparison code paths treat NaN / infinities / negatives differently when they occur TOGETHER)."""
    v = r.choices(names, weights)[0]
    if v in ("wrap", "allneg") or r.random() >= p_mix:
        return v
    extra = [x for x in ("neg", "nan", "inf", "ninf") if x != v]
    r.shuffle(extra)
    return "+".join([v] + extra[:r.choice([1, 1, 2])])


def value_class(a) -> str:
    """Which special values an operand contains (distribution only)."""
    if a is None:
        return "none"
    d = a["data"]
    tags = []
    ints = [v for v in d if isinstance(v, int)]
    if any(v < 0 for v in ints):
        tags.append("allneg" if len(ints) == len(d) and all(v < 0 for v in ints) and len(d) > 1 else "neg")
    if "nan" in d:
        tags.append("nan")
    if "inf" in d:
        tags.append("inf")
    if "-inf" in d:
        tags.append("ninf")
    return "+".join(tags) if tags else "plain"


def gen_shape(r, rows, cols, cls):
    if cls == "right":
        return [rows, cols]
    if cls == "transposed":
        return [cols, rows]
    if cls == "larger":
        return r.choice([[rows + 1, cols], [rows, cols + 1], [rows + 1, cols + 2]])
    if cls == "smaller":
        return r.choice([[max(1, rows - 1), cols], [rows, max(1, cols - 1)]])
    if cls == "3d":
        return [r.choice([1, 2, 3]), rows, cols]
    if cls == "scalar":
        return r.choice([[], [1], [1, 1]])
    if cls == "bcast":
        return r.choice([[cols], [rows, 1], [1, cols], [1, rows, cols]])
    if cls == "flat":
        return [rows * cols]
    raise ValueError(cls)


SHAPE_BAD = ["transposed", "larger", "smaller", "3d", "scalar", "bcast", "flat"]


def gen_np(r, bucket, rows, cols, budget, p_valid, shape_cls=None, dt=None, vclass=None):
    if shape_cls is None:
        shape_cls = "right" if r.random() < p_valid else r.choice(SHAPE_BAD)
    shape = gen_shape(r, rows, cols, shape_cls)
    if dt is None:
        dt = r.choice(ALLOWED[bucket]) if r.random() < p_valid else r.choice(DTYPES)
    if vclass is None:
        vclass = gen_vclass(r, ["pos", "neg", "nan", "inf", "ninf", "zero", "wrap", "allneg"], [46, 20, 8, 5, 4, 4, 8, 5])
    return {"xr": None, "shape": shape, "dt": dt, "data": gen_values(r, dt, prod(shape), vclass, budget)}


WL = [400, 420, 440, 460]


def gen_xr(r, rows, cols, budget, p_valid, w=None, dt=None, vclass=None, form=None):
    if form is None:
        form = "good" if r.random() < p_valid else r.choice(["perm", "2d", "nocoord", "badyx", "othername", "shifted"])
    w = w or r.choice([1, 2, 3])
    dims, shape, wl = [0, 1, 2], [w, rows, cols], WL[:w]
    if form == "perm":
        dims, shape = [1, 2, 0], [rows, cols, w]
    elif form == "2d":
        dims, shape, wl = [1, 2], [rows, cols], None
    elif form == "nocoord":
        wl = None
    elif form == "badyx":
        shape = r.choice([[w, cols, rows], [w, rows + 1, cols], [w, rows, cols + 1]])
    elif form == "othername":
        dims, wl = [3, 1, 2], None
    elif form == "shifted":
        wl = [x + 5 for x in wl]
    if dt is None:
        dt = r.choice(FLOATS) if r.random() < max(p_valid, 0.5) else r.choice(DTYPES)
    if vclass is None:
        vclass = gen_vclass(r, ["pos", "neg", "nan", "inf", "ninf", "zero", "allneg"], [50, 24, 8, 5, 4, 4, 5])
    return {"xr": {"dims": dims, "wl": wl}, "shape": shape, "dt": dt,
            "data": gen_values(r, dt, prod(shape), vclass, budget)}


def wl_variant(r, a, legal_only=False):
    """The same numbers as the 3-D photon array `a` on ANOTHER wavelength grid (shifted, one value changed, reversed,
    another subset of WL) or -- not a legal content, only ever used as the OTHER operand of a comparison -- with the
    dims in another order / without the coordinate.  None when `a` is not a DataArray with a coordinate."""
    if a is None or a["xr"] is None or a["xr"]["wl"] is None:
        return None
    b = copy.deepcopy(a)
    wl = list(b["xr"]["wl"])
    forms = ["shift", "one", "grid"] + (["reverse"] if len(wl) > 1 else []) + ([] if legal_only else ["perm", "nocoord"])
    f = r.choice(forms)
    if f == "shift":
        d = r.choice([5, 200, -20])
        wl = [x + d for x in wl]
    elif f == "one":
        j = r.randrange(len(wl))
        wl[j] += r.choice([1, 3, 10])
    elif f == "grid":
        wl = [600 + 100 * i for i in range(len(wl))]
    elif f == "reverse":
        wl = wl[::-1]
    elif f == "perm":
        if len(set(b["shape"])) == 1:              # same shape under another order of the dimension names
            b["xr"]["dims"] = r.choice([[1, 2, 0], [2, 0, 1], [0, 2, 1]])
        else:
            b["xr"]["dims"], b["shape"] = [1, 2, 0], b["shape"][1:] + b["shape"][:1]
        return b
    else:
        b["xr"]["wl"] = None
        return b
    b["xr"]["wl"] = wl
    return b


def is_valid_for(bucket, rows, cols, a):
    """Would this array be a legal content (python-side helper for the generator only)."""
    if a is None:
        return True
    if a["dt"] not in ALLOWED[bucket]:
        return False
    if a["xr"] is None:
        ok = a["shape"] == [rows, cols]
    else:
        ok = (bucket == "photon" and a["xr"]["dims"] == [0, 1, 2] and a["xr"]["wl"] is not None
              and len(a["shape"]) == 3 and a["shape"][1:] == [rows, cols])
    if bucket == "photon":
        ok = ok and not any((isinstance(v, int) and v < 0) or v == "-inf" for v in a["data"])
    return ok


def gen_other(r, bucket, rows, cols, budget, last_valid, det):
    kinds = ["photon", "pixel", "signal", "image"] + (["phase"] if det == "mkid" else [])
    k = bucket if r.random() < 0.8 else r.choice(kinds)
    if r.random() < 0.7:
        ro, co = rows, cols
    else:
        ro, co = r.choice(GEOMS)
    x = r.random()
    if x < 0.3:
        content = None
    elif x < 0.65 and last_valid is not None and is_valid_for(k, ro, co, last_valid):
        content = copy.deepcopy(last_valid)
        if content["xr"] is not None and r.random() < 0.45:
            content = wl_variant(r, content) or content        # same numbers, another wavelength grid
        elif r.random() < 0.3 and content["data"]:
            j = r.randrange(len(content["data"]))
            if isinstance(content["data"][j], int):
                content["data"][j] += 1
        if r.random() < 0.3:
            content["dt"] = r.choice(ALLOWED[k])
    elif k == "photon" and r.random() < 0.3:
        content = gen_xr(r, ro, co, budget, 1.0, vclass=r.choice(["pos", "zero", "nan"]))
    else:
        content = gen_np(r, k, ro, co, budget, 1.0, vclass=r.choice(["pos", "pos", "zero", "nan"]))
    return {"kind": k, "rows": ro, "cols": co, "content": content}


def gen_case(r, det, bucket, rows, cols, n_ops, p_valid):
    ops, budget, last_valid = [], [1900], None
    photon = bucket == "photon"
    if photon:
        names = ["set", "set3d", "iadd", "add", "empty", "read", "read3d", "eq", "eqrev", "dassign", "dempty", "asarray"]
        weights = [20, 12, 24, 6, 6, 8, 5, 6, 4, 6, 3, 3]
    else:
        names = ["set", "update", "iadd", "add", "empty", "read", "eq", "eqrev", "dassign", "dempty", "asarray"]
        weights = [22, 12, 20, 6, 6, 10, 8, 5, 2 if bucket == "phase" else 6, 4, 3]   # MKID has no phase setter: AttributeError
    holds3d = False
    while len(ops) < n_ops:
        k = r.choices(names, weights)[0]
        o = {"op": k}
        if k in ("set", "update"):
            if k == "update" and r.random() < 0.25:
                o["arr"] = None
            else:
                o["arr"] = gen_np(r, bucket, rows, cols, budget, p_valid)
                if photon and r.random() < 0.25:
                    o["via"] = "array_2d"          # the alias property of Photon
                if k == "update" and o["arr"]["dt"] in ("int64", "float64", "bool") and r.random() < 0.4:
                    o["via"] = "list"              # update() takes array-likes: a nested Python list of the same values
                if is_valid_for(bucket, rows, cols, o["arr"]):
                    last_valid, holds3d = o["arr"], False
        elif k == "set3d":
            o["arr"] = gen_xr(r, rows, cols, budget, p_valid) if r.random() < 0.9 else gen_np(r, bucket, rows, cols, budget, p_valid, "3d")
            if is_valid_for(bucket, rows, cols, o["arr"]):
                last_valid, holds3d = o["arr"], True
        elif k in ("iadd", "add"):
            if photon and (holds3d or r.random() < 0.15):
                w = last_valid["shape"][0] if (holds3d and last_valid and r.random() < 0.85) else None
                o["arr"] = gen_xr(r, rows, cols, budget, max(p_valid, 0.6), w=w)
            elif not photon and r.random() < 0.07:
                # a DataArray handed to an ArrayBase bucket (numpy adds it by position; the value of `nd += da` is a DataArray)
                o["arr"] = gen_xr(r, rows, cols, budget, 0.5, form=r.choice(["2d", "2d", "good", "badyx"]),
                                  dt=r.choice(ALLOWED[bucket]) if r.random() < 0.7 else r.choice(DTYPES))
            else:
                cls = None
                if r.random() < 0.15:
                    cls = r.choice(["scalar", "bcast"])
                o["arr"] = gen_np(r, bucket, rows, cols, budget, p_valid, cls)
            if k == "iadd" and r.random() < 0.5:
                o["via"] = "detector"
        elif k in ("eq", "eqrev", "dassign"):
            o["other"] = gen_other(r, bucket, rows, cols, budget, last_valid, det)
            if k == "dassign" and is_valid_for(bucket, rows, cols, o["other"]["content"]) and o["other"]["content"]:
                last_valid = o["other"]["content"]
                holds3d = last_valid["xr"] is not None
        elif k == "dempty":
            o["reset"] = r.random() < 0.6
        if k in ("empty", "dempty") or (k == "update" and o.get("arr") is None):
            holds3d = False
        ops.append(o)
        if k not in ("read", "read3d", "eq", "eqrev", "asarray") and len(ops) < n_ops and r.random() < 0.3:
            if r.random() < 0.15:
                ops.append({"op": "asarray"})
            else:
                ops.append({"op": "read3d" if (photon and holds3d and r.random() < 0.7) else "read"})
                if photon and ops[-1]["op"] == "read" and r.random() < 0.25:
                    ops[-1]["via"] = "array_2d"
    return {"det": det, "rows": rows, "cols": cols, "bucket": bucket, "ops": ops[:max(n_ops, 1)]}


def buckets_of(det):
    return ["photon", "pixel", "signal", "image"] + (["phase"] if det == "mkid" else [])


def gen_cases(ctx: Ctx, n: int, salt: str, p_valid: float):
    r = ctx.rng(salt)
    cases = []
    dets = ["ccd", "cmos", "mkid", "apd"]
    i = 0
    while len(cases) < n:
        det = dets[i % 4]
        bs = buckets_of(det)
        # photons get a larger share: two storage forms and the weakest validation
        bucket = "photon" if r.random() < 0.3 else r.choice(bs)
        rows, cols = r.choice(GEOMS)
        n_ops = r.choice([1, 2, 2, 3, 3, 4, 5, 6, 8, 10, 12])
        cases.append(gen_case(r, det, bucket, rows, cols, n_ops, p_valid))
        i += 1
    return cases


# ---- equality family: stored contents with large / closely spaced values compared with near copies
BIG_TOP = {"float16": 2047, "float32": 2 ** 24 - 1, "float64": 2 ** 53 - 1, "uint8": 255, "uint16": 65535,
           "uint32": 2 ** 32 - 1, "uint64": 2 ** 64 - 1}


def big_values(r, dt, n):
    """Exactly representable integers of dtype dt, most of them close to the top of the exact range (where an
    approximate comparison, a narrowing conversion or a float round trip would lose the difference of 1)."""
    top = BIG_TOP[dt]
    mode = r.random()
    out = []
    for _ in range(n):
        if mode < 0.55:
            out.append(top - r.randrange(0, 64))
        elif mode < 0.8:
            out.append(r.randrange(0, top + 1))
        else:
            out.append(r.randrange(0, 60))
    if dt == "float64" and r.random() < 0.25:
        out[r.randrange(n)] = 2 ** r.choice([60, 100, 500, 1000])       # huge but finite, exact
    return out


def fits(dt, data):
    return all(isinstance(v, int) and 0 <= v <= BIG_TOP[dt] for v in data)


def gen_eq_case(r, det, bucket, rows, cols):
    """set / set3d / update / dassign of a legal content, then == and its mirror against near copies."""
    n = rows * cols
    dt = r.choice(ALLOWED[bucket])
    photon3d = bucket == "photon" and r.random() < 0.3
    if photon3d:
        w = r.choice([1, 2])
        a = {"xr": {"dims": [0, 1, 2], "wl": WL[:w]}, "shape": [w, rows, cols], "dt": dt, "data": big_values(r, dt, w * n)}
        ops = [{"op": "set3d", "arr": a}]
    else:
        a = {"xr": None, "shape": [rows, cols], "dt": dt, "data": big_values(r, dt, n)}
        how = r.choice(["set", "set", "update", "dassign"]) if bucket not in ("photon", "phase") else \
            r.choice(["set", "set", "dassign"]) if bucket == "photon" else r.choice(["set", "update"])
        if how == "dassign":
            ops = [{"op": "dassign", "other": {"kind": bucket, "rows": rows, "cols": cols, "content": a}}]
        else:
            ops = [{"op": how, "arr": a}]
            if how == "set" and bucket == "photon" and r.random() < 0.3:
                ops[0]["via"] = "array_2d"
    kinds = buckets_of(det)
    for _ in range(r.choice([2, 3, 4, 5])):
        b = copy.deepcopy(a)
        kind, ro, co = bucket, rows, cols
        v = r.random()
        if photon3d and r.random() < 0.4:
            b = wl_variant(r, a)                                   # same numbers on another wavelength grid / dims order
            v = 2.0
        if v > 1.0:
            pass
        elif v < 0.2:
            pass                                                   # identical
        elif v < 0.45:                                             # one element differs by one
            j = r.randrange(len(b["data"]))
            x = b["data"][j]
            b["data"][j] = x // 2 if x > BIG_TOP[b["dt"]] else x - 1 if x > 0 else x + 1    # stays exactly representable
        elif v < 0.6:                                              # same values, another allowed dtype
            cand = [d for d in ALLOWED[bucket] if d != dt and fits(d, b["data"])]
            if cand:
                b["dt"] = r.choice(cand)
        elif v < 0.7:
            b = None                                               # empty
        elif v < 0.8 and not photon3d:                             # same array in a container of another kind
            cand = [k for k in kinds if k != bucket and dt in ALLOWED[k]]
            if cand:
                kind = r.choice(cand)
        elif v < 0.9:                                              # other geometry (content legal there)
            ro, co = r.choice([g for g in GEOMS if g != (rows, cols)])
            if r.random() < 0.5:
                b = None
            elif photon3d:
                b = dict(b, shape=[b["shape"][0], ro, co], data=big_values(r, dt, b["shape"][0] * ro * co))
            else:
                b = dict(b, shape=[ro, co], data=big_values(r, dt, ro * co))
        elif bucket == "photon":                                   # 2-D against 3-D
            if photon3d:
                b = {"xr": None, "shape": [rows, cols], "dt": dt, "data": a["data"][:n]}
            else:
                b = {"xr": {"dims": [0, 1, 2], "wl": WL[:1]}, "shape": [1, rows, cols], "dt": dt, "data": list(a["data"])}
        ops.append({"op": r.choice(["eq", "eqrev"]), "other": {"kind": kind, "rows": ro, "cols": co, "content": b}})
        if r.random() < 0.35:
            ops.append(dict(ops[-1], op="eqrev" if ops[-1]["op"] == "eq" else "eq"))
        if r.random() < 0.1:
            ops.append({"op": "empty"})
        elif r.random() < 0.15:
            ops.append({"op": r.choice(["read3d" if photon3d else "read", "asarray"])})
    return {"det": det, "rows": rows, "cols": cols, "bucket": bucket, "ops": ops}


def gen_eq_cases(ctx: Ctx, n: int, salt: str = "eqfam"):
    r = ctx.rng(salt)
    dets = ["ccd", "cmos", "mkid", "apd"]
    out = []
    for i in range(n):
        det = dets[i % 4]
        rows, cols = r.choice(GEOMS)
        out.append(gen_eq_case(r, det, r.choice(buckets_of(det)), rows, cols))
    return out



# ---- reset family and 3-D photon family: situations the general stream reaches too rarely (measured: `condition`)


def gen_reset_case(r, det, bucket, rows, cols):
    """content (finite, NaN or infinite), optional in-place addition, then a reset of some kind, then reads."""
    budget = [1900]
    ops = []
    vc = r.choice(["pos", "pos", "pos+nan", "pos+inf", "pos+ninf", "zero", "pos+nan+inf"])
    if bucket == "image":
        vc = r.choice(["pos", "zero", "wrap"])
    if bucket == "photon" and r.random() < 0.4:
        ops.append({"op": "set3d", "arr": gen_xr(r, rows, cols, budget, 1.0, vclass=vc)})
    elif r.random() < 0.85:
        how = "update" if (bucket != "photon" and r.random() < 0.3) else "set"
        ops.append({"op": how, "arr": gen_np(r, bucket, rows, cols, budget, 1.0, vclass=vc)})
    if r.random() < 0.3:
        ops.append({"op": "iadd", "arr": gen_np(r, bucket, rows, cols, budget, 0.9), "via": "detector"})
    k = r.random()
    if k < 0.55:
        ops.append({"op": "dempty", "reset": r.random() < 0.65})
    elif k < 0.8 or bucket == "photon":
        ops.append({"op": "empty"})
    else:
        ops.append({"op": "update", "arr": None})
    ops.append({"op": r.choice(["read", "asarray", "read3d" if bucket == "photon" else "read"])})
    if r.random() < 0.5:
        ops.append({"op": "eq", "other": {"kind": bucket, "rows": rows, "cols": cols, "content": None}})
    if r.random() < 0.4:
        ops.append({"op": "iadd", "arr": gen_np(r, bucket, rows, cols, budget, 0.9)})
        ops.append({"op": "dempty", "reset": r.random() < 0.5})
        ops.append({"op": "read"})
    return {"det": det, "rows": rows, "cols": cols, "bucket": bucket, "ops": ops}


def gen_3d_case(r, det, rows, cols):
    """a multi-wavelength photon and everything that can be done to it"""
    budget = [1900]
    w = r.choice([1, 2, 3])
    first = gen_xr(r, rows, cols, budget, 1.0, w=w, vclass=r.choice(["pos", "pos", "neg", "pos+nan", "zero"]))
    ops = [{"op": "set3d", "arr": first}]
    for _ in range(r.choice([2, 3, 4, 6])):
        k = r.choices(["iadd", "add", "iadd_np", "dassign3", "dassign2", "dassign0", "set", "set3d", "eq", "read", "empty", "dempty"],
                      [22, 14, 6, 10, 6, 4, 6, 6, 12, 8, 3, 3])[0]
        if k in ("iadd", "add"):
            form = r.choices(["good", "shifted", "badyx", "perm", "nocoord", "2d"], [60, 12, 10, 6, 6, 6])[0]
            a = gen_xr(r, rows, cols, budget, 1.0, w=w if r.random() < 0.85 else None, form=form,
                       dt=r.choice(FLOATS) if r.random() < 0.8 else r.choice(DTYPES))
            ops.append({"op": k, "arr": a})
            if k == "iadd" and r.random() < 0.5:
                ops[-1]["via"] = "detector"
        elif k == "iadd_np":
            ops.append({"op": "iadd", "arr": gen_np(r, "photon", rows, cols, budget, 0.8)})
        elif k in ("dassign3", "dassign2", "dassign0"):
            ro, co = (rows, cols) if r.random() < 0.7 else r.choice(GEOMS)
            content = (None if k == "dassign0" else
                       gen_xr(r, ro, co, budget, 1.0, vclass=r.choice(["pos", "neg", "nan"])) if k == "dassign3" else
                       gen_np(r, "photon", ro, co, budget, 1.0, vclass=r.choice(["pos", "neg"])))
            ops.append({"op": "dassign", "other": {"kind": "photon", "rows": ro, "cols": co, "content": content}})
        elif k == "set":
            ops.append({"op": "set", "arr": gen_np(r, "photon", rows, cols, budget, 0.8)})
        elif k == "set3d":
            ops.append({"op": "set3d", "arr": gen_xr(r, rows, cols, budget, 0.7)})
        elif k == "eq":
            ro, co = (rows, cols) if r.random() < 0.7 else r.choice(GEOMS)
            v = r.random()
            content = (wl_variant(r, first) if v < 0.2 and (ro, co) == (rows, cols) else
                       copy.deepcopy(first) if v < 0.35 and (ro, co) == (rows, cols) else
                       gen_xr(r, ro, co, budget, 1.0, vclass="pos") if v < 0.7 else
                       gen_np(r, "photon", ro, co, budget, 1.0, vclass="pos") if v < 0.85 else None)
            ops.append({"op": r.choice(["eq", "eqrev"]), "other": {"kind": "photon", "rows": ro, "cols": co, "content": content}})
        elif k == "read":
            ops.append({"op": r.choice(["read3d", "read3d", "read", "asarray"])})
        elif k == "empty":
            ops.append({"op": "empty"})
        else:
            ops.append({"op": "dempty", "reset": r.random() < 0.5})
        if r.random() < 0.3:
            ops.append({"op": "read3d"})
    return {"det": det, "rows": rows, "cols": cols, "bucket": "photon", "ops": ops}


def gen_family_cases(ctx: Ctx, n: int, salt: str = "families"):
    r = ctx.rng(salt)
    dets = ["mkid", "ccd", "mkid", "cmos", "mkid", "apd"]
    out = []
    for i in range(n):
        det = dets[i % len(dets)]
        rows, cols = r.choice(GEOMS)
        if i % 3 == 2:
            out.append(gen_3d_case(r, det, rows, cols))
        else:
            bucket = "phase" if (det == "mkid" and r.random() < 0.6) else r.choice(buckets_of(det))
            out.append(gen_reset_case(r, det, bucket, rows, cols))
    return out



# ---- assignment families: illegal assignments on FILLED containers; empty containers assigned onto populated buckets


# numpy element types outside the model's enumeration (the model calls them DOther: in no TYPE_LIST, never stored).
# Only ever used as operands of ASSIGNMENTS (never of an in-place addition on a filled container, whose casting rule
# for these types is not in the generated table).
EXOTIC = ["datetime64[s]", "timedelta64[s]", "<U3"]


def forbidden_dtypes(bucket, exotic=False):
    return [d for d in DTYPES if d not in ALLOWED[bucket]] + (EXOTIC if exotic else [])


def gen_fill_ops(r, det, bucket, rows, cols, budget, dt=None):
    """One of the ways a bucket gets a legal content: returns (ops, holds3d)."""
    dt = dt or r.choice(ALLOWED[bucket])
    vc = r.choice(["pos", "pos", "zero", "pos+nan"]) if bucket != "image" else r.choice(["pos", "zero"])
    if bucket == "photon" and r.random() < 0.35:
        a = gen_xr(r, rows, cols, budget, 1.0, dt=dt, vclass=vc)
        how = r.choice(["set3d", "iadd", "dassign"])
        if how == "set3d":
            return [{"op": "set3d", "arr": a}], True
        if how == "iadd":
            return [dict({"op": "iadd", "arr": a}, **({"via": "detector"} if r.random() < 0.5 else {}))], True
        return [{"op": "dassign", "other": {"kind": "photon", "rows": rows, "cols": cols, "content": a}}], True
    a = gen_np(r, bucket, rows, cols, budget, 1.0, "right", dt, vc)
    ways = ["set", "set", "iadd", "iadd_det", "add"]
    if bucket != "photon":
        ways += ["update", "update_list"]
    if bucket != "phase":
        ways += ["dassign"]
    if bucket == "photon":
        ways += ["array_2d"]
    if bucket == "pixel":
        ways += ["empty_zeros", "dempty_zeros"]
    how = r.choice(ways)
    if how == "set":
        ops = [{"op": "set", "arr": a}]
    elif how == "array_2d":
        ops = [{"op": "set", "arr": a, "via": "array_2d"}]
    elif how == "iadd":
        ops = [{"op": "iadd", "arr": a}]
    elif how == "iadd_det":
        ops = [{"op": "iadd", "arr": a, "via": "detector"}]
    elif how == "add":
        ops = [{"op": "add", "arr": a}]
    elif how == "update":
        ops = [{"op": "update", "arr": a}]
    elif how == "update_list":
        a = dict(a, dt="float64") if bucket != "image" else a
        ops = [{"op": "update", "arr": a}]
        if a["dt"] == "float64":
            ops[0]["via"] = "list"
    elif how == "dassign":
        ops = [{"op": "dassign", "other": {"kind": bucket, "rows": rows, "cols": cols, "content": a}}]
    elif how == "empty_zeros":
        ops = [{"op": "empty"}]                          # Pixel.empty() leaves float64 zeros: a FILLED container
    else:
        ops = [{"op": "set", "arr": a}, {"op": "dempty", "reset": True}]
    if r.random() < 0.25:
        ops.append({"op": "iadd", "arr": gen_np(r, bucket, rows, cols, budget, 1.0, "right", r.choice(ALLOWED[bucket]), "pos")})
    return ops, False


def gen_illegal_operand(r, det, bucket, rows, cols, budget, dt=None):
    """(op dict) one assignment of an array that is NO legal content of the bucket, through one of its entry points."""
    photon = bucket == "photon"
    kind = r.choices(["dtype", "shape", "container", "otherkind"], [60, 20, 12, 8])[0]
    if dt is not None:
        kind = "dtype"
    if kind == "otherkind" and bucket != "phase":
        # the (legal) content of a bucket of another kind whose element type is forbidden here
        ks = [k for k in ["photon", "pixel", "signal", "image"] if set(ALLOWED[k]) != set(ALLOWED[bucket])]
        k = r.choice(ks)
        a = gen_np(r, k, rows, cols, budget, 1.0, "right", r.choice(ALLOWED[k]), "pos")
        return {"op": "dassign", "other": {"kind": k, "rows": rows, "cols": cols, "content": a}}
    three_d = photon and r.random() < 0.3
    if kind == "container" or kind == "otherkind":
        if photon:      # ndarray to the 3-D setter is refused but it is a legal photon content: use ill-formed DataArrays
            a = gen_xr(r, rows, cols, budget, 0.0, dt=r.choice(FLOATS), vclass="pos",
                       form=r.choice(["perm", "2d", "nocoord", "badyx", "othername"]))
            return {"op": r.choice(["set3d", "set3d", "iadd_empty"]), "arr": a}
        a = gen_xr(r, rows, cols, budget, 0.0, form=r.choice(["2d", "2d", "good", "nocoord"]), dt=r.choice(ALLOWED[bucket]), vclass="pos")
        return {"op": "set", "arr": a}
    if kind == "dtype":
        dt = dt or r.choice(forbidden_dtypes(bucket))
        vc = r.choice(["pos", "pos", "neg", "allneg", "nan", "zero", "wrap"])
        if dt in EXOTIC:
            vc, three_d = "pos", False
        a = (gen_xr(r, rows, cols, budget, 1.0, dt=dt, vclass=vc) if three_d else
             gen_np(r, bucket, rows, cols, budget, 1.0, "right", dt, vc))
    else:
        gdt = r.choice(ALLOWED[bucket])
        a = (gen_xr(r, rows, cols, budget, 0.0, dt=gdt, vclass="pos", form=r.choice(["perm", "nocoord", "badyx", "othername"]))
             if three_d else gen_np(r, bucket, rows, cols, budget, 0.0, r.choice(SHAPE_BAD), gdt, "pos"))
    if three_d:
        return {"op": r.choice(["set3d", "set3d", "dassign"]), "arr": a}
    entries = ["set", "set"] + (["array_2d"] if photon else ["update", "update"]) + ([] if bucket == "phase" else ["dassign"])
    e = r.choice(entries)
    if e == "array_2d":
        return {"op": "set", "arr": a, "via": "array_2d"}
    if e == "update" and a["dt"] in ("int64", "float64", "bool") and r.random() < 0.5:
        return {"op": "update", "arr": a, "via": "list"}
    return {"op": e, "arr": a}


def finish_assign_op(o, bucket, rows, cols):
    """`dassign` / `iadd_empty` written with an "arr" -> the op list form"""
    if o["op"] == "dassign" and "arr" in o:
        return [{"op": "dassign", "other": {"kind": bucket, "rows": rows, "cols": cols, "content": o["arr"]}}]
    if o["op"] == "iadd_empty":
        return [{"op": "empty"}, {"op": "iadd", "arr": o["arr"]}]       # `+=` on an emptied container is an assignment
    return [o]


def gen_filled_reject_case(r, det, bucket, rows, cols, exhaustive_dtypes=False):
    """fill the bucket, then a run of assignments that must ALL be refused (every forbidden element type when
    `exhaustive_dtypes`), with reads / comparisons in between: the content must stay what the fill left"""
    budget = [1900]
    ops, _ = gen_fill_ops(r, det, bucket, rows, cols, budget)
    filled = None
    bad = forbidden_dtypes(bucket, exotic=True)
    r.shuffle(bad)
    todo = bad if exhaustive_dtypes else bad[:r.choice([3, 4, 6])]
    items = [gen_illegal_operand(r, det, bucket, rows, cols, budget, dt=d) for d in todo]
    items += [gen_illegal_operand(r, det, bucket, rows, cols, budget) for _ in range(r.choice([1, 2, 3]))]
    r.shuffle(items)
    for it in items:
        budget[0] = max(budget[0], 400)
        new = finish_assign_op(it, bucket, rows, cols)
        if new[0]["op"] == "empty" and bucket == "pixel":
            new = new[1:]                               # Pixel.empty() does not empty
        ops += new
        if new[0]["op"] == "empty":                     # the container was emptied on purpose: fill it again afterwards
            ops += gen_fill_ops(r, det, bucket, rows, cols, budget)[0]
        x = r.random()
        if x < 0.2:
            ops.append({"op": r.choice(["read", "asarray"] + (["read3d"] if bucket == "photon" else []))})
        elif x < 0.3:
            ops.append({"op": r.choice(["eq", "eqrev"]), "other": {"kind": bucket, "rows": rows, "cols": cols, "content": None}})
    ops.append({"op": "read"})
    return {"det": det, "rows": rows, "cols": cols, "bucket": bucket, "ops": ops}


def gen_assign_empty_case(r, det, bucket, rows, cols):
    """populate the bucket, assign an EMPTY container to it through the Detector setter, then read, compare, increment"""
    budget = [1900]
    ops, holds3d = gen_fill_ops(r, det, bucket, rows, cols, budget)
    kinds = buckets_of(det)
    for rnd in range(r.choice([1, 1, 2])):
        x = r.random()
        k = bucket if x < 0.75 else r.choice(kinds)
        ro, co = (rows, cols) if r.random() < 0.75 else r.choice(GEOMS)
        ops.append({"op": "dassign", "other": {"kind": k, "rows": ro, "cols": co, "content": None}})
        for _ in range(r.choice([1, 2, 3])):
            y = r.choice(["read", "read", "read3d" if bucket == "photon" else "read", "asarray", "eq", "eqrev", "iadd", "dassign", "set"])
            if y in ("eq", "eqrev"):
                ops.append({"op": y, "other": {"kind": bucket, "rows": rows, "cols": cols, "content": None}})
            elif y == "iadd":
                a = (gen_xr(r, rows, cols, budget, 1.0, vclass="pos") if (bucket == "photon" and r.random() < 0.3) else
                     gen_np(r, bucket, rows, cols, budget, 1.0, "right", r.choice(ALLOWED[bucket]), "pos"))
                ops.append(dict({"op": "iadd", "arr": a}, **({"via": "detector"} if r.random() < 0.5 else {})))
                ops.append({"op": "read3d" if a["xr"] is not None else "read"})
            elif y == "dassign":
                a = gen_np(r, bucket, rows, cols, budget, 1.0, "right", r.choice(ALLOWED[bucket]), "pos")
                ops.append({"op": "dassign", "other": {"kind": bucket, "rows": rows, "cols": cols, "content": a}})
            elif y == "set":
                ops.append({"op": "set", "arr": gen_np(r, bucket, rows, cols, budget, 0.9)})
            else:
                ops.append({"op": y})
    return {"det": det, "rows": rows, "cols": cols, "bucket": bucket, "ops": ops}


def gen_assign_cases(ctx: Ctx, n: int, salt: str = "assign", exhaustive_dtypes=False):
    r = ctx.rng(salt)
    dets = ["ccd", "mkid", "cmos", "mkid", "apd"]
    out = []
    for i in range(n):
        det = dets[i % len(dets)]
        rows, cols = r.choice(GEOMS)
        bs = buckets_of(det)
        bucket = bs[(i // len(dets)) % len(bs)]
        if i % 3 == 2 and bucket != "phase":
            out.append(gen_assign_empty_case(r, det, bucket, rows, cols))
        else:
            out.append(gen_filled_reject_case(r, det, bucket, rows, cols, exhaustive_dtypes))
    return out


def exhaustive_assign_cases():
    """Every bucket x every allowed stored element type x every entry point x every forbidden element type:
    fill, one illegal assignment, read (2x2 detectors; 3-D photons through array_3d and the detector setter)."""
    cases = []
    rows, cols = 2, 2
    n = rows * cols

    def np_(dt, data):
        return {"xr": None, "shape": [rows, cols], "dt": dt, "data": data}

    def x3(dt, data):
        return {"xr": {"dims": [0, 1, 2], "wl": [400, 420]}, "shape": [2, rows, cols], "dt": dt, "data": data}

    def vals(dt, m):
        lo, _ = INT_RANGE.get(dt, (-10, 10))
        return [(-3 if lo < 0 and dt != "bool" else 1)] + [(i % 2 if dt == "bool" else i + 2) for i in range(m - 1)]

    for det, bucket in [("ccd", "photon"), ("cmos", "pixel"), ("apd", "signal"), ("ccd", "image"), ("mkid", "phase")]:
        entries = ["set"] + (["update"] if bucket != "photon" else ["array_2d", "set3d", "dassign3"]) + (["dassign"] if bucket != "phase" else [])
        for good in ALLOWED[bucket]:
            for e in entries:
                three = e in ("set3d", "dassign3")
                fill = ({"op": "set3d", "arr": x3(good, list(range(1, 2 * n + 1)))} if three else
                        {"op": "set", "arr": np_(good, list(range(1, n + 1)))})
                for bad in forbidden_dtypes(bucket, exotic=not three):
                    a = x3(bad, vals(bad, 2 * n)) if three else np_(bad, vals(bad, n))
                    if e in ("dassign", "dassign3"):
                        o = {"op": "dassign", "other": {"kind": bucket, "rows": rows, "cols": cols, "content": a}}
                    elif e == "array_2d":
                        o = {"op": "set", "arr": a, "via": "array_2d"}
                    else:
                        o = {"op": e, "arr": a}
                    cases.append({"det": det, "rows": rows, "cols": cols, "bucket": bucket,
                                  "ops": [fill, o, {"op": "read3d" if three else "read"}]})
    return cases


def alphabet(bucket, rows, cols):
    """A fixed small alphabet of operations per bucket (exhaustive short sequences)."""
    fl = "float32"
    good_dt = ALLOWED[bucket][1]
    n = rows * cols

    def np_(shape, dt, data):
        return {"xr": None, "shape": shape, "dt": dt, "data": data}

    ok = np_([rows, cols], good_dt, list(range(1, n + 1)))
    ops = [
        {"op": "set", "arr": ok},
        {"op": "set", "arr": np_([cols, rows], good_dt, list(range(n)))},
        {"op": "set", "arr": np_([rows, cols], "int16" if bucket != "image" else "int32", [1] * n)},
        {"op": "set", "arr": np_([rows, cols], "float64" if bucket == "image" else "uint16", [2] * n)},
        {"op": "set", "arr": np_([rows, cols], good_dt if bucket == "image" else fl,
                                 [3] * n if bucket == "image" else [-1] + [3] * (n - 1))},
        {"op": "iadd", "arr": ok},
        {"op": "iadd", "arr": np_([rows, cols], "int16", [-2] * n), "via": "detector"},
        {"op": "iadd", "arr": np_([rows + 1, cols], good_dt, [1] * ((rows + 1) * cols))},
        {"op": "iadd", "arr": np_([rows, cols], "complex128", [1] * n)},
        {"op": "iadd", "arr": np_([], good_dt, [5])},
        {"op": "add", "arr": np_([cols], good_dt, [1] * cols)},
        {"op": "empty"},
        {"op": "read"},
        {"op": "asarray"},
        {"op": "dempty", "reset": True},
        {"op": "dempty", "reset": False},
        {"op": "eq", "other": {"kind": bucket, "rows": rows, "cols": cols, "content": None}},
        {"op": "eq", "other": {"kind": bucket, "rows": rows, "cols": cols, "content": ok}},
        {"op": "eqrev", "other": {"kind": bucket, "rows": rows, "cols": cols, "content": ok}},
        {"op": "eqrev", "other": {"kind": bucket, "rows": rows, "cols": cols, "content": None}},
        {"op": "eq", "other": {"kind": bucket, "rows": cols, "cols": rows + 1, "content": None}},
    ]
    if bucket != "phase":
        ops += [
            {"op": "dassign", "other": {"kind": bucket, "rows": rows, "cols": cols, "content": ok}},
            {"op": "dassign", "other": {"kind": bucket, "rows": rows, "cols": cols, "content": None}},
            {"op": "dassign", "other": {"kind": bucket, "rows": cols, "cols": rows + 1,
                                        "content": np_([cols, rows + 1], good_dt, [1] * (cols * (rows + 1)))}},
        ]
    if bucket == "photon":
        x3 = {"xr": {"dims": [0, 1, 2], "wl": [400, 420]}, "shape": [2, rows, cols], "dt": fl, "data": [1] * (2 * n)}
        x3n = {"xr": {"dims": [0, 1, 2], "wl": [400, 420]}, "shape": [2, rows, cols], "dt": fl,
               "data": [-4] + [1] * (2 * n - 1)}
        x3bad = {"xr": {"dims": [0, 1, 2], "wl": [400, 420]}, "shape": [2, cols, rows + 1], "dt": fl,
                 "data": [1] * (2 * cols * (rows + 1))}
        # negatives TOGETHER with NaN / +inf (2-D and 3-D): reductions such as min()/sum() behave differently
        mix2 = np_([rows, cols], fl, [-2, "nan"] + [3] * (n - 2))
        mix2i = np_([rows, cols], "float64", ["inf", -7] + [1] * (n - 2))
        x3mix = {"xr": {"dims": [0, 1, 2], "wl": [400, 420]}, "shape": [2, rows, cols], "dt": fl,
                 "data": ["nan", -4] + [1] * (2 * n - 2)}
        ops += [{"op": "set", "arr": mix2}, {"op": "set", "arr": mix2i}, {"op": "set3d", "arr": x3mix}]
        ops += [{"op": "set3d", "arr": x3}, {"op": "set3d", "arr": x3n}, {"op": "set3d", "arr": x3bad},
                {"op": "iadd", "arr": x3}, {"op": "iadd", "arr": x3n}, {"op": "read3d"},
                {"op": "eq", "other": {"kind": "photon", "rows": rows, "cols": cols, "content": x3}},
                {"op": "eq", "other": {"kind": "photon", "rows": rows, "cols": cols,
                                       "content": dict(x3, xr={"dims": [0, 1, 2], "wl": [400, 440]})}},
                {"op": "eqrev", "other": {"kind": "photon", "rows": rows, "cols": cols,
                                          "content": dict(x3, xr={"dims": [0, 1, 2], "wl": [600, 700]})}}]
    else:
        ops += [{"op": "iadd", "arr": {"xr": {"dims": [1, 2], "wl": None}, "shape": [rows, cols], "dt": good_dt, "data": [2] * n}},
                {"op": "add", "arr": {"xr": {"dims": [1, 2], "wl": None}, "shape": [rows, cols], "dt": good_dt, "data": [3] * n},
                 "via": "detector"}]
        ops += [{"op": "update", "arr": None}, {"op": "update", "arr": ok},
                {"op": "update", "arr": np_([rows, cols + 1], good_dt, [1] * (rows * (cols + 1)))}]
    return ops


def exhaustive_cases(depth: int):
    cases = []
    for det, bucket in [("ccd", "photon"), ("cmos", "pixel"), ("apd", "signal"), ("ccd", "image"), ("mkid", "phase")]:
        rows, cols = 2, 3
        al = alphabet(bucket, rows, cols)
        seqs = [[o] for o in al]
        allseq = list(seqs)
        for _ in range(depth - 1):
            seqs = [s + [o] for s in seqs for o in al]
            allseq += seqs
        for s in allseq:
            cases.append({"det": det, "rows": rows, "cols": cols, "bucket": bucket, "ops": copy.deepcopy(s)})
    return cases


def small_alphabet(bucket, rows, cols):
    """A dozen operations per bucket chosen so that every branch of the setters, of += (empty / initialised, accepted /
    clipped / rejected before / rejected after the addition), of the resets and of == is reachable: all sequences of
    length 3 are enumerated in the thorough tier."""
    al = alphabet(bucket, rows, cols)
    n = rows * cols
    good_dt = ALLOWED[bucket][1]

    def np_(shape, dt, data):
        return {"xr": None, "shape": shape, "dt": dt, "data": data}

    def pick(pred):
        return next(o for o in al if pred(o))

    ok = pick(lambda o: o["op"] == "set")["arr"]
    ops = [{"op": "set", "arr": ok},
           {"op": "set", "arr": np_([cols, rows], good_dt, list(range(n)))},
           {"op": "iadd", "arr": ok, "via": "detector"},
           {"op": "iadd", "arr": np_([rows, cols], "complex128", [1] * n)},
           {"op": "add", "arr": np_([cols], good_dt, [1] * cols)},
           {"op": "empty"}, {"op": "dempty", "reset": True}, {"op": "read"}, {"op": "asarray"},
           {"op": "eq", "other": {"kind": bucket, "rows": rows, "cols": cols, "content": ok}},
           {"op": "eqrev", "other": {"kind": bucket, "rows": rows, "cols": cols, "content": None}}]
    if bucket == "photon":
        x3 = pick(lambda o: o["op"] == "set3d")["arr"]
        x3n = {"xr": {"dims": [0, 1, 2], "wl": [400, 420]}, "shape": [2, rows, cols], "dt": "float32",
               "data": [-4] + [1] * (2 * n - 1)}
        ops += [{"op": "set", "arr": np_([rows, cols], "float32", [-1, "nan"] + [3] * (n - 2))},
                {"op": "iadd", "arr": np_([rows, cols], "float64", [-9] + [0] * (n - 1))},
                {"op": "set3d", "arr": x3}, {"op": "iadd", "arr": x3n}, {"op": "read3d"},
                {"op": "dassign", "other": {"kind": "photon", "rows": cols, "cols": rows + 1,
                                            "content": np_([cols, rows + 1], good_dt, [1] * (cols * (rows + 1)))}}]
    else:
        ops += [{"op": "iadd", "arr": {"xr": {"dims": [1, 2], "wl": None}, "shape": [rows, cols], "dt": good_dt, "data": [2] * n}},
                {"op": "update", "arr": None},
                {"op": "update", "arr": np_([rows, cols + 1], good_dt, [1] * (rows * (cols + 1)))}]
        if bucket != "phase":
            ops.append({"op": "dassign", "other": {"kind": bucket, "rows": rows, "cols": cols, "content": ok}})
    return ops


def exhaustive3_cases():
    cases = []
    for det, bucket in [("ccd", "photon"), ("cmos", "pixel"), ("apd", "image"), ("mkid", "phase")]:
        rows, cols = 2, 3
        al = small_alphabet(bucket, rows, cols)
        for a in al:
            for b in al:
                for c in al:
                    cases.append({"det": det, "rows": rows, "cols": cols, "bucket": bucket, "ops": copy.deepcopy([a, b, c])})
    return cases


def load_corpus():
    out = []
    if CORPUS.exists():
        for f in sorted(CORPUS.glob("*.json")):
            d = json.loads(f.read_text())
            out += d if isinstance(d, list) else [d]
    return out


# ------------------------------------------------------------------------------------------ Coq emission


def zlit(v) -> str:
    if isinstance(v, str):
        v = SPECIAL[v]
    return f"({v})" if v < 0 else str(v)


def nat_list(l) -> str:
    return "[" + "; ".join(str(int(x)) for x in l) + "]"


def z_list(l) -> str:
    return "[" + "; ".join(zlit(x) for x in l) + "]%Z"


def emit_arr(a) -> str:
    dt = COQ_DT.get(a["dt"], "DOther")
    if a["xr"] is None:
        return f"(mk_np {nat_list(a['shape'])} {dt} {z_list(a['data'])})"
    wl = "None" if a["xr"]["wl"] is None else f"(Some {z_list(a['xr']['wl'])})"
    return f"(mk_xr {nat_list(a['xr']['dims'])} {wl} {nat_list(a['shape'])} {dt} {z_list(a['data'])})"


def emit_opt_arr(a) -> str:
    return "None" if a is None else f"(Some {emit_arr(a)})"


def emit_cont(c) -> str:
    return f"(mk_cont {COQ_KIND[c['kind']]} {c['rows']} {c['cols']} {emit_opt_arr(c['content'])})"


def emit_op(o) -> str:
    k = o["op"]
    if k == "set":
        return f"OSet {emit_arr(o['arr'])}"
    if k == "set3d":
        return f"OSet3D {emit_arr(o['arr'])}"
    if k == "update":
        return f"OUpdate {emit_opt_arr(o['arr'])}"
    if k == "iadd":
        return f"OIAdd {emit_arr(o['arr'])}"
    if k == "add":
        return f"OAdd {emit_arr(o['arr'])}"
    if k == "empty":
        return "OEmpty"
    if k == "read":
        return "ORead"
    if k == "read3d":
        return "ORead3D"
    if k == "eq":
        return f"OEq {emit_cont(o['other'])}"
    if k == "eqrev":
        return f"OEqRev {emit_cont(o['other'])}"
    if k == "dassign":
        return f"ODAssign {emit_cont(o['other'])}"
    if k == "dempty":
        return f"ODEmpty {core.cbool(bool(o['reset']))}"
    if k == "asarray":
        return "OAsArray"
    raise ValueError(k)


def emit_out(res) -> str:
    t = res["t"]
    if t == "done":
        return "Done"
    if t == "raise":
        return "(Raise %s)" % {"TypeError": "TypeError", "ValueError": "ValueError"}.get(res["cls"], "OtherError")
    if t == "arr":
        if res["arr"] is None:
            return "RetNone"                     # a getter returned None instead of raising
        return f"(RetArr {emit_arr(res['arr'])})"
    if t == "bool":
        return f"(RetBool {core.cbool(res['v'])})"
    raise ValueError(t)


def emit_obs(ob) -> str:
    dt = "None" if ob["dtype"] is None else f"(Some {COQ_DT.get(ob['dtype'], 'DOther')})"
    return f"mk_obs {emit_out(ob['out'])} {emit_opt_arr(ob['state'])} {nat_list(ob['shape'])} {dt}"


def emit_case(c, obs) -> str:
    ops = ";\n     ".join(emit_op(o) for o in c["ops"])
    os_ = ";\n     ".join(emit_obs(o) for o in obs)
    return f"mk_case {COQ_KIND[c['bucket']]} {c['rows']} {c['cols']}\n    [{ops}]\n    [{os_}]"


def emit_file(pairs) -> str:
    body = ";\n  ".join(emit_case(c, o) for c, o in pairs)
    return ("From Coq Require Import ZArith List Bool.\nFrom PyxelV Require Import Model.Containers.\n"
            "From PyxelGen Require Import Gen_C13.\nImport ListNotations.\n"
            f"Definition cases : list ccase := [\n  {body}\n].\n"
            "Eval vm_compute in mismatches src_tables cases.\n"
            "Eval vm_compute in violations cases.\n"
            "Eval vm_compute in unmodelled src_tables cases.\n")


# ------------------------------------------------------------------------------------------ classification


def operand_class(bucket, rows, cols, a):
    """Why an operand is not a legal content (first reason), or 'valid'."""
    if a is None:
        return "none"
    neg = any((isinstance(v, int) and v < 0) or v == "-inf" for v in a["data"])
    if a["xr"] is not None and bucket != "photon":
        return "dataarray"
    if a["dt"] not in ALLOWED[bucket]:
        return "wrong_dtype"
    if a["xr"] is None:
        if a["shape"] != [rows, cols]:
            return "wrong_shape"
    else:
        if a["xr"]["dims"] != [0, 1, 2] or len(a["shape"]) != 3:
            return "wrong_dims"
        if a["shape"][1:] != [rows, cols]:
            return "wrong_shape"
        if a["xr"]["wl"] is None:
            return "no_wavelength_coord"
    if bucket == "photon" and neg:
        return "negative"
    return "valid"


def state_class(a):
    if a is None:
        return "empty"
    return "3d" if a["xr"] is not None else "2d"


def to_violation(case, obs, step, clause_no) -> Violation:
    clause = CLAUSES.get(clause_no, f"clause{clause_no}")
    bucket, rows, cols = case["bucket"], case["rows"], case["cols"]
    o = case["ops"][step]
    before = obs[step - 1]["state"] if step > 0 else None
    res = obs[step]["out"]
    result = res["t"] if res["t"] != "bool" else str(res["v"])
    if o["op"] in ("eq", "eqrev"):
        # a signature of the comparison itself: which side is empty (eq and eqrev are the same function)
        ot = o["other"]
        relation = ("other_kind" if ot["kind"] != bucket else
                    "same_geometry" if (ot["rows"], ot["cols"]) == (rows, cols) else "other_geometry")
        me = "empty" if before is None else "initialised"
        it = "empty" if ot["content"] is None else "initialised"
        left, right = (me, it) if o["op"] == "eq" else (it, me)
        sig = dict(clause=clause, bucket=bucket, left=left, right=right, relation=relation, result=result)
    else:
        sig = dict(clause=clause, bucket=bucket, op=o["op"], state=state_class(before), result=result)
        operand = o.get("arr") if "arr" in o else (o["other"]["content"] if "other" in o else None)
        if "arr" in o or "other" in o:
            sig["operand"] = operand_class(bucket, rows, cols, operand)
            sig["negative"] = bool(operand) and any((isinstance(v, int) and v < 0) or v == "-inf" for v in operand["data"])
        if "other" in o:
            ot = o["other"]
            sig["source"] = ("other_kind" if ot["kind"] != bucket else
                             "same_geometry" if (ot["rows"], ot["cols"]) == (rows, cols) else "other_geometry")
    what = (f"{bucket} bucket of a {rows}x{cols} {case['det']} detector, step {step} ({o['op']}) of "
            f"{[x['op'] for x in case['ops'][:step + 1]]}: {clause} broken; state before={brief(before)}, "
            f"after={brief(obs[step]['state'])}, result={res.get('name', res.get('v', res['t']))}")
    return Violation(clause=clause, case=dict(case, ops=case["ops"][:step + 1], step=step),
                     observed=obs[step], expected=EXPECT[clause], what=what, sig=sig)


EXPECT = {
    "inv": "empty, or exactly rows x cols (plus a leading wavelength axis with coordinate for 3-D photons) of an allowed "
           "dtype (float16/32/64; unsigned for image), photon never negative",
    "failed_assign": "an operation that raises leaves the stored array untouched",
    "read_empty": "reading an empty container raises",
    "read_value": "a read returns the stored array and does not change it",
    "eq_spec": "a == b  <->  same kind, same geometry, both empty or equal arrays (and it does not raise)",
    "reset": "empty()/update(None)/detector.empty() leave no data behind (pixel: zeros)",
    "must_reject": "an assignment of an array that is no legal content (element type, ndarray/DataArray, shape, dims, "
                   "wavelength coordinate) raises, whatever the container holds at that moment",
    "assign_stores": "a completed assignment leaves the assigned array in the container (photons: negatives clipped); "
                     "a completed assignment of an EMPTY container leaves the bucket empty (no stale data)",
}


def brief(a):
    if a is None:
        return "empty"
    mn = [v for v in a["data"] if isinstance(v, int)]
    return (f"{'DataArray' if a['xr'] is not None else 'ndarray'}{tuple(a['shape'])}:{a['dt']}"
            f"{' min=' + str(min(mn)) if mn else ''}")


# ------------------------------------------------------------------------------------------ legs


def evaluate(ctx: Ctx, cases, tag: str, per: int = 150):
    """Run the implementation and let Coq compare/judge. Returns (pairs, mismatches, violations, unmodelled)."""
    obs = core.run_driver(ctx, "c13", cases, workers=8)
    pairs = []
    for c, o in zip(cases, obs):
        if "crash" in o or "driver_error" in o or "obs" not in o:
            ctx.broken.append(Broken("correspondence", "implementation driver failed", str(o)[:600], c))
            continue
        pairs.append((c, o["obs"]))
    files = {}
    for k in range(0, len(pairs), per):
        files[f"{tag}_{k // per:04d}"] = emit_file(pairs[k:k + per])
    res = core.coq_eval_many(ctx, files, timeout=900, par=8)
    mism, viol, unm = [], [], []
    for k, name in enumerate(sorted(files)):
        ok, evals, se = res[name]
        chunk = pairs[k * per:(k + 1) * per]
        if not ok or len(evals) != 3:
            ctx.broken.append(Broken("correspondence", f"case file {name}.v did not evaluate", core.tail(se, 15)))
            continue
        m = core.parse_int_list(evals[0])
        v = core.parse_int_list(evals[1])
        u = core.parse_int_list(evals[2])
        mism += [(chunk[m[i]], m[i + 1]) for i in range(0, len(m), 2)]
        viol += [(chunk[v[i]], v[i + 1], v[i + 2]) for i in range(0, len(v), 3)]
        unm += [chunk[i] for i in u]
    return pairs, mism, viol, unm


def shrink(ctx: Ctx, case, step, clause_no):
    """Smallest op list (greedy removal of earlier operations) whose LAST step still breaks the same clause."""
    cur = dict(case, ops=case["ops"][:step + 1])
    for _ in range(3):
        n = len(cur["ops"])
        if n <= 1:
            break
        cands = [dict(cur, ops=cur["ops"][:j] + cur["ops"][j + 1:]) for j in range(n - 1)]
        obs = core.run_driver(ctx, "c13", cands, workers=1)
        pairs = [(c, o["obs"]) for c, o in zip(cands, obs) if "obs" in o]
        if not pairs:
            break
        ok, evals, se = core.coq_eval(ctx, "shrink", emit_file(pairs))
        if not ok or len(evals) != 3:
            break
        v = core.parse_int_list(evals[1])
        good = [v[i] for i in range(0, len(v), 3) if v[i + 1] == len(pairs[v[i]][0]["ops"]) - 1 and v[i + 2] == clause_no]
        if not good:
            break
        cur = pairs[good[0]][0]
    return cur


def nontrivial(case, obs) -> bool:
    """A rejected operation followed by a read, or an operation on an empty container."""
    for i, o in enumerate(case["ops"]):
        before = obs[i - 1]["state"] if i > 0 else None
        if before is None and o["op"] not in ("empty", "dempty"):
            return True
        if obs[i]["out"]["t"] == "raise" and any(x["op"] in ("read", "read3d", "asarray") for x in case["ops"][i + 1:]):
            return True
    return False


def plain_operand(case, step) -> bool:
    o = case["ops"][step]
    if o["op"] in ("eq", "eqrev") and o["other"]["content"] is not None:
        ot = o["other"]
        return is_valid_for(ot["kind"], ot["rows"], ot["cols"], ot["content"])
    return True


def add_violations(ctx: Ctx, viol, do_shrink=True):
    """One Violation per distinct signature (shrunk); further cases with the same signature are only counted."""
    by_sig = {}
    for (case, obs), step, cl in viol:
        v = to_violation(case, obs, step, cl)
        key = json.dumps(v.sig, sort_keys=True)
        by_sig.setdefault(key, []).append((v, case, obs, step, cl))
    findings = core.load_findings(ctx.prop)
    n_shrunk = 0
    n_known = [0, 0]
    for key, lst in sorted(by_sig.items()):
        # the representative of a signature: prefer a case whose comparison / assignment operand is itself a legal
        # content (the plainest witness), then the shortest history
        v, case, obs, step, cl = min(lst, key=lambda t: (not plain_operand(t[1], t[3]), t[3]))
        known = any(core.finding_matches(e, v) for e in findings)
        if do_shrink and not known and n_shrunk < 6 and step > 0:
            n_shrunk += 1
            small = shrink(ctx, case, step, cl)
            if len(small["ops"]) < step + 1:
                o2 = core.run_driver(ctx, "c13", [small], workers=1)[0]
                if "obs" in o2:
                    v2 = to_violation(small, o2["obs"], len(small["ops"]) - 1, cl)
                    # never let the shrinker drift from a new violation into a case that is a KNOWN finding
                    if not any(core.finding_matches(e, v2) for e in findings):
                        v = v2
        v.what += f" [{len(lst)} case(s) with this signature]"
        if known:
            n_known[0] += 1
            n_known[1] += len(lst)
        else:
            ctx.log(f"NEW spec violation x{len(lst)}: {json.dumps(v.sig, sort_keys=True)}")
        ctx.violations.append(v)
    if n_known[0]:
        ctx.log(f"{n_known[0]} violation signature(s) / {n_known[1]} case step(s) match known findings")


def translate_leg(ctx: Ctx) -> dict:
    from translator import c13 as tr

    gen = {}
    try:
        from translator import c13_norm_test

        bad = c13_norm_test.run()          # the normalising front end still separates what it must separate
    except Exception as ex:  # noqa: BLE001
        bad = [f"self-test crashed: {type(ex).__name__}: {ex}"]
    if bad:
        ctx.broken.append(Broken("translation", "translator/c13_norm.py self-test", "\n".join(bad)[:1500]))
    try:
        gen["Gen_C13.v"] = tr.translate(ctx.repo)
    except core.TranslationError as ex:
        ctx.broken.append(Broken("translation", "container classes (pyxel/data_structure, detectors/detector.py)", str(ex)))
        ctx.log("translation failed:", ex)
        gen["Gen_C13.v"] = tr.FALLBACK
    return gen


def cross_check_type_lists(ctx: Ctx):
    from translator import c13 as tr

    try:
        info = tr.extract(ctx.repo)
    except core.TranslationError:
        return
    rt = core.run_driver(ctx, "c13", [{"introspect": True}], workers=1)[0]
    if "type_lists" not in rt:
        ctx.broken.append(Broken("translation", "runtime TYPE_LIST introspection failed", str(rt)[:400]))
        return
    for cls, names in info["type_lists"].items():
        if rt["type_lists"].get(cls) != names:
            ctx.broken.append(Broken("translation", f"TYPE_LIST of {cls}: AST {names} != runtime {rt['type_lists'].get(cls)}",
                                     "the class attribute is not what the source literal says"))


def run(ctx: Ctx):
    ctx.trusted += TRUSTED
    ctx.assumptions += [
        "operands are numpy.ndarray or xarray.DataArray objects (DataArrays are handed to the ArrayBase buckets as well); "
        "Python scalars/lists are not generated",
        "array values: small integers (all partial sums below 2048, exact in float16), NaN, +-inf; complex values have "
        "imaginary part 0",
        "xarray in-place addition is modelled only for DataArrays with dims (wavelength, y, x) and a wavelength "
        "coordinate; other combinations are compared up to that step only (counted as cases_hitting_unmodelled)",
        "aliasing between the stored array and the caller's array (ArrayBase stores without copying) is not modelled: "
        "the driver passes fresh arrays",
        "the equality clause is judged on NaN-free contents only (numpy and xarray disagree on NaN == NaN)",
        "an array is 'no legal content' (clause must_reject) by element type, ndarray/DataArray, shape, dims and wavelength "
        "coordinate only; negative photon values are clipped, not refused; clause assign_stores compares container type, "
        "dims/coordinate, shape and values of the stored array with the assigned one, not the element type",
        "element types outside the 15-type enumeration (datetime64, timedelta64, str) are used as operands of assignments "
        "only (the model calls them DOther: in no TYPE_LIST), never of an in-place addition on a filled container",
        "update() also receives nested Python lists (float64 / int64 / bool values); other Python scalars/lists are not generated",
    ]
    gen = translate_leg(ctx)
    core.proof_leg(ctx, gen, PROP_FILE)
    cross_check_type_lists(ctx)

    cases = load_corpus()
    n_corpus = len(cases)
    cases += exhaustive_cases(1)
    cases += gen_cases(ctx, ctx.budget(700, 4000), "valid", 0.8)
    cases += gen_cases(ctx, ctx.budget(350, 2000), "malformed", 0.3)
    cases += gen_eq_cases(ctx, ctx.budget(200, 1500))
    cases += gen_family_cases(ctx, ctx.budget(240, 1500))
    cases += gen_assign_cases(ctx, ctx.budget(150, 900), exhaustive_dtypes=not ctx.quick)
    if not ctx.quick:
        cases += exhaustive_cases(2)
        e3 = exhaustive3_cases()
        ctx.cov["exhaustive_note"] = (f"all sequences of length <= 2 over the one-op alphabet of every bucket and all {len(e3)} "
                                      "sequences of length 3 over a reduced alphabet (photon, pixel, image, phase)")
        cases += e3
        ea = exhaustive_assign_cases()
        ctx.cov["exhaustive_note"] += (f"; all {len(ea)} (bucket, stored element type, entry point, forbidden element type) "
                                       "assignments on a filled container")
        cases += ea
    pairs, mism, viol, unm = evaluate(ctx, cases, "c")
    account(ctx, pairs, mism, unm, n_corpus)
    add_violations(ctx, viol)
    (ctx.build / "mismatches.json").write_text(json.dumps(
        [dict(case=c, obs=o, step=s) for (c, o), s in mism[:50]], indent=1))
    for (c, o), s in mism[:20]:
        ctx.broken.append(Broken("correspondence", "Model/Containers.v vs implementation",
                                 f"model and implementation differ at step {s} ({c['ops'][s]['op']}) on the {c['bucket']} "
                                 f"bucket: implementation {json.dumps(o[s])[:300]}", dict(case=c, step=s)))
    if not ctx.quick and not ctx.broken:
        ok, out = core.coqchk(ctx, "PyxelGen.C13_prop")
        ctx.cov["coqchk"] = "ok: " + " ".join(out.split())[-160:] if ok else "FAILED"
        if not ok:
            ctx.broken.append(Broken("theorem", "coqchk of Properties/C13.v", core.tail(out, 20)))
    if ctx.broken and not new_violations(ctx):
        search(ctx)
    ctx.max_reported = 8
    order_violations(ctx)


def conditions(case, obs):
    """Labels of the property-relevant situations a case step exercises (measured into the evidence, so that
    constant or near-constant conditions of the generator show up)."""
    out = []
    bucket = case["bucket"]
    prev_raise = False
    for i, o in enumerate(case["ops"]):
        before = obs[i - 1]["state"] if i > 0 else None
        res = obs[i]["out"]
        st = state_class(before)
        k = o["op"]
        ok = res["t"] != "raise"
        tag = "ok" if ok else "raise:" + res["cls"]
        if k in ("iadd", "add"):
            a = o["arr"]
            form = ("xr" if a["xr"] is not None else "np")
            bc = "" if a["xr"] is not None or before is None or a["shape"] == before["shape"] else ":bcast"
            out.append(f"{'photon' if bucket == 'photon' else 'base'}.{k} on {st} {form}{bc} -> {tag}")
            if ok and before is not None and any((isinstance(v, int) and v < 0) or v == "-inf" for v in a["data"]):
                out.append(f"{'photon' if bucket == 'photon' else 'base'}.{k} negative operand accepted on initialised")
            if ok and before is not None and before["dt"] != a["dt"]:
                out.append(f"{k} mixed dtypes accepted")
        elif k in ("set", "set3d", "update"):
            out.append(f"{'photon' if bucket == 'photon' else 'base'}.{k} on {st} -> {tag}")
            if o.get("arr") is not None and before is not None:
                cls = operand_class(bucket, case["rows"], case["cols"], o["arr"])
                if cls not in ("valid", "negative"):
                    out.append(f"illegal assignment ({cls}) on a FILLED {'photon' if bucket == 'photon' else 'base'} container via {k}"
                               f"{'/' + o['via'] if o.get('via') else ''} -> {tag}")
                    if cls == "wrong_dtype":
                        out.append(f"wrong dtype {o['arr']['dt']} on filled {bucket}")
        elif k in ("eq", "eqrev"):
            ot = o["other"]
            rel = ("other_kind" if ot["kind"] != bucket else
                   "same_geom" if (ot["rows"], ot["cols"]) == (case["rows"], case["cols"]) else "other_geom")
            out.append(f"eq {st} vs {state_class(ot['content'])} {rel} -> {res.get('v', tag)}")
            oc = ot["content"]
            if (before is not None and oc is not None and before["xr"] is not None and oc["xr"] is not None
                    and before["data"] == oc["data"] and before["shape"] == oc["shape"] and before["xr"] != oc["xr"]):
                how = ("other dims order" if before["xr"]["dims"] != oc["xr"]["dims"] else
                       "no coordinate" if oc["xr"]["wl"] is None else "other wavelength grid")
                out.append(f"{k} 3d vs 3d same numbers, {how} -> {res.get('v', tag)}")
        elif k == "dassign":
            out.append(f"dassign {bucket if bucket == 'photon' else 'base'} on {st} from {state_class(o['other']['content'])} -> {tag}")
            if o["other"]["content"] is not None and before is not None:
                cls = operand_class(bucket, case["rows"], case["cols"], o["other"]["content"])
                if cls not in ("valid", "negative"):
                    out.append(f"illegal assignment ({cls}) on a FILLED {'photon' if bucket == 'photon' else 'base'} container via dassign -> {tag}")
                    if cls == "wrong_dtype":
                        out.append(f"wrong dtype {o['other']['content']['dt']} on filled {bucket}")
            if o["other"]["content"] is None and before is not None:
                nxt = case["ops"][i + 1]["op"] if i + 1 < len(case["ops"]) else "end"
                out.append(f"empty container assigned onto populated {bucket} ({st}) -> {tag}, then {nxt}")
        elif k == "dempty":
            out.append(f"dempty({o['reset']}) {bucket} {st}")
        elif k in ("read", "read3d", "asarray"):
            out.append(f"{k} {'photon' if bucket == 'photon' else 'base'} {st} -> {tag}")
            if prev_raise:
                out.append("read right after a rejected operation")
        elif k == "empty":
            out.append(f"empty {bucket if bucket in ('photon', 'pixel') else 'base'} {st}")
        prev_raise = (not ok) and k not in ("read", "read3d", "asarray", "eq", "eqrev")
    return out


def account(ctx: Ctx, pairs, mism, unm, n_corpus=0):
    seen = set()
    for c, o in pairs:
        ctx.count("evaluations", len(c["ops"]))
        ctx.count("sequences")
        ctx.dist("bucket", c["bucket"])
        ctx.dist("detector", c["det"])
        ctx.dist("length", len(c["ops"]))
        for op, ob in zip(c["ops"], o):
            ctx.dist("op", op["op"])
            ctx.dist("result", ob["out"]["t"] if ob["out"]["t"] != "raise" else "raise:" + ob["out"]["cls"])
            if "arr" in op and op["arr"] is not None:
                ctx.dist("operand_dtype", op["arr"]["dt"])
                ctx.dist("operand_class", operand_class(c["bucket"], c["rows"], c["cols"], op["arr"]))
                ctx.dist("operand_values", value_class(op["arr"]))
        for lab in conditions(c, o):
            ctx.dist("condition", lab)
        if nontrivial(c, o):
            seen.add(json.dumps(c, sort_keys=True))
    ctx.cov["distinct_nontrivial"] = ctx.cov.get("distinct_nontrivial", 0) + len(seen)
    ctx.cov["rule"] = ("operation sequences (1-12 ops) on one bucket of a real CCD/CMOS/MKID/APD detector; non-trivial = "
                       "contains an operation applied to an empty container (other than a reset) or a rejected operation "
                       "followed by a read; distinct = distinct (detector, geometry, bucket, op list)")
    ctx.cov["traces_validated_against_impl"] = ctx.cov.get("traces_validated_against_impl", 0) + len(pairs)
    ctx.cov["disagreements_checked"] = ctx.cov.get("disagreements_checked", 0) + len(mism)
    ctx.cov["cases_hitting_unmodelled"] = ctx.cov.get("cases_hitting_unmodelled", 0) + len(unm)
    ctx.cov["corpus_cases"] = n_corpus
    for c, o in pairs[n_corpus:n_corpus + 400:100]:
        ctx.sample(dict(det=c["det"], bucket=c["bucket"], geometry=[c["rows"], c["cols"]],
                        ops=[x["op"] for x in c["ops"]],
                        results=[ob["out"].get("name", ob["out"]["t"]) for ob in o]))


def defect_class(v: Violation):
    """Coarse class of a violation: which operation / which side of a comparison breaks which clause."""
    g = v.sig
    if "left" in g:
        return (g.get("clause"), g.get("left"), g.get("right"), g.get("relation"), g.get("result"),
                "photon" if g.get("bucket") == "photon" else "arraybase")
    return (g.get("clause"), g.get("op") if g.get("op") != "add" else "iadd",
            "empty" if g.get("state") == "empty" else "initialised", "photon" if g.get("bucket") == "photon" else "arraybase")


def order_violations(ctx: Ctx):
    """One violation of every defect class first (so that the few VIOLATION lines of a run name different defects)."""
    first, rest, seen = [], [], set()
    for v in ctx.violations:
        k = defect_class(v)
        (rest if k in seen else first).append(v)
        seen.add(k)
    ctx.violations[:] = first + rest


def new_violations(ctx: Ctx):
    fs = core.load_findings(ctx.prop)
    return [v for v in ctx.violations if not any(core.finding_matches(e, v) for e in fs)]


def search(ctx: Ctx):
    """A proof obligation or the correspondence broke: look harder for a concrete failing input."""
    ctx.log("searching for a concrete failing input (all pairs of the op alphabet, larger random budget)")
    cases = exhaustive_cases(2) + exhaustive_assign_cases() + gen_cases(ctx, 1500, "search", 0.5) + gen_eq_cases(ctx, 600, "search_eq") + gen_family_cases(ctx, 600, "search_fam") + gen_assign_cases(ctx, 500, "search_assign", True)
    for b in ctx.broken:
        if isinstance(b.case, dict) and "case" in b.case:
            cases.append(b.case["case"])
    pairs, mism, viol, unm = evaluate(ctx, cases, "s")
    ctx.cov["search_sequences"] = len(pairs)
    add_violations(ctx, viol)


def replay(ctx: Ctx, rp: dict) -> int:
    case = rp.get("case")
    if rp.get("kind") != "input" or not case:
        print(f"replay names a {rp.get('kind')} that no longer checks: {rp.get('no_longer_checks')}")
        print(rp.get("detail", ""))
        return 1
    case = {k: case[k] for k in ("det", "rows", "cols", "bucket", "ops")}
    o = core.run_driver(ctx, "c13", [case], workers=1)[0]
    print("case:", json.dumps(case)[:2000])
    print("implementation now shows:", json.dumps(o)[:2000])
    if "obs" not in o:
        return 1
    gen = translate_leg(ctx)
    gd = ctx.build / "gen"
    gd.mkdir(parents=True, exist_ok=True)
    (gd / "Gen_C13.v").write_text(gen["Gen_C13.v"])
    core.ensure_lib(ctx, targets=["theories/Model/Containers.vo"])
    core.coqc(ctx, gd / "Gen_C13.v", [(gd, "PyxelGen")])
    ok, evals, se = core.coq_eval(ctx, "replay", emit_file([(case, o["obs"])]))
    if not ok:
        print("the case file did not evaluate:", core.tail(se, 10))
        return 1
    v = core.parse_int_list(evals[1])
    trip = [(v[i + 1], CLAUSES.get(v[i + 2])) for i in range(0, len(v), 3)]
    print("specification (evaluated in Coq):", f"VIOLATED at (step, clause) {trip}" if trip else "holds")
    return 1 if trip else 0


META = dict(
    level_text=(
        "Coq theorems over an executable model of the five container classes and the detector's bucket setters, "
        "parametrised by tables regenerated from the source on every run (TYPE_LISTs, the guard sequences of the three "
        "validating functions, what each Detector setter does, the shape of Photon.__iadd__/__add__, of "
        "ArrayBase.__iadd__/__add__/__eq__ and of Photon.__eq__) and by numpy's in-place casting table: for ALL "
        "operation sequences (induction over the op list; set, set3d, update, +=, +, empty, reads incl. __array__, ==, "
        "detector assignment, detector.empty) on ALL five buckets, from every state satisfying the invariant whose stored "
        "array its own setter accepts (in particular from a fresh detector), every intermediate and the final state "
        "satisfy the invariant; a failed operation leaves the state untouched; reading an empty container raises; "
        "== returns exactly the equality specification, is symmetric and never raises, for all pairs of containers "
        "satisfying the invariant (NaN-free contents; the wavelength coordinate of 3-D photons is part of the array); "
        "an assignment (setter, update, += / + on an empty container, detector setter) of an array that is no legal "
        "content raises and changes nothing in EVERY state of the container (fresh, emptied or filled), and a completed "
        "assignment leaves exactly the assigned array (photons clipped) / nothing for an empty source container; the "
        "eight-clause judge applied to the implementation's observations is proved to accept the model's own behaviour on "
        "every sequence (C13_judge_accepts_model). No operation is excluded and no statement is refuted any more "
        "(C13-F2a/b/c/d, C13-F3a/b/c repaired in the code; the translator maps the old shapes to tables that fail "
        "C13_source_tables_ok). The model is tied to the code by running generated operation sequences on buckets of "
        "real detectors of all four types and comparing, inside Coq and after every operation, the stored array "
        "(shape, dtype, every element), .shape, .dtype, the returned value and the exception class with the model; the "
        "implementation's states are additionally judged inside Coq against the property's specification. That part "
        "is testing, not proof."),
    level_note=(
        "Trusted: Coq kernel + vm_compute; translator/c13.py; the correspondence harness and driver; numpy/xarray "
        "arithmetic, broadcasting, clipping and comparison semantics as modelled (elements are integers exact in the "
        "dtype, NaN, +-inf); operands are ndarrays/DataArrays; xarray in-place addition modelled for (wavelength, y, x) "
        "DataArrays with coordinates only; aliasing of stored arrays not modelled."),
    technique="Coq invariant proof over op sequences + regenerated tables + in-Coq correspondence/spec evaluation",
    design_ref="DESIGN.md section 6, C13",
)
