"""C06 — parameter runs are isolated from each other and from the caller's objects."""
from __future__ import annotations

import copy
import json

from .. import core
from ..core import Broken, Ctx, Violation

PROP_FILE = "Properties/C06.v"

TRUSTED = [
    "translator/c06.py (Processor.__deepcopy__ / ModelGroup.__deepcopy__ field modes, copy-before-set shape of "
    "create_new_processor, Processor.replace, update_processor, build_processors, ModelFittingDataTree.__init__, "
    "which processor the run sites hand to run_pipeline, absence of other custom copy hooks; for the copy sites and the "
    "two observation run sites whether anything derived from the caller's processor is written to (taint analysis over "
    "attribute/item stores, del, setattr, mutating method calls, run_pipeline on the caller's object) and whether every "
    "value handed to .set is deep-copied by the site; which pipeline_seed reaches run_pipeline from every run site "
    "(observation loop, the dask chain down to apply_ufunc's kwargs, fitness, _apply_parameters <- Calibration) and whether a "
    "`with set_random_seed` surrounds the loop over the runs -> src_seeding; what ModelGroup.__getstate__ / __setstate__ hand "
    "over and restore -> src_pickle_policy; fails closed)",
    "correspondence harness: harness/props/c06.py generators, harness/drivers/c06.py (canonical numbering of real "
    "object graphs, value snapshots, standalone oracle built from the JSON spec without Processor.set)",
    "modelled, not verified: CPython copy.deepcopy of plain objects = relocation of the reachable sub-graph (checked "
    "on every generated graph: Coq compares the block it computes with the block CPython produced); user model "
    "functions change only what they reach from the processor they are given and do not depend on addresses "
    "(Section hypotheses run_frame / run_local); numpy's global generator is modelled as a value threaded through the runs "
    "(Model/HeapRng.v: `with set_random_seed` = start from seed_gen(seed), put the previous state back; that "
    "exposure.run_pipeline brackets its whole body with the seed it is given is not translated - it is the same function on "
    "both sides of every comparison, the standalone exposure included; threads sharing the generator: open finding of C07); "
    "other module-level state (lru_cache, probe TRACE, generators other than numpy's global one) is outside the store "
    "(C04/C20)",
]

CLS = {"Processor": "CProcessor", "Group": "CGroup", "Model": "CModel", "Args": "CArgs", "Pipeline": "CPipeline",
       "Detector": "CDetector", "Observation": "CObservation", "Readout": "CReadout", "List": "CList",
       "Dict": "CDict", "Array": "CArray", "Leaf": "CLeaf", "Obj": "CObj"}

SITE_ROW = {"deepcopy": None, "pickle": None, "replace": "Processor.replace", "create_new_processor": "create_new_processor",
            "update_processor": "update_processor", "build_processors": "build_processors",
            "fitting_init": "ModelFittingDataTree.__init__"}

G = "charge_collection"
K = "pipeline.charge_collection."


# ------------------------------------------------------------------------------------------ generators

def pipelines():
    """name -> (pipeline spec, sweepable scalar keys, list key or None, has_fail)"""
    a2p = dict(func="verif_probes.args_to_pixel", name="a2p", arguments=dict(a=1.0, b=2.0, items=[1, 2]))
    st = dict(func="verif_probes.stateful", name="st", arguments=dict(inc=1.0))
    mut = dict(func="verif_probes.mutates_args", name="mut", arguments=dict(items=[1, 2, 3], scalar=0))
    fl = dict(func="verif_probes.fail", name="fl", arguments=dict(when_arg=5.0, arg=0.0))
    wr = dict(func="verif_probes.write", name="wr", arguments=dict(bucket="photon", value=4.0))
    mem = dict(func="verif_probes_c06.memory", name="mem", arguments=dict(key="trap", inc=1.0))
    return {
        "a2p_st": ({G: [a2p, st]}, [K + "a2p.arguments.a", K + "a2p.arguments.b", K + "st.arguments.inc"], None, False),
        "mut_st": ({G: [mut, st]}, [K + "mut.arguments.scalar", K + "st.arguments.inc"], K + "mut.arguments.items", False),
        "st_mut": ({G: [st, mut]}, [K + "mut.arguments.scalar", K + "st.arguments.inc"], None, False),
        "mut_fl_st": ({G: [mut, fl, st]}, [K + "mut.arguments.scalar", K + "fl.arguments.arg"], None, True),
        "mem_mut": ({G: [mut, mem]}, [K + "mem.arguments.inc", K + "mut.arguments.scalar"], None, False),
        "st_mem_fl": ({G: [st, mem, fl]}, [K + "mem.arguments.inc", K + "st.arguments.inc", K + "fl.arguments.arg"],
                      None, True),
        "two_groups": ({"photon_collection": [wr], G: [mut, st], "charge_measurement": [
            dict(func="verif_probes.stateful", name="st2", arguments=dict(key="_verif_memory2", inc=2.0))]},
            [K + "mut.arguments.scalar", K + "st.arguments.inc", "pipeline.charge_measurement.st2.arguments.inc"],
            None, False),
    }


DYADIC = [0.5, 1.0, 1.5, 2.0, 2.5, 3.0, 4.0, 6.0, 7.0, 8.0, 0.25, 12.0]


def gen_spec(r, pname=None):
    P = pipelines()
    pname = pname or r.choice(sorted(P))
    pipe, keys, lkey, has_fail = P[pname]
    spec = dict(det=dict(kind=r.choice(["ccd", "ccd", "cmos"]), rows=r.choice([1, 2]), cols=r.choice([2, 3])),
                pipeline=copy.deepcopy(pipe),
                readout=dict(times=r.choice([[1.0], [1.0, 2.0], [0.5, 1.0, 3.0]]),
                             non_destructive=r.random() < 0.3),
                memory=r.choice([None, 3.0, 0.5, 3.0]))
    # the caller's objects have a HISTORY: entries in the detector's own memory dict, trapped charge in a persistence
    # object, earlier plain exposures on these very objects (buckets hold arrays, memory and list arguments moved on)
    if r.random() < 0.6 or "mem" in pname:
        spec["real_memory"] = r.choice([{"trap": 4.0}, {"trap": 0.5}, {"trap": 2.0, "other": 1.0}])
    if r.random() < 0.4 or ("mem" in pname and r.random() < 0.6):
        spec["persistence"] = r.choice([2.0, 0.25, 8.0])
    spec["pre_exposure"] = r.choice([0, 0, 1, 1, 2])
    if r.random() < 0.4:
        # a DISABLED model with a mutable argument: never run, but part of the user's pipeline (its settings must be
        # copied, not shared: a later run or the user may enable it)
        spec["pipeline"][G].append(dict(func="verif_probes.record", name="off", enabled=False,
                                        arguments=dict(tag="off", extra=[1, 2])))
    return pname, spec, keys, lkey, has_fail


REJECTED = {"detector.characteristics.quantum_efficiency": ([0.5, 0.25, 0.75, 1.0], [1.5, -0.5]),
            "detector.environment.temperature": ([100.0, 250.0, 300.0], [-5.0, 0.0, 2000.0]),
            "detector.characteristics.pre_amplification": ([2.0, 4.0, 0.5], [-1.0, 20000.0])}


def values_for(r, key, n, has_fail_key=False, with_fail=False):
    vals = r.sample([v for v in DYADIC if v != 5.0], n)
    if key.endswith("fl.arguments.arg") and with_fail and n >= 2:
        vals[r.randrange(1, n)] = 5.0  # the failing run is not the first one
    return vals


def gen_observe(r, k):
    pname, spec, keys, lkey, has_fail = gen_spec(r, sorted(pipelines())[k % len(pipelines())])
    calls = []
    ncalls = r.choice([1, 2, 2, 3])
    if has_fail:
        ncalls = max(ncalls, 2)
    fail_call = r.randrange(0, ncalls - 1) if has_fail else -1   # a failing run in the middle, good calls after it
    for c in range(ncalls):
        mode = r.choice(["product", "product", "sequential", "product", "sequential", "custom"])
        with_fail = c == fail_call
        dask = r.random() < 0.35 and not with_fail
        nk = 1 if (mode == "sequential" and dask) else r.choice([1, 2, 2])   # F12 (C05/C07): dask zips sequential sweeps
        ks = r.sample(keys, min(nk, len(keys)))
        if with_fail and K + "fl.arguments.arg" not in ks:
            ks[0] = K + "fl.arguments.arg"
        single = mode == "sequential" and dask
        dkey = None
        if r.random() < 0.4:
            dkey = r.choice(sorted(REJECTED))
            if single:
                ks = [dkey]
            elif len(ks) < 2:
                ks.append(dkey)
            else:
                ks[-1] = dkey
            if with_fail and K + "fl.arguments.arg" not in ks:
                ks[0] = K + "fl.arguments.arg"
        # a run whose parameter value is REJECTED by a setter (the copy site itself raises), at any position
        reject = dkey is not None and dkey in ks and not with_fail and r.random() < 0.45
        params = []
        for key in ks:
            if key.startswith("detector."):
                good, bad = REJECTED[key]
                vals = r.sample(good, 2)
                if reject:
                    vals.insert(r.choice([0, 1, 2]), r.choice(bad))
                params.append(dict(key=key, values=vals))
            else:
                params.append(dict(key=key, values=values_for(r, key, r.choice([2, 3]), with_fail=with_fail)))
        if not with_fail and not reject and not single and r.random() < 0.06:
            params.append(dict(key=K + "nomodel.arguments.x", values=[1.0, 2.0]))      # unknown key: refused up front
        if mode == "custom":
            # the rows of the file are the runs: one value per parameter and row
            n = min(len(q["values"]) for q in params)
            for q in params:
                q["values"] = q["values"][:n]
        calls.append(dict(parameters=params, mode=mode, with_dask=dask, reject=reject,
                          scheduler=r.choice(["synchronous", "threads"]) if dask else None))
    # run orders / subsets: repeat the first call with its values reversed or thinned
    if r.random() < 0.5 and calls:
        c0 = copy.deepcopy(calls[0])
        for q in c0["parameters"]:
            q["values"] = list(reversed(q["values"]))[: r.choice([1, 2, 3])]
        calls.append(c0)
    return dict(kind="observe", pipe=pname, spec=spec, calls=calls)


def gen_observe_array(r, k):
    """A model that modifies its numpy-array argument in place; the array-valued key is swept too."""
    ma = dict(func="verif_probes_c06.mutates_array", name="ma", arguments=dict(arr=[1.0, 2.0], scalar=0.0))
    st = dict(func="verif_probes.stateful", name="st", arguments=dict(inc=1.0))
    spec = dict(det=dict(kind="ccd", rows=1, cols=2), pipeline={G: [ma, st]},
                readout=dict(times=[1.0], non_destructive=False), memory=r.choice([None, 3.0]),
                ndarray_args=[G + ".ma.arr"])
    scal = dict(key=K + "ma.arguments.scalar", values=r.sample([1.0, 2.0, 4.0, 8.0], 3))
    arrp = dict(key=K + "ma.arguments.arr", values=[[1.0, 2.0]])
    variant = k % 3
    if variant == 0:     # the other parameter's runs receive the caller's array as the default of the swept key
        calls = [dict(parameters=[scal, arrp], mode="sequential", with_dask=False)]
        cls = "ndarray_default_sequential_sweep"
    elif variant == 1:
        calls = [dict(parameters=[scal], mode="sequential", with_dask=False),
                 dict(parameters=[scal], mode="product", with_dask=r.random() < 0.5)]
        cls = "plain"
    else:
        calls = [dict(parameters=[scal, arrp], mode="product", with_dask=False)]
        cls = "plain"
    return dict(kind="observe", pipe="arr_st", spec=spec, calls=calls, input_class=cls)


CONTAINERS = {
    # kind -> (default value of `seq` as JSON, spec conversions, values swept for the key)
    "list": ([1.0, 2.0], {}, [[1.0, 2.0]]),
    "list2": ([4.0, 0.5, 2.0], {}, [[4.0, 0.5, 2.0], [1.0, 1.0, 8.0]]),
    "nested": ([[1.0, 2.0], [3.0, 4.0]], {}, [[[1.0, 2.0], [3.0, 4.0]]]),
    "tuple_of_lists": ([[1.0, 2.0], [3.0, 4.0]], {"tuple_args": [G + ".co.seq"]}, [[[1.0, 2.0], [3.0, 4.0]]]),
    "ndarray": ([1.0, 2.0], {"ndarray_args": [G + ".co.seq"]}, [[1.0, 2.0]]),
}
CONTAINER_CLASS = {"list": "list", "list2": "list", "nested": "nested", "tuple_of_lists": "tuple_of_lists",
                   "ndarray": "ndarray"}


def gen_observe_container(r, k):
    """A model that modifies its CONTAINER argument in place (plain list, nested lists, lists in a tuple, ndarray; a
    dict argument that is never swept rides along).  The container-valued key is swept next to a scalar key, so that
    in sequential mode the runs of the scalar key receive the caller's current container as the key's default."""
    kind = sorted(CONTAINERS)[k % len(CONTAINERS)]
    default, conv, swept = CONTAINERS[kind]
    co = dict(func="verif_probes_c06.mutates_container", name="co",
              arguments=dict(seq=copy.deepcopy(default), table={"a": 1.0, "b": [2.0, 0.5]}, scalar=0.0))
    st = dict(func="verif_probes.stateful", name="st", arguments=dict(inc=1.0))
    spec = dict(det=dict(kind="ccd", rows=1, cols=2), pipeline={G: [co, st]},
                readout=dict(times=[1.0], non_destructive=False), memory=r.choice([None, 3.0]),
                pre_exposure=r.choice([0, 0, 1]), **copy.deepcopy(conv))
    scal = dict(key=K + "co.arguments.scalar", values=r.sample([1.0, 2.0, 4.0, 8.0], r.choice([2, 3])))
    seqp = dict(key=K + "co.arguments.seq", values=copy.deepcopy(swept))
    variant = (k // len(CONTAINERS)) % 4
    cls = "plain"
    if variant in (0, 1):    # the scalar key's runs receive the caller's container as default; either key order
        ps = [scal, seqp] if variant == 0 else [seqp, scal]
        calls = [dict(parameters=ps, mode="sequential", with_dask=False)]
        if r.random() < 0.5:
            calls.append(dict(parameters=[scal], mode="product", with_dask=r.random() < 0.5))
        cls = "container_default_sequential_sweep"
    elif variant == 2:
        calls = [dict(parameters=[scal], mode="sequential", with_dask=r.random() < 0.5),
                 dict(parameters=[scal, seqp], mode="product", with_dask=r.random() < 0.5)]
    else:
        calls = [dict(parameters=[seqp], mode="sequential", with_dask=False),
                 dict(parameters=[scal], mode="product", with_dask=True)]
    return dict(kind="observe", pipe="co_st", spec=spec, calls=calls, input_class=cls,
                container=CONTAINER_CLASS[kind])


def gen_sitefail(r, k):
    """A copy site is asked to apply a value that a setter rejects, on caller objects that have a history."""
    sites = ["create_new_processor", "replace", "build_processors", "update_processor"]
    site = sites[k % len(sites)]
    pname, spec, keys, lkey, has_fail = gen_spec(r)
    spec["pre_exposure"] = r.choice([1, 1, 2, 0])
    if site == "update_processor":
        spec["readout"] = dict(times=[1.0], non_destructive=False)
    dkey = r.choice(sorted(REJECTED))
    good, bad = REJECTED[dkey]
    items = [(key, r.choice(DYADIC)) for key in r.sample(keys, min(len(keys), r.choice([0, 1, 2])))]
    items.insert(r.randrange(len(items) + 1), (dkey, r.choice(bad) if r.random() < 0.8 else r.choice(good)))
    return dict(kind="sitefail", pipe=pname, spec=spec, site=site, params=dict(items),
                with_obs=site in ("replace", "create_new_processor") and r.random() < 0.5)


def gen_graph(r, k):
    sites = ["deepcopy", "replace", "create_new_processor", "update_processor", "build_processors", "fitting_init",
             "pickle"]
    site = sites[k % len(sites)]
    pname, spec, keys, lkey, has_fail = gen_spec(r)
    if site in ("update_processor", "fitting_init"):
        spec["readout"] = dict(times=[1.0], non_destructive=False)
    if r.random() < 0.2:
        spec["det"]["kind"] = r.choice(["apd", "mkid"])
    nk = r.choice([0, 1, 2]) if site in ("deepcopy", "fitting_init", "pickle") else r.choice([1, 2])
    params = {key: r.choice(DYADIC) for key in r.sample(keys, min(nk, len(keys)))}
    if lkey and site in ("replace", "create_new_processor", "build_processors") and r.random() < 0.5:
        params[lkey] = [7, 8, 9]
    with_obs = site in ("replace", "create_new_processor", "deepcopy", "pickle") and r.random() < 0.6
    # a list-valued parameter replaces a list of the same length (same graph shape): no run before it,
    # because mutates_args would have grown the caller's list
    pre_run = r.random() < 0.5 and not (lkey and lkey in params)
    if lkey and lkey in params:
        spec["pre_exposure"] = 0
    return dict(kind="graph", pipe=pname, spec=spec, site=site, params=params, with_obs=with_obs,
                pre_run=pre_run)


def gen_fitness(r, k):
    pname, spec, keys, lkey, has_fail = gen_spec(r, ["a2p_st", "mut_st", "mut_fl_st", "two_groups", "mem_mut",
                                                     "st_mem_fl"][k % 6])
    spec["readout"] = dict(times=[1.0], non_destructive=False)
    ks = r.sample(keys, min(r.choice([1, 2]), len(keys)))
    if has_fail and K + "fl.arguments.arg" not in ks:
        ks[-1] = K + "fl.arguments.arg"
    nv = r.choice([3, 4, 5])
    vecs = [[r.choice([v for v in DYADIC if v != 5.0]) for _ in ks] for _ in range(nv)]
    if has_fail:
        vecs[1][ks.index(K + "fl.arguments.arg")] = 5.0   # a failing candidate in the middle
    elif r.random() < 0.4:
        # a candidate whose value a detector setter REJECTS (update_processor itself raises), in the middle
        dkey = r.choice(sorted(REJECTED))
        good, bad = REJECTED[dkey]
        ks.append(dkey)
        for v in vecs:
            v.append(r.choice(good))
        vecs[r.randrange(1, len(vecs))][-1] = r.choice(bad)
    vecs.append(list(vecs[0]))                             # the first candidate again, after the others
    j = r.randrange(len(vecs))
    vecs.insert(j, list(vecs[j]))                          # the same candidate twice in a row
    return dict(kind="fitness", pipe=pname, spec=spec, variables=[dict(key=key, lo=0, hi=1000) for key in ks],
                vectors=vecs, target=r.choice([0.0, 10.0, 2.5]))


def gen_calibration(r, k):
    """A real calibration: pygmo archipelago of 1-3 islands whose candidates are evaluated concurrently (DaskIsland /
    DaskBFE threads), on caller objects that have a history; optionally several processors per candidate."""
    pname, spec, keys, lkey, has_fail = gen_spec(r, ["mem_mut", "mut_st", "two_groups", "a2p_st"][k % 4])
    spec["readout"] = dict(times=r.choice([[1.0], [1.0, 2.0]]), non_destructive=r.random() < 0.3)
    spec["det"]["kind"] = "ccd"
    if not spec.get("real_memory"):
        spec["real_memory"] = {"trap": 4.0}
    ks = r.sample(keys, min(r.choice([1, 2]), len(keys)))
    variables = [dict(key=key, lo=0.5, hi=r.choice([8.0, 16.0])) for key in ks]
    inputs = []
    rest = [key for key in keys if key not in ks]
    if rest and r.random() < 0.4:
        inputs = [dict(key=rest[0], values=r.sample([1.0, 2.0, 4.0], 2))]
    return dict(kind="calibration", pipe=pname, spec=spec, variables=variables, input_arguments=inputs,
                islands=[2, 3, 1, 2][k % 4], generations=r.choice([1, 2]), pop=7, evolutions=r.choice([1, 2]),
                num_best=r.choice([0, 2]), pygmo_seed=r.randrange(1, 1000), target=r.choice([0.0, 20.0]))


def gen_fitness_multi(r, k):
    """Several processors per candidate (input_arguments -> build_processors), optionally a list-valued variable
    (a slice of the decision vector) handed to a model that modifies its argument in place."""
    ma = dict(func="verif_probes_c06.mutates_array", name="ma", arguments=dict(arr=[1.0, 2.0], scalar=0.0))
    st = dict(func="verif_probes.stateful", name="st", arguments=dict(inc=1.0))
    spec = dict(det=dict(kind="ccd", rows=1, cols=2), pipeline={G: [ma, st]},
                readout=dict(times=[1.0], non_destructive=False), memory=r.choice([None, 3.0]),
                pre_exposure=r.choice([0, 0, 1]))
    if r.random() < 0.5:
        spec["ndarray_args"] = [G + ".ma.arr"]
    variant = k % 3
    nproc = r.choice([2, 3])
    in_key = r.choice([K + "ma.arguments.scalar", K + "st.arguments.inc"])
    inputs = [dict(key=in_key, values=r.sample([1.0, 2.0, 4.0, 0.5], nproc))]
    cls = "plain"
    if variant == 0:      # list-valued variable + several processors: every processor gets the same slice
        variables = [dict(key=K + "ma.arguments.arr", lo=0, hi=1000, n=2)]
        cls = "array_variable_multi_processor"
    elif variant == 1:    # list-valued variable, one processor
        variables = [dict(key=K + "ma.arguments.arr", lo=0, hi=1000, n=2)]
        inputs = []
    else:                 # scalar variables, several processors
        other = K + "st.arguments.inc" if in_key.endswith("scalar") else K + "ma.arguments.scalar"
        variables = [dict(key=other, lo=0, hi=1000)]
    width = sum(v.get("n") or 1 for v in variables)
    vecs = [[r.choice([v for v in DYADIC if v != 5.0]) for _ in range(width)] for _ in range(r.choice([2, 3]))]
    vecs.append(list(vecs[0]))
    return dict(kind="fitness", pipe="ma_st", spec=spec, variables=variables, input_arguments=inputs, vectors=vecs,
                target=r.choice([0.0, 2.5]), input_class=cls)


# ---- seeded stochastic pipelines: every run starts from the generator state seed_gen(pipeline_seed)

PC = "pipeline.photon_collection."


def seeded_pipelines():
    """name -> (pipeline spec, sweepable keys with their value pools).  Every pipeline contains a STOCHASTIC model that has
    no seed of its own (it draws from numpy's global generator, which `pipeline_seed` seeds): the probe `draws` (the number
    of draws is itself a swept parameter: runs leave the stream at different positions) or pyxel's own shot_noise."""
    a2p = dict(func="verif_probes.args_to_pixel", name="a2p", arguments=dict(a=1.0, b=2.0))
    st = dict(func="verif_probes.stateful", name="st", arguments=dict(inc=1.0))
    dr = dict(func="verif_probes_c06.draws", name="dr", arguments=dict(n=2, hi=4096))
    mem = dict(func="verif_probes_c06.memory", name="mem", arguments=dict(key="trap", inc=1.0))
    wr = dict(func="verif_probes.write", name="wr", arguments=dict(bucket="photon", value=64.0))
    sn = dict(func="pyxel.models.photon_collection.shot_noise", name="shot_noise", arguments=dict(type="poisson"))
    p2p = dict(func="verif_probes_c06.photon_to_pixel", name="p2p", arguments={})
    nvals = [1, 2, 3, 5]
    return {
        "draw_st": ({G: [a2p, dr, st]}, {K + "a2p.arguments.a": DYADIC, K + "dr.arguments.n": nvals,
                                         K + "st.arguments.inc": DYADIC}),
        "draw_mem": ({G: [dr, mem]}, {K + "mem.arguments.inc": DYADIC, K + "dr.arguments.n": nvals}),
        "shot": ({"photon_collection": [wr, sn], G: [p2p, st]},
                 {PC + "wr.arguments.value": [16.0, 64.0, 100.0, 256.0, 1000.0], K + "st.arguments.inc": DYADIC}),
        "shot_draw": ({"photon_collection": [wr, sn], G: [p2p, dr]},
                      {PC + "wr.arguments.value": [16.0, 64.0, 100.0, 256.0], K + "dr.arguments.n": nvals}),
    }


def gen_seeded_spec(r, pname):
    pipe, pools = seeded_pipelines()[pname]
    spec = dict(det=dict(kind=r.choice(["ccd", "cmos"]), rows=r.choice([1, 2]), cols=r.choice([2, 3])),
                pipeline=copy.deepcopy(pipe),
                readout=dict(times=r.choice([[1.0], [1.0, 2.0]]), non_destructive=r.random() < 0.3),
                memory=r.choice([None, 3.0]), pre_exposure=r.choice([0, 1, 2]), pre_seed=r.randrange(1, 500))
    if "mem" in pname or r.random() < 0.4:
        spec["real_memory"] = r.choice([{"trap": 4.0}, {"trap": 0.5}])
    return spec, pools


def gen_observe_seeded(r, k):
    """An observation with a pipeline_seed and a stochastic model that has no seed of its own: every run - whatever its
    position, whatever the other runs and their order - must equal the standalone exposure with that pipeline_seed.
    All three modes, the loop and dask with the synchronous scheduler (threads: open finding of C07).  The calls of one
    case sweep the same values in the given order, reversed, and thinned (run k of one call is run 0 of another)."""
    names = sorted(seeded_pipelines())
    pname = names[k % len(names)]
    spec, pools = gen_seeded_spec(r, pname)
    mode = ["product", "sequential", "custom"][(k // len(names)) % 3]
    dask = r.random() < 0.5
    keys = sorted(pools)
    nk = r.choice([1, 2])
    ks = r.sample(keys, min(nk, len(keys)))
    if mode == "custom":
        n = r.choice([3, 4])
        params = [dict(key=key, values=[r.choice(pools[key]) for _ in range(n)]) for key in ks]
    else:
        params = [dict(key=key, values=r.sample(pools[key], r.choice([2, 3]))) for key in ks]
    seed = r.randrange(0, 100000)
    base = dict(parameters=params, mode=mode, with_dask=dask, scheduler="synchronous" if dask else None,
                pipeline_seed=seed, ambient=r.randrange(1, 100000))
    calls = [base]
    rev = copy.deepcopy(base)
    for q in rev["parameters"]:
        q["values"] = list(reversed(q["values"]))
    rev["ambient"] = r.randrange(1, 100000)
    rev["with_dask"] = not dask                    # every case takes both paths: the loop and dask (synchronous)
    rev["scheduler"] = "synchronous" if rev["with_dask"] else None
    calls.append(rev)
    thin = copy.deepcopy(base)
    if mode == "custom":
        cut = r.choice([1, 2])
        for q in thin["parameters"]:
            q["values"] = q["values"][cut:]
    else:
        for q in thin["parameters"]:
            q["values"] = q["values"][r.choice([1, len(q["values"]) - 1]):]
    thin["ambient"] = r.randrange(1, 100000)
    if r.random() < 0.5:
        thin["pipeline_seed"] = r.randrange(0, 100000)      # another seed on the same caller objects
    calls.append(thin)
    if r.random() < 0.6:
        # the very same Observation object is run once more (same parameters, another ambient generator state)
        again = copy.deepcopy(calls[-1])
        again["ambient"] = r.randrange(1, 100000)
        again["same_mode_object"] = True
        calls.append(again)
    return dict(kind="observe", pipe=pname, spec=spec, calls=calls, input_class="seeded_stochastic")


def gen_observe_processes(r, k):
    """The dask path with the multi-PROCESS scheduler: every run receives its processor through pickle (the custom
    __getstate__ / __setstate__ of ModelGroup, the default protocol for everything else) before Processor.replace copies it.
    Caller objects with a history; deterministic pipelines (and, every other case, a seeded stochastic one: each worker
    process has its own generator and every run is seeded); followed by a loop call on the same caller objects."""
    if k % 2 == 0:
        pname, spec, keys, lkey, has_fail = gen_spec(r, ["mem_mut", "two_groups", "mut_st", "st_mut", "a2p_st"][(k // 2) % 5])
        pools = {key: DYADIC for key in keys}
        seed = None
    else:
        pname = sorted(seeded_pipelines())[(k // 2) % 4]
        spec, pools = gen_seeded_spec(r, pname)
        keys = sorted(pools)
        seed = r.randrange(0, 100000)
    mode = ["product", "sequential", "custom"][k % 3]
    ks = r.sample(keys, min(r.choice([1, 2]), len(keys)))
    if mode == "custom":
        params = [dict(key=key, values=[r.choice(pools[key]) for _ in range(3)]) for key in ks]
    else:
        params = [dict(key=key, values=r.sample(pools[key], 2)) for key in ks]
    first = dict(parameters=params, mode=mode, with_dask=True, scheduler="processes", pipeline_seed=seed,
                 ambient=None if seed is None else r.randrange(1, 100000))
    second = copy.deepcopy(first)
    second.update(with_dask=False, scheduler=None)
    for q in second["parameters"]:
        q["values"] = list(reversed(q["values"]))
    return dict(kind="observe", pipe=pname, spec=spec, calls=[first, second],
                input_class="seeded_stochastic" if seed is not None else "plain")


def gen_fitness_seeded(r, k):
    """fitness() of a calibration with a pipeline_seed and a stochastic model: the same candidate gives the same fitness -
    that of the standalone exposures under that seed - wherever it comes in the sequence; 1-3 processors."""
    names = ["draw_st", "draw_mem", "shot"]
    pname = names[k % len(names)]
    spec, pools = gen_seeded_spec(r, pname)
    spec["readout"] = dict(times=[1.0], non_destructive=False)
    keys = [key for key in sorted(pools) if not key.endswith("dr.arguments.n")]
    ks = r.sample(keys, min(r.choice([1, 2]), len(keys)))
    inputs = []
    rest = [key for key in sorted(pools) if key not in ks]
    if rest and k % 2 == 1:
        key = rest[0]
        inputs = [dict(key=key, values=r.sample(pools[key], r.choice([2, 3])))]
    nv = r.choice([3, 4])
    vecs = [[r.choice(pools[key]) for key in ks] for _ in range(nv)]
    vecs.append(list(vecs[0]))
    vecs += [list(v) for v in reversed(vecs[:2])]
    return dict(kind="fitness", pipe=pname, spec=spec, variables=[dict(key=key, lo=0, hi=100000) for key in ks],
                input_arguments=inputs, vectors=vecs, target=r.choice([0.0, 10.0]), pipeline_seed=r.randrange(0, 100000),
                input_class="seeded_stochastic")


def gen_calibration_seeded(r, k):
    """A real calibration (one island, synchronous scheduler) with a pipeline_seed and a stochastic model."""
    pname = ["draw_st", "draw_mem"][k % 2]
    spec, pools = gen_seeded_spec(r, pname)
    spec["det"]["kind"] = "ccd"
    spec["readout"] = dict(times=[1.0], non_destructive=False)
    keys = [key for key in sorted(pools) if not key.endswith("dr.arguments.n")]
    ks = r.sample(keys, 1)
    return dict(kind="calibration", pipe=pname, spec=spec, variables=[dict(key=key, lo=0.5, hi=8.0) for key in ks],
                input_arguments=[], islands=1, generations=1, pop=7, evolutions=r.choice([1, 2]), num_best=0,
                pygmo_seed=r.randrange(1, 1000), target=r.choice([0.0, 20.0]), scheduler="synchronous",
                pipeline_seed=r.randrange(0, 100000), max_judged=12, input_class="seeded_stochastic")


# ------------------------------------------------------------------------------------------ Coq emission

def emit_obj(n) -> str:
    refs = core.clist(f"({core.cstr(f)}, {int(l)})" for f, l in n["refs"])
    return f"mkObj {CLS.get(n['cls'], 'CObj')} {core.cz(int(n['payload']))} {refs}"


def emit_graph_case(c, o, site_modes) -> str:
    row = SITE_ROW[c["site"]]
    mode = "Deep" if row is None else site_modes.get(row, "Deep")
    heap = core.clist(emit_obj(n) for n in o["orig"])
    obs = core.clist(emit_obj(n) for n in o["copy"])
    return (f"mkGraphCase {heap} {mode} {obs} {len(o['shared_mem'])} {len(o['orig_changed'])} "
            f"{len(o.get('lost') or [])}")


def zl(xs) -> str:
    return core.clist(core.cz(int(x)) for x in xs)


def beh_of_observe(o):
    """-> (before, afters, runs) with runs = [(obs|None, std|None)]; also counts."""
    runs, skipped = [], 0
    for call in o["calls"]:
        if call["raised"] is not None:
            any_std_raise = any(r["std_raised"] for r in call["runs"])
            runs.append((None, None if any_std_raise else []))
            continue
        for r in call["runs"]:
            if r.get("inexact") or (r["obs"] is None and r.get("extract_error")):
                skipped += 1
                continue
            runs.append((r["obs"], None if r["std_raised"] else r["std"]))
    return o["before"], [c["after"] for c in o["calls"]], runs, skipped


def beh_of_fitness(o):
    before = o["before_caller"] + o["before_template"]
    afters = [e["after_caller"] + e["after_template"] for e in o["evals"]]
    runs = []
    for e in o["evals"]:
        runs.append((None if e["raised"] else [e["obs"]], None if e["std_raised"] else [e["std"]]))
    return before, afters, runs, 0


def beh_of_calibration(o):
    runs = []
    if o["raised"] is not None:
        runs.append((None, []))          # a calibration over accepted bounds must not raise
    for e in o["evals"] + o["champions"]:
        runs.append((e["obs"], e["std"]))
    return o["before"], [o["after"]], runs, 0


def emit_beh_case(before, afters, runs) -> str:
    def oz(x):
        return "None" if x is None else f"(Some {zl(x)})"
    return (f"mkBehCase {zl(before)} {core.clist(zl(a) for a in afters)} "
            f"{core.clist(f'({oz(a)}, {oz(b)})' for a, b in runs)}")


HEAD = ("From Coq Require Import String ZArith List.\nFrom PyxelV Require Import Model.Heap Model.HeapExc.\n"
        "From PyxelGen Require Import Gen_C06.\nImport ListNotations.\nOpen Scope string_scope.\n")


def graph_file(items) -> str:
    body = ";\n  ".join(items)
    return (HEAD + f"Definition cases : list graph_case := [\n  {body}\n].\n"
            "Eval vm_compute in mismatches src_policy cases.\nEval vm_compute in violations cases.\n")


def emit_fail_case(o) -> str:
    return (f"mkFailCase {core.cbool(o['raised'] is not None)} {len(o['changed'])} "
            f"{core.cbool(o['std_raised'] is not None)}")


def fail_file(items) -> str:
    body = ";\n  ".join(items)
    return (HEAD + f"Definition cases : list fail_case := [\n  {body}\n].\n"
            "Eval vm_compute in fail_violations cases.\n"
            "Eval vm_compute in indices_where (fun c => fc_raised c) cases 0.\n")


def beh_file(items) -> str:
    body = ";\n  ".join(items)
    return (HEAD + f"Definition cases : list beh_case := [\n  {body}\n].\n"
            "Eval vm_compute in beh_caller_violations cases.\nEval vm_compute in beh_run_violations cases.\n")


# ------------------------------------------------------------------------------------------ violations

def viol_graph(c, o) -> Violation:
    n0 = o["n0"]
    shared = sorted({l for n in o["copy"] for _, l in n["refs"] if l < n0})
    tags = sorted({o["orig"][l]["cls"] for l in shared})
    if o["orig_changed"]:
        clause, what = "caller_changed_by_copy_site", f"paths changed: {o['orig_changed'][:4]}"
    elif not o["copy"]:
        clause, what = "no_copy", "the site returned the caller's own processor"
    elif shared:
        clause, what = "shared_mutable", f"copy references original objects {shared[:6]} ({tags})"
    elif o.get("lost"):
        clause, what = "copy_incomplete", (f"the copy's detector does not hold what the caller's detector holds: "
                                           f"{o['lost'][:4]}")
    else:
        clause, what = "shared_memory", f"arrays share memory: {o['shared_mem'][:4]}"
    case = dict(c)
    return Violation(clause=clause, case=case,
                     observed=dict(shared=shared[:20], shared_classes=tags, shared_mem=o["shared_mem"][:6],
                                   orig_changed=o["orig_changed"][:6], lost=(o.get("lost") or [])[:6]),
                     expected="no mutable object / array memory shared with the caller's graph; caller's values "
                              "unchanged; the copy's detector equals the caller's detector value for value",
                     what=f"site {c['site']} on pipeline {c['pipe']}: {what}",
                     sig=dict(clause=clause, site=c["site"]))


def viol_sitefail(c, o) -> Violation:
    clause = "caller_changed_by_failing_site" if o["changed"] else "site_outcome_vs_standalone"
    return Violation(clause=clause, case=dict(c),
                     observed=dict(raised=o["raised"], std_raised=o["std_raised"], changed=o["changed"][:6]),
                     expected="the site raises exactly when the value is rejected on an independently built "
                              "configuration, and the caller's detector / pipeline / readout hold what they held before",
                     what=f"site {c['site']} on pipeline {c['pipe']} with params {json.dumps(c['params'])}: "
                          f"raised={o['raised']} standalone={o['std_raised']} caller paths changed: {o['changed'][:4]}",
                     sig=dict(clause=clause, site=c["site"]))


def viol_beh(c, o, clause) -> Violation:
    case = dict(c)
    obs: dict = {}
    if c["kind"] == "observe":
        for i, call in enumerate(o["calls"]):
            bad_runs = [dict(params=r["params"], obs=r["obs"], std=r["std"], std_raised=r["std_raised"])
                        for r in call["runs"] if call["raised"] is None and not r.get("inexact")
                        and not (r["obs"] is None and r.get("extract_error"))
                        and (r["obs"] != (None if r["std_raised"] else r["std"]))]
            if call["changed"] or bad_runs or (call["raised"] and not any(r["std_raised"] for r in call["runs"])):
                obs = dict(call=i, raised=call["raised"], changed=call["changed"][:6], runs=bad_runs[:3])
                case["calls"] = c["calls"][: i + 1]     # shrink: nothing after the first offending call
                break
        cfg = c["calls"][obs.get("call", 0)]
        sig = dict(clause=clause, path=("dask_processes" if cfg.get("scheduler") == "processes" else "dask")
                   if cfg["with_dask"] else "sequential_loop",
                   input=c.get("input_class", "plain"))
        if c.get("container"):
            sig["container"] = c["container"]
    elif c["kind"] == "calibration":
        bad = [dict(x=e["x"], obs=e["obs"], std=e["std"], f=e.get("f"), f_std=e.get("f_std"))
               for e in o["evals"] + o["champions"] if e["obs"] != e["std"]]
        obs = dict(raised=o["raised"], changed=o["changed"][:6], candidates_differing=bad[:3],
                   n_evals=o["n_evals"], threads=o["threads"])
        sig = dict(clause=clause, path="calibration_archipelago", input=c.get("input_class", "plain"))
    else:
        for i, e in enumerate(o["evals"]):
            bad = ((None if e["raised"] else e["obs"]) != (None if e["std_raised"] else e["std"]))
            if e["caller_changed"] or e["template_changed"] or bad:
                obs = dict(eval=i, vec=e["vec"], obs=e["obs"], std=e["std"], raised=e["raised"],
                           std_raised=e["std_raised"], caller_changed=e["caller_changed"][:6],
                           template_changed=e["template_changed"][:6])
                case["vectors"] = c["vectors"][: i + 1]
                break
        sig = dict(clause=clause, path="calibration_fitness", input=c.get("input_class", "plain"))
    exp = ("caller's detector/pipeline/readout snapshot identical before and after" if clause == "caller_changed"
           else "every run equals the standalone exposure with that run's parameter values")
    return Violation(clause=clause, case=case, observed=obs, expected=exp,
                     what=f"{c['kind']} on pipeline {c['pipe']}: {clause} {json.dumps(obs)[:300]}", sig=sig)


# ------------------------------------------------------------------------------------------ legs

def site_modes_of(ctx: Ctx) -> dict:
    from translator import c06 as tr
    try:
        return dict(tr.extract(ctx.repo)["sites"])
    except Exception:  # noqa: BLE001 - translation failure already recorded
        return dict(tr.FALLBACK_DATA["sites"])


def correspondence(ctx: Ctx, cases, tag="c"):
    outs = core.run_driver(ctx, "c06", cases, workers=min(8, core.NCPU), timeout=900)
    modes = site_modes_of(ctx)
    graphs, behs, fails = [], [], []
    for c, o in zip(cases, outs):
        if any(k in o for k in ("crash", "driver_error", "error", "too_big")) or o.get("init_raised") \
                or o.get("pre_run_error"):
            ctx.broken.append(Broken("correspondence", "implementation driver failed", json.dumps(o)[:600], c))
            continue
        if c["kind"] == "graph":
            if o.get("site_error"):
                ctx.broken.append(Broken("correspondence", f"copy site {c['site']} raised", json.dumps(
                    dict(err=o["site_error"], msg=o.get("site_error_msg")))[:400], c))
                continue
            graphs.append((c, o))
        elif c["kind"] == "sitefail":
            fails.append((c, o))
        else:
            behs.append((c, o))
    files, index = {}, {}
    if fails:
        name = f"{tag}_sitefail"
        files[name] = fail_file([emit_fail_case(o) for c, o in fails])
        index[name] = ("fail", fails)
    per = 40
    for k in range(0, len(graphs), per):
        name = f"{tag}_graph_{k // per:03d}"
        files[name] = graph_file([emit_graph_case(c, o, modes) for c, o in graphs[k:k + per]])
        index[name] = ("graph", graphs[k:k + per])
    per_b = 25
    for k in range(0, len(behs), per_b):
        name = f"{tag}_beh_{k // per_b:03d}"
        items = []
        for c, o in behs[k:k + per_b]:
            b, a, r, skipped = (beh_of_observe(o) if c["kind"] == "observe" else
                                beh_of_calibration(o) if c["kind"] == "calibration" else beh_of_fitness(o))
            ctx.count("runs_skipped_inexact_or_unextractable", skipped)
            items.append(emit_beh_case(b, a, r))
        files[name] = beh_file(items)
        index[name] = ("beh", behs[k:k + per_b])
    res = core.coq_eval_many(ctx, files, timeout=600, par=min(8, core.NCPU))
    mism = []
    for name in sorted(files):
        ok, evals, se = res[name]
        kind, chunk = index[name]
        if not ok or len(evals) != 2:
            ctx.broken.append(Broken("correspondence", f"case file {name}.v did not evaluate", core.tail(se, 15)))
            continue
        a, b = core.parse_int_list(evals[0]), core.parse_int_list(evals[1])
        if kind == "graph":
            mism += [chunk[i] for i in a]
            for i in b:
                ctx.violations.append(viol_graph(*chunk[i]))
        elif kind == "fail":
            for i in a:
                ctx.violations.append(viol_sitefail(*chunk[i]))
            ctx.count("failing_sites_that_raised", len(b))
        else:
            for i in a:
                ctx.violations.append(viol_beh(*chunk[i], "caller_changed"))
            for i in b:
                if i not in a:
                    ctx.violations.append(viol_beh(*chunk[i], "run_vs_standalone"))
    for c, o in mism:
        ctx.broken.append(Broken("correspondence", "Model/Heap.v copy block vs CPython/pyxel copy",
                                 f"site {c['site']} pipeline {c['pipe']}: the block computed by the model differs "
                                 f"from the implementation's copy", dict(case=c)))
    # coverage
    for c, o in graphs:
        ctx.count("evaluations")
        ctx.count("graph_nodes", o["n0"])
        ctx.dist("graph_site", c["site"])
        ctx.dist("graph_size", "<30" if o["n0"] < 30 else "30..45" if o["n0"] <= 45 else ">45")
    for c, o in fails:
        ctx.count("evaluations")
        ctx.dist("failing_site", f"{c['site']}/{'raised' if o['raised'] else 'accepted'}")
    for c, o in graphs + fails + behs:
        sp = c["spec"]
        ctx.dist("caller_history", "+".join(
            [t for t, on in (("real_memory", sp.get("real_memory")), ("persistence", sp.get("persistence") is not None),
                             ("pre_exposure", sp.get("pre_exposure")), ("adhoc_memory", sp.get("memory") is not None))
             if on]) or "fresh")
    for c, o in behs:
        if c["kind"] == "observe":
            if c.get("container"):
                ctx.dist("container_default", f"{c['container']}/{c.get('input_class')}")
            for cfg, call in zip(c["calls"], o["calls"]):
                ctx.count("evaluations", len(call["runs"]))
                ctx.count("observation_calls")
                ctx.dist("call", f"{cfg['mode']}/{('dask-' + (cfg.get('scheduler') or 'synchronous')) if cfg['with_dask'] else 'loop'}"
                                 f"{'/raised' if call['raised'] else ''}"
                                 f"{'/rejected_value' if cfg.get('reject') else ''}"
                                 f"{'/seeded_stochastic' if cfg.get('pipeline_seed') is not None else ''}")
        elif c["kind"] == "calibration":
            ctx.count("evaluations", len(o["evals"]) + len(o["champions"]))
            ctx.count("calibration_candidates_evaluated_by_islands", o.get("n_evals", 0))
            ctx.dist("call", f"calibration/{c['islands']}islands/{o.get('threads', 0) > 1 and 'concurrent' or 'serial'}"
                             f"{'/raised' if o['raised'] else ''}"
                             f"{'/seeded_stochastic' if c.get('pipeline_seed') is not None else ''}")
        else:
            ctx.count("evaluations", len(o["evals"]))
            ctx.dist("call", f"fitness/{o.get('processors', 1)}proc" + ("/list_variable" if any(
                v.get("n") for v in c["variables"]) else "")
                     + ("/seeded_stochastic" if c.get("pipeline_seed") is not None else ""))
            ctx.dist("fitness_raised", sum(1 for e in o["evals"] if e["raised"]))
        ctx.dist("pipeline", c["pipe"])
    return graphs, behs + fails, mism


def corpus_cases():
    """Minimised past failures (findings since repaired, classes of the seeded changes that were once missed)."""
    d = core.VERIF / "harness" / "corpus" / "C06"
    out = []
    for f in sorted(d.glob("*.json")):
        c = json.loads(f.read_text())
        c["corpus"] = f.stem
        out.append(c)
    return out


def gen_cases(ctx: Ctx, ng, no, nf, salt="cases", ns=None):
    r = ctx.rng(salt)
    cases = corpus_cases() if salt == "cases" else []
    cases += [gen_graph(r, k) for k in range(ng)]
    cases += [gen_sitefail(r, k) for k in range(max(8, ng // 4))]
    cases += [gen_observe(r, k) for k in range(no)]
    cases += [gen_observe_array(r, k) for k in range(max(3, no // 8))]
    cases += [gen_observe_container(r, k) for k in range(max(20, no // 2))]
    cases += [gen_fitness(r, k) for k in range(nf)]
    cases += [gen_fitness_multi(r, k) for k in range(max(6, nf // 2))]
    cases += [gen_calibration(r, k) for k in range(max(3, nf // 5))]
    # seeded stochastic pipelines (own PRNG stream, so that the cases above do not depend on this budget)
    r2 = ctx.rng(salt + "-seeded")
    ns = max(12, no // 3) if ns is None else ns
    cases += [gen_observe_seeded(r2, k) for k in range(ns)]
    cases += [gen_fitness_seeded(r2, k) for k in range(max(4, ns // 3))]
    cases += [gen_calibration_seeded(r2, k) for k in range(max(2, ns // 8))]
    cases += [gen_observe_processes(r2, k) for k in range(max(4, ns // 6))]
    return cases


def nontrivial(c) -> bool:
    """Non-trivial: the pipeline contains a model that keeps memory on the detector or mutates its
    own argument AND (graph) the site sets >= 1 parameter or (behaviour) >= 2 runs are made."""
    if c["kind"] == "graph":
        return bool(c["params"]) or c["site"] in ("deepcopy", "fitting_init", "pickle")
    if c["kind"] == "sitefail":
        return True
    if c["kind"] == "observe":
        return sum(len(q["values"]) for call in c["calls"] for q in call["parameters"]) >= 2
    if c["kind"] == "calibration":
        return True
    return len(c["vectors"]) >= 2


def run(ctx: Ctx):
    from translator import c06 as tr

    ctx.trusted += TRUSTED
    ctx.assumptions += [
        "runs are modelled as arbitrary functions that change only locations reachable from the processor they are "
        "given (may allocate) and whose result is a function of the self-contained copied graph; a raising run is a "
        "run whose result is an error",
        "immutable values are payload, not heap objects; the readout handed to run_pipeline is only read "
        "(np.array(times) copies) - checked by the snapshot of the caller's readout",
        "sequential mode under dask with >= 2 parameters is not generated here (finding F12 belongs to C05/C07)",
        "the buckets, the scene and the readout clock of a copy are not compared with the caller's (exposure.run_pipeline "
        "resets them before the first step of every run); caches (_numbytes), the running model's name and debug data "
        "(_intermediate) are not contents",
        "seeded stochastic cases: every model that draws random numbers has no seed of its own and draws integers (probe "
        "`draws`, Poisson shot noise) so that results are exact; the standalone exposure runs under the same pipeline_seed "
        "and under a different state of the ambient generator; dask only with the synchronous scheduler, real calibrations "
        "on one island (threads share numpy's generator: finding C07-seeded-threads-share-generator)",
        "calibration candidates are arbitrary binary64 values: fitness / champion frames are compared with the standalone "
        "oracle within 1e-9 relative (oracle side only); everything else uses dyadic inputs and exact comparison",
    ]
    gen = {}
    try:
        gen["Gen_C06.v"] = tr.translate(ctx.repo)
    except core.TranslationError as ex:
        ctx.broken.append(Broken("translation", "copy sites / custom __deepcopy__ (pyxel/pipelines, observation, "
                                                "calibration)", str(ex)))
        ctx.log("translation failed:", ex)
        gen["Gen_C06.v"] = tr.FALLBACK
    core.proof_leg(ctx, gen, PROP_FILE)

    cases = gen_cases(ctx, ctx.budget(60, 300), ctx.budget(40, 220), ctx.budget(12, 60))
    graphs, behs, mism = correspondence(ctx, cases)
    distinct = {json.dumps(c, sort_keys=True) for c, _ in graphs + behs if nontrivial(c)}
    ctx.cov["distinct_nontrivial"] = len(distinct)
    ctx.cov["rule"] = ("every generated pipeline contains a model that keeps memory on the detector (ad-hoc attribute, "
                       "the detector's own _memory dict, trapped charge of a persistence object) and most contain a model "
                       "that modifies its own argument in place (list append, nested lists / tuple of lists / dict / "
                       "ndarray element-wise); the caller's objects carry a history in most cases (0-2 earlier exposures); "
                       "graph cases: one per (copy site, spec, parameter set); sitefail cases: a copy site asked to apply a "
                       "rejected value; behaviour cases: 1-4 successive observation calls (product / sequential, loop / "
                       "dask synchronous / dask threads, reversed and thinned value orders, a raising model or a rejected "
                       "value at any position, unknown keys), 4-8 fitness() calls (failing or rejected candidate in the "
                       "middle, candidates repeated in a row and at the end, 1-3 processors per candidate, list-valued "
                       "variables), real calibrations on 1-3 islands; seeded stochastic pipelines (a model drawing from numpy's "
                       "global generator without a seed of its own, shot noise) with a pipeline_seed: product / sequential / "
                       "custom mode, loop / dask synchronous, the swept values in the given order, reversed, thinned, the same "
                       "Observation object run twice, fitness sequences with repeated candidates and 1-3 processors, a real "
                       "one-island calibration - every run against the standalone exposure under that seed; observation calls "
                       "under the multi-process dask scheduler (the processor reaches every run through pickle) followed by a "
                       "loop call on the same objects; graph cases also for a pickle round trip; non-trivial = sets >= 1 parameter (graph) / makes "
                       ">= 2 runs (behaviour)")
    ctx.cov["traces_validated_against_impl"] = len(graphs) + len(behs)
    ctx.cov["disagreements_checked"] = len(mism)
    for c, o in graphs[:2]:
        ctx.sample(dict(kind="graph", site=c["site"], pipe=c["pipe"], params=c["params"], n0=o["n0"],
                        copy_nodes=len(o["copy"]), shared_mem=o["shared_mem"], types=o.get("types", [])[:12]))
    for c, o in [x for x in behs if x[0]["kind"] == "sitefail"][:1]:
        ctx.sample(dict(kind="sitefail", site=c["site"], pipe=c["pipe"], params=c["params"], raised=o["raised"],
                        standalone_raised=o["std_raised"], caller_paths_changed=o["changed"]))
    behs = [x for x in behs if x[0]["kind"] != "sitefail"]
    for c, o in behs[:2] + behs[-1:]:
        if c["kind"] == "observe":
            ctx.sample(dict(kind="observe", pipe=c["pipe"], calls=c["calls"],
                            first_runs=[dict(params=r["params"], obs=(r["obs"] or [])[:3], std=(r["std"] or [])[:3])
                                        for r in o["calls"][0]["runs"][:2]]))
        elif c["kind"] == "calibration":
            ctx.sample(dict(kind="calibration", pipe=c["pipe"], islands=c["islands"], variables=c["variables"],
                            input_arguments=c["input_arguments"], candidates_evaluated=o.get("n_evals"),
                            threads=o.get("threads"), judged=len(o["evals"]), champions=len(o["champions"]),
                            first=[dict(x=e["x"], f=e.get("f"), f_standalone=e.get("f_std")) for e in o["evals"][:2]]))
        else:
            ctx.sample(dict(kind="fitness", pipe=c["pipe"], vectors=c["vectors"],
                            evals=[dict(obs=e["obs"], std=e["std"], raised=e["raised"]) for e in o["evals"]]))
    if ctx.broken and not new_violations(ctx):
        search(ctx)


def new_violations(ctx: Ctx):
    fs = core.load_findings(ctx.prop)
    return [v for v in ctx.violations if not any(core.finding_matches(e, v) for e in fs)]


def search(ctx: Ctx):
    """An obligation or the correspondence broke: a bigger, differently seeded budget on all three legs."""
    ctx.log("searching for a concrete failing input (more graphs, observation calls and fitness sequences)")
    cases = gen_cases(ctx, 90, 70, 24, salt="search")
    graphs, behs, _ = correspondence(ctx, cases, tag="s")
    ctx.cov["search_cases"] = len(graphs) + len(behs)


def replay(ctx: Ctx, rp: dict) -> int:
    from translator import c06 as tr

    case = rp.get("case")
    if rp.get("kind") != "input" or not case:
        print(f"replay names a {rp.get('kind')} that no longer checks: {rp.get('no_longer_checks')}")
        print(rp.get("detail", ""))
        return 1
    gen = ctx.build / "gen"
    gen.mkdir(parents=True, exist_ok=True)
    try:
        text = tr.translate(ctx.repo)
    except core.TranslationError as ex:
        print("translation fails:", ex)
        text = tr.FALLBACK
    (gen / "Gen_C06.v").write_text(text)
    core.ensure_lib(ctx, targets=["theories/Model/Heap.vo"])
    core.coqc(ctx, gen / "Gen_C06.v", [(gen, "PyxelGen")])
    n0 = len(ctx.violations)
    print("case:", json.dumps(case)[:1500])
    correspondence(ctx, [case], tag="replay")
    for b in ctx.broken:
        print("broken:", b.kind, b.name, b.detail[:300])
    bad = len(ctx.violations) > n0
    for v in ctx.violations[n0:]:
        print("implementation now gives:", json.dumps(v.observed)[:800])
    print("specification (evaluated in Coq):", "VIOLATED" if bad else "holds")
    return 1 if (bad or ctx.broken) else 0


META = dict(
    level_text=(
        "Coq theorems over a store model (heap = list of objects, copy = relocation of the reachable sub-graph driven "
        "by the copy policy regenerated from Processor.__deepcopy__, ModelGroup.__deepcopy__ and the copy/run sites on "
        "every run): the copy is a fresh isomorphic block; for every run function that changes only what it reaches "
        "and for EVERY sequence of runs the caller's whole heap is unchanged; the same on the EXCEPTIONAL path - every "
        "history of calls whose runs may be rejected by a setter or raise in a model, aborted at the first failure (loop) "
        "or not (dask), followed by further calls - and the outcome of a run (result or failure) does not depend on that "
        "history; parameter values that are references to the caller's objects keep the frame because the sites "
        "deep-copy the value (regenerated flag; statement false without the copy); with the random generator as an explicit "
        "input and output of every pipeline: because every run site brackets EVERY run with the pipeline seed (regenerated "
        "table src_seeding), the outcomes of a call are the outcomes of the standalone exposures under that seed, for every "
        "history, every order / subset of runs and every state of the ambient generator, which is restored - and the "
        "statement is refuted for one bracket around the whole loop and for a dropped seed; the pickle round trip by which "
        "a processor reaches the runs under a multi-process scheduler (regenerated policy of ModelGroup's pickle hooks) is a "
        "fresh isomorphic block as well; a site that writes to the caller "
        "keeps the frame iff it restores in a finally clause (both directions proved on the model); with one aliasing "
        "field or an in-place site the frame statement is refuted on a concrete witness. "
        "That pyxel's real object graphs and CPython's deepcopy behave like the model is established by correspondence "
        "(testing): Coq recomputes the copied block for every generated real processor graph and compares it with what "
        "deepcopy / pickle / replace / create_new_processor / update_processor / build_processors / fitting init produced, and "
        "judges value snapshots of the caller's objects (which carry a history: detector memory, trapped charge, bucket "
        "contents of earlier exposures) and every observation / dask (synchronous and threaded) / fitness run, every "
        "candidate evaluated by a real multi-island calibration and every copy site asked to apply a rejected value "
        "against an independently built standalone exposure (under the same pipeline seed where there is one; dask synchronous, "
        "threaded and multi-process)."),
    level_note=(
        "Trusted: Coq kernel + vm_compute; translator/c06.py (field modes, copy-before-set shape, which processor is run, "
        "writes to the caller's objects by taint analysis, value deep-copied before set, where the seed bracket sits, no "
        "other copy/pickle hook); "
        "the driver's canonical numbering and snapshots; Section hypotheses on runs (frame, address independence, "
        "Processor.set stores payload or new objects; outcome = function of the copied graph and of the generator state the "
        "run starts from); global state other than numpy's generator (caches) is C04/C20; "
        "result equality under parallel schedulers is C07 (here: isolation of the caller and of the runs under the "
        "threaded scheduler). Abstracted: the memo dropped by ModelGroup.__deepcopy__, values of immutable fields, "
        "numpy views (memory sharing is measured by the harness, not modelled). Calibration candidates are arbitrary "
        "binary64 values: their fitness is compared with the standalone oracle within 1e-9 relative (oracle side only)."),
    technique="Coq proof over a heap/copy-policy model with failing runs and an explicit random-generator state + regenerated "
              "copy-site / run-site tables (mode, effect, value copy, seeding) + in-Coq graph/snapshot correspondence",
    design_ref="DESIGN.md section 6, C06",
)
