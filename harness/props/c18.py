"""C18 — a detector saved to a file and loaded back is the same detector."""
from __future__ import annotations

import itertools
import json

from .. import core
from ..core import Broken, Ctx, Violation

PROP_FILE = "Properties/C18.v"
KINDS = ["ccd", "cmos", "mkid", "apd"]
CK = {"ccd": "CCD", "cmos": "CMOS", "mkid": "MKID", "apd": "APD", "CCD": "CCD", "CMOS": "CMOS", "MKID": "MKID", "APD": "APD"}
FIELDS = ["photon", "pixel", "signal", "image", "phase", "data", "charge_array", "charge_frame", "scene"]
CF = {"photon": "FPhoton", "pixel": "FPixel", "signal": "FSignal", "image": "FImage", "phase": "FPhase",
      "data": "FData", "charge_array": "FChargeArray", "charge_frame": "FChargeFrame", "scene": "FScene"}

TRUSTED = [
    "translator/c18.py (to_dict/from_dict key tables of CCD/CMOS/MKID/APD, Detector.from_dict dispatch, Photon sub-keys "
    "and escaping, pass-through shape of backends/asdf.py, body shape of load_detector; fails closed)",
    "correspondence harness: harness/props/c18.py generators, harness/drivers/c18.py, probes/verif_probes_c18.py "
    "(structural canonical form; floats compared as binary64 bit patterns)",
    "modelled, not verified: asdf's own serialisation of arrays/dicts, xarray DataArray/Dataset/DataTree to_dict/from_dict, "
    "pandas DataFrame.to_dict(orient='list') / DataFrame(dict) (the model only says: row labels are not stored)",
]


# ------------------------------------------------------------------------------------------ generators


def dy(r, lo=0, hi=64, scale=4):
    """small dyadic float (exact in binary64, exact through any text/binary codec)."""
    return r.randrange(lo, hi) / scale


def gen_container(r, f, rows, cols, flavour=None):
    n = rows * cols
    if f == "photon":
        mode = flavour or r.choice(["2d", "3d"])
        if mode == "2d":
            return {"mode": "2d", "vals": [dy(r) for _ in range(n)]}
        nw = r.choice([1, 2, 3])
        wl = sorted(r.sample(range(300, 900, 25), nw))
        return {"mode": "3d", "wl": wl, "vals": [dy(r) for _ in range(n * nw)]}
    if f in ("pixel", "signal", "phase", "charge_array"):
        v = [dy(r, 1 if f == "charge_array" else 0) for _ in range(n)]
        return v
    if f == "image":
        dt = r.choice(["uint8", "uint16", "uint32", "uint64"])
        return {"dtype": dt, "vals": [r.randrange(0, 200) for _ in range(n)]}
    if f == "charge_frame":
        k = r.choice([1, 2, 3])
        cl = [[r.randrange(1, 9), 5.0 + 10 * r.randrange(rows), 5.0 + 10 * r.randrange(cols), dy(r)] for _ in range(k)]
        out = {"clusters": cl}
        if flavour == "relabel" or (flavour is None and k > 1 and r.random() < 0.25):
            if k == 1:
                cl.append([2, 5.0, 5.0, 0.0])
            out["remove"] = 0
        return out
    if f == "scene":
        srcs = []
        for _ in range(r.choice([1, 2])):
            nref = r.choice([1, 2])
            wl = sorted(r.sample(range(300, 900, 50), 2))
            srcs.append({"nref": nref, "wl": wl, "x": [dy(r) for _ in range(nref)], "y": [dy(r) for _ in range(nref)],
                         "weight": [dy(r) for _ in range(nref)], "flux": [dy(r) for _ in range(nref * 2)]})
        return {"sources": srcs}
    if f == "data":
        nodes = []
        names = ["/stat", "/foo/bar", "/foo/baz", "/a_b/c-d"]
        if flavour == "hash":
            names = ["/a#b"]
        for p in r.sample(names, r.choice([1, min(2, len(names))])):
            nodes.append({"path": p, "vals": [dy(r) for _ in range(r.choice([1, 2, 3]))], "var": r.choice(["v", "mean"])})
        return {"nodes": nodes}
    raise ValueError(f)


def fields_of(kind):
    return [f for f in FIELDS if f != "phase" or kind == "mkid"]


def gen_props(r):
    pr = {}
    if r.random() < 0.8:
        pr["temperature"] = float(r.randrange(20, 600)) / 2
    if r.random() < 0.4:
        pr["wavelength"] = r.choice([float(r.randrange(300, 900)), [300.0 + 50 * r.randrange(4), 600.0 + 50 * r.randrange(4), 25.0 * r.randrange(1, 4)]])
    if r.random() < 0.5:
        pr["pixel_vert_size"] = 10.0
        pr["total_thickness"] = float(r.randrange(10, 200)) / 2
    if r.random() < 0.3:
        pr["pixel_scale"] = dy(r, 1)
    if r.random() < 0.5:
        pr["quantum_efficiency"] = r.randrange(0, 5) / 4
        pr["full_well_capacity"] = r.randrange(1, 100000)
        pr["adc_bit_resolution"] = r.randrange(4, 33)
        pr["adc_voltage_range"] = [dy(r, 0, 8), 2.0 + dy(r, 1, 40)]
    return pr


def make_spec(r, kind, present, flavours=None, dims=None, props=None):
    rows, cols = dims or r.choice([(2, 3), (1, 1), (3, 2), (2, 2)])
    flavours = flavours or {}
    init = {}
    for f in present:
        init[f] = gen_container(r, f, rows, cols, flavours.get(f))
    return {"kind": kind, "rows": rows, "cols": cols, "props": gen_props(r) if props is None else props, "init": init}


def structured_cases(ctx: Ctx, r):
    cases = []
    for kind in KINDS:
        fs = fields_of(kind)
        for route in ("dict", "asdf"):
            cases.append({"route": route, "spec": make_spec(r, kind, [])})
            cases.append({"route": route, "spec": make_spec(r, kind, fs, {"photon": "3d"})})
            cases.append({"route": route, "spec": make_spec(r, kind, fs, {"photon": "2d"})})
            for f in fs:
                for fl in ({"photon": ["2d", "3d"]}.get(f, [None])):
                    cases.append({"route": route, "spec": make_spec(r, kind, [f], {f: fl} if fl else None)})
            # array + cluster table together, relabelled rows, '#' in a processed-data group name
            cases.append({"route": route, "spec": make_spec(r, kind, ["charge_array", "charge_frame"])})
            cases.append({"route": route, "spec": make_spec(r, kind, ["charge_frame"], {"charge_frame": "relabel"})})
            cases.append({"route": route, "spec": make_spec(r, kind, ["data"], {"data": "hash"})})
        # the explicit entry points
        cases.append({"route": "asdf", "save": "to_asdf", "load": "from_asdf", "spec": make_spec(r, kind, fs[:4])})
        cases.append({"route": "asdf", "load": "class_load", "spec": make_spec(r, kind, fs[:4])})
    return cases


def random_cases(ctx: Ctx, r, n):
    cases = []
    for i in range(n):
        kind = KINDS[i % 4]
        fs = fields_of(kind)
        present = [f for f in fs if r.random() < 0.5]
        fl = {}
        if "data" in present and r.random() < 0.08:
            fl["data"] = "hash"
        cases.append({"route": "asdf" if i % 3 else "dict", "spec": make_spec(r, kind, present, fl)})
    return cases


def exhaustive_cases(ctx: Ctx, r):
    """every subset of initialised containers (photon: none / 2-D / 3-D), every type, both routes."""
    cases = []
    for kind in KINDS:
        fs = [f for f in fields_of(kind) if f != "photon"]
        for ph in (None, "2d", "3d"):
            for mask in itertools.product([0, 1], repeat=len(fs)):
                present = [f for f, m in zip(fs, mask) if m] + (["photon"] if ph else [])
                # the .asdf route exercises the whole chain (to_dict, backend, from_dict) for every type; the
                # dictionary route (which isolates pyxel's own key handling) is enumerated on the type with
                # the most containers
                for route in (("dict", "asdf") if kind == "mkid" else ("asdf",)):
                    cases.append({"route": route, "exhaustive": True,
                                  "spec": make_spec(r, kind, present, {"photon": ph, "charge_frame": "plain"} if ph else {"charge_frame": "plain"},
                                                    dims=(2, 2), props={})})
    return cases


def pipeline_cases(ctx: Ctx, r, per_kind):
    cases = []
    groups = ["photon_collection", "charge_generation", "charge_collection", "charge_measurement", "readout_electronics"]
    for kind in KINDS:
        fs = fields_of(kind)
        for j in range(per_kind):
            dims = r.choice([(2, 3), (2, 2)])
            present = fs if j == 0 else ([f for f in fs if r.random() < 0.6] or ["pixel"])
            filespec = make_spec(r, kind, present, {"charge_frame": "plain", "photon": r.choice(["2d", "3d"])}, dims=dims, props={})
            running = make_spec(r, kind, [f for f in fs if r.random() < 0.4], {"charge_frame": "plain"}, dims=dims, props={})
            cases.append({"route": "pipeline", "spec": filespec, "running": running, "probe_before": True,
                          "group": groups[j % len(groups)]})
    return cases


# ------------------------------------------------------------------------------------------ Coq emission


def c_arr(a):
    return (f"(mk_arr {core.cstr(a['dt'])} {core.clist(core.cz(int(x)) for x in a['sh'])} "
            f"{core.clist(core.cz(int(x)) for x in a['v'])})")


def _lab(s: str) -> str:
    return core.cstr("".join(ch if 32 <= ord(ch) < 127 else "?" for ch in s))


def c_items(it):
    return core.clist(f"({_lab(k)}, {c_arr(a)})" for k, a in it)


def c_payload(p):
    if p["k"] == "arr":
        return f"(PArr {c_arr(p['a'])})"
    if p["k"] == "keyed":
        return "(PKeyed " + core.clist(f"({_lab(k)}, {c_items(it)})" for k, it in p["m"]) + ")"
    if p["k"] == "frame":
        return f"(PFrame {core.clist(core.cz(int(i)) for i in p['i'])} {c_items(p['c'])})"
    raise ValueError(p)


def c_snap(s):
    cont = core.clist(f"({CF[f]}, {c_payload(p)})" for f, p in s["containers"].items() if p is not None)
    return (f"(mk_snap {CK[s['type']]} {c_items(s['geometry'])} {c_items(s['environment'])} "
            f"{c_items(s['characteristics'])} {cont})")


def coq_cases(payload, obs):
    """[(label, coq text)] for one driver result."""
    out = []
    if payload["route"] in ("dict", "asdf"):
        back = obs["back"]
        b = "None" if "raise" in back else f"(Some {c_snap(back)})"
        rt = "RDict" if payload["route"] == "dict" else "RFile"
        out.append(("roundtrip", f"(mk_case {rt} {c_snap(obs['orig'])} None {b})"))
    else:
        for lab in ("seen", "final"):
            b = obs.get(lab)
            bb = "None" if b is None else f"(Some {c_snap(b)})"
            run = obs.get("before")
            rr = "None" if run is None else f"(Some {c_snap(run)})"
            out.append((lab, f"(mk_case RLoad {c_snap(obs['file'])} {rr} {bb})"))
    return out


def emit_file(texts) -> str:
    body = ";\n  ".join(texts)
    return ("From Coq Require Import ZArith List String.\nFrom PyxelV Require Import Model.Codec.\n"
            "From PyxelGen Require Import Gen_C18.\nImport ListNotations.\nOpen Scope string_scope.\n"
            f"Definition cases : list codec_case := [\n  {body}\n].\n"
            "Eval vm_compute in mismatches src_tables cases.\n"
            "Eval vm_compute in violations cases.\n")


# ------------------------------------------------------------------------------------------ classification


def diff_fields(o, b):
    """Python-side description of a violating case (signature / report only; the decision was taken in Coq)."""
    out = []
    if o["type"] != b["type"]:
        out.append(("type", f"changed:{o['type']}->{b['type']}", None))
    for k in ("geometry", "environment", "characteristics"):
        if o[k] != b[k]:
            names = sorted({x[0] for x in o[k] if x not in b[k]} | {x[0] for x in b[k] if x not in o[k]})
            out.append((k, "changed", ",".join(names)[:80]))
    for f in FIELDS:
        x, y = o["containers"].get(f), b["containers"].get(f)
        if x == y:
            continue
        if y is None:
            out.append((f, "lost", None))
        elif x is None:
            out.append((f, "gained", None))
        else:
            aspect = None
            if f == "charge_frame" and x["c"] == y["c"] and x["i"] != y["i"]:
                aspect = "row_labels_only"
            out.append((f, "changed", aspect))
    return out


def input_class(payload, f):
    init = payload["spec"].get("init", {})
    if f == "data" and any("#" in n["path"] for n in (init.get("data") or {}).get("nodes", [])):
        return "hash_in_group_name"
    if f == "charge_frame" and (init.get("charge_frame") or {}).get("remove") is not None:
        return "relabelled_rows"
    if f == "photon" and init.get("photon"):
        return "photon_" + init["photon"]["mode"]
    return "plain"


def shrink_payload(payload, f):
    """Only the offending container initialised (plus what it cannot exist without)."""
    p = json.loads(json.dumps(payload))
    init = p["spec"].get("init", {})
    if f in init:
        p["spec"]["init"] = {f: init[f]}
    p.pop("exhaustive", None)
    return p


def violations_of(ctx, payload, obs, label):
    vs = []
    kind = payload["spec"]["kind"]
    if payload["route"] in ("dict", "asdf"):
        back = obs["back"]
        if "raise" in back:
            sig = dict(clause="roundtrip", kind=kind, route=payload["route"], field="*", effect="raises:" + back["raise"])
            vs.append(Violation("roundtrip", payload, back, "the saved detector", f"{kind} via {payload['route']}: reload raises {back['raise']}: {back.get('msg', '')}", sig))
            return vs
        for f, effect, aspect in diff_fields(obs["orig"], back):
            sig = dict(clause="roundtrip", kind=kind, route=payload["route"], field=f, effect=effect,
                       input_class=input_class(payload, f))
            if aspect:
                sig["aspect"] = aspect
            o = obs["orig"]["containers"].get(f) if f in FIELDS else obs["orig"].get(f)
            b = back["containers"].get(f) if f in FIELDS else back.get(f)
            v = Violation("roundtrip", shrink_payload(payload, f) if f in FIELDS else payload,
                          dict(field=f, reloaded=b), dict(field=f, original=o),
                          f"{kind} via {payload['route']}: {f} {effect}" + (f" ({aspect})" if aspect else ""), sig)
            v._full = payload
            vs.append(v)
        if not vs:
            vs.append(Violation("roundtrip", payload, "differs (Coq)", "the saved detector", f"{kind} via {payload['route']}: unclassified difference",
                                dict(clause="roundtrip", kind=kind, route=payload["route"], field="?", effect="unclassified")))
        return vs
    # pipeline
    got = obs.get(label)
    if got is None:
        sig = dict(clause="load_replaces", kind=kind, effect="probe_not_reached")
        return [Violation("load_replaces", payload, obs.get("error"), "the file's containers", f"{kind}: pipeline with load_detector failed: {obs.get('error')}", sig)]
    diffs = [(f, e) for f, e, _ in diff_fields(dict(obs["file"], type=got["type"], geometry=got["geometry"], environment=got["environment"],
                                                    characteristics=got["characteristics"]), got)]
    noop = obs.get("before") is not None and got["containers"] == obs["before"]["containers"]
    sig = dict(clause="load_replaces", kind=kind, effect="running_detector_unchanged" if noop else "partly_replaced",
               observed_at=label)
    if not noop:
        sig["fields"] = ",".join(sorted(f for f, _ in diffs))
    vs.append(Violation("load_replaces", payload,
                        dict(differing=[f"{f}:{e}" for f, e in diffs], result_buckets_match_file=obs.get("result_matches_file")),
                        "every container the later model sees equals the file's",
                        f"{kind}: after load_detector ({payload.get('group')}) a later model sees "
                        + ("exactly the state it had before the load" if noop else "a state different from the file's")
                        + f" ({label}); differing: {[f for f, _ in diffs]}", sig))
    return vs


def result_matches_file(obs):
    """supplementary (Python-side): the arrays of the returned result vs. the file's arrays (values only)."""
    rb = obs.get("result_buckets") or {}
    fc = obs["file"]["containers"]
    ok = True
    for b, f in (("pixel", "pixel"), ("signal", "signal"), ("image", "image"), ("charge", "charge_array")):
        want = fc.get(f)
        got = rb.get(b)
        if want is None:
            continue
        if got is None:
            ok = False
            continue
        import struct

        def val(a):
            if a["dt"].startswith("float"):
                return [struct.unpack(">d", struct.pack(">q", x))[0] for x in a["v"]]
            return [float(x) for x in a["v"]]
        if val(got) != val(want["a"]):
            ok = False
    return ok


# ------------------------------------------------------------------------------------------ legs


def correspondence(ctx: Ctx, payloads, tag="c"):
    obs = core.run_driver(ctx, "c18", payloads, workers=8, timeout=1500)
    # a crashed/timed-out worker (machine load) is retried once, one payload per process
    redo = [i for i, o in enumerate(obs) if "crash" in o]
    if redo:
        again = core.run_driver(ctx, "c18", [payloads[i] for i in redo], workers=8, timeout=600, chunk=4)
        for i, o in zip(redo, again):
            obs[i] = o
    units = []  # (payload, obs, label, coq text)
    for p, o in zip(payloads, obs):
        if "crash" in o or "driver_error" in o:
            ctx.broken.append(Broken("correspondence", "implementation driver failed", str(o)[:600], p))
            continue
        if p["route"] == "pipeline":
            if "file" not in o:
                ctx.broken.append(Broken("correspondence", "pipeline case could not be set up", str(o)[:400], p))
                continue
            if "error" in o and o.get("seen") is None:
                o["seen"] = None
                o["final"] = None
            o["result_matches_file"] = result_matches_file(o) if "result_buckets" in o else None
        for lab, txt in coq_cases(p, o):
            units.append((p, o, lab, txt))
    per = 30
    files = {f"{tag}_{k // per:03d}": emit_file([u[3] for u in units[k:k + per]]) for k in range(0, len(units), per)}
    res = core.coq_eval_many(ctx, files, timeout=900, par=8)
    for name in sorted(files):
        if not res[name][0] or len(res[name][1]) != 2:      # retry once, alone
            res[name] = core.coq_eval(ctx, name, files[name], 900)
    mism, viol = [], []
    for k, name in enumerate(sorted(files)):
        ok, evals, se = res[name]
        chunk = units[k * per:(k + 1) * per]
        if not ok or len(evals) != 2:
            ctx.broken.append(Broken("correspondence", f"case file {name}.v did not evaluate", core.tail(se, 15)))
            continue
        mism += [chunk[i] for i in core.parse_int_list(evals[0])]
        viol += [chunk[i] for i in core.parse_int_list(evals[1])]
    return units, mism, viol


def nontrivial_key(p):
    init = p["spec"].get("init", {})
    return (p["route"], p["spec"]["kind"], tuple(sorted(init)), (init.get("photon") or {}).get("mode"))


def account(ctx, units):
    seen = ctx.cov.setdefault("_keys", set())
    for p, o, lab, _ in units:
        if lab == "final":
            continue
        ctx.count("evaluations")
        ctx.dist("route", p["route"])
        ctx.dist("kind", p["spec"]["kind"])
        ctx.dist("n_initialised", len(p["spec"].get("init", {})))
        for f in p["spec"].get("init", {}):
            ctx.dist("container", f + (":" + p["spec"]["init"][f]["mode"] if f == "photon" else ""))
        if p["spec"].get("init"):
            seen.add(nontrivial_key(p))


def process(ctx, units, mism, viol):
    for p, o, lab, _ in viol:
        if p["route"] == "pipeline" and lab == "final" and any(q is p and l2 == "seen" for q, _, l2, _ in viol):
            continue  # same defect already reported at the probe
        ctx.violations += violations_of(ctx, p, o, lab)
    confirm_shrunk(ctx)
    # a supplementary Python-side observation on the pipeline route: result vs file
    for p, o, lab, _ in units:
        if p["route"] == "pipeline" and lab == "seen" and o.get("result_matches_file") is False \
                and not any(q is p for q, _, _, _ in viol):
            ctx.violations.append(Violation("load_result", p, o.get("result_buckets"), "the file's arrays",
                                            "the returned result does not contain the loaded arrays",
                                            dict(clause="load_result", kind=p["spec"]["kind"])))
    for p, o, lab, _ in mism:
        ctx.broken.append(Broken("correspondence", "Model/Codec.v (generated tables) vs implementation",
                                 f"model and implementation differ: {p['route']} {p['spec']['kind']} "
                                 f"init={sorted(p['spec'].get('init', {}))} ({lab})", p))


def confirm_shrunk(ctx: Ctx):
    """The shrunk case (only the offending container initialised) is kept only if it still fails the same way
    on the implementation; otherwise the violation keeps the full case it was found on."""
    todo, seen = [], set()
    for v in ctx.violations:
        full = getattr(v, "_full", None)
        if full is None or v.case == full:
            continue
        key = json.dumps(v.sig, sort_keys=True)
        if key in seen:
            v.case = full
            continue
        seen.add(key)
        todo.append(v)
    if not todo:
        return
    obs = core.run_driver(ctx, "c18", [v.case for v in todo], workers=8)
    for v, o in zip(todo, obs):
        f = v.sig.get("field")
        still = ("back" in o and "raise" not in o["back"]
                 and any(x[0] == f and x[1] == v.sig.get("effect") for x in diff_fields(o["orig"], o["back"])))
        if not still:
            v.case = v._full


def run(ctx: Ctx):
    from translator import c18 as tr

    ctx.trusted += TRUSTED
    ctx.assumptions += [
        "ASDF only: h5py is not installed in this image, the HDF5 backend (to_hdf5/from_hdf5) cannot be exercised",
        "container contents are small dyadic numbers / small integers on 1x1..3x2 detectors",
        "charge is compared through its public observables (.array, .frame); Charge.nextid and the detector's "
        "_memory/_intermediate/persistence/readout state are outside the property's list and are not compared",
    ]
    gen = {}
    try:
        gen["Gen_C18.v"] = tr.translate(ctx.repo)
    except core.TranslationError as ex:
        ctx.broken.append(Broken("translation", "codec key tables / load_detector shape", str(ex)))
        ctx.log("translation failed:", ex)
        gen["Gen_C18.v"] = tr.FALLBACK
    except Exception as ex:  # noqa: BLE001 - an unexpected translator crash is a failed translation too
        ctx.broken.append(Broken("translation", "translator crashed", repr(ex)))
        gen["Gen_C18.v"] = tr.FALLBACK
    core.proof_leg(ctx, gen, PROP_FILE)

    r = ctx.rng("cases")
    payloads = [{"route": "h5py"}]
    h5 = core.run_driver(ctx, "c18", payloads, workers=1)[0]
    ctx.cov["h5py_importable"] = bool(h5.get("h5py"))
    if h5.get("h5py"):
        ctx.log("note: h5py is importable here but the HDF5 route is not implemented in this check")

    cases = structured_cases(ctx, r) + random_cases(ctx, r, ctx.budget(120, 300)) + pipeline_cases(ctx, r, ctx.budget(3, 8))
    if not ctx.quick:
        cases += exhaustive_cases(ctx, ctx.rng("exh"))
        ctx.cov["exhaustive"] = ("all subsets of initialised containers (photon none/2-D/3-D): 4 types via .asdf files, "
                                 "MKID also via to_dict/from_dict")
    units, mism, viol = correspondence(ctx, cases)
    account(ctx, units)
    process(ctx, units, mism, viol)
    keys = ctx.cov.pop("_keys", set())
    ctx.cov["distinct_nontrivial"] = len(keys)
    ctx.cov["rule"] = ("distinct (route, type, set of initialised containers, photon mode) with at least one container "
                       "initialised; every case compares type, every attribute of geometry/environment/characteristics "
                       "and all 9 containers structurally")
    ctx.cov["traces_validated_against_impl"] = len(units)
    ctx.cov["disagreements_checked"] = len(mism)
    for p, o, lab, _ in units[:200:45]:
        ctx.sample(dict(route=p["route"], kind=p["spec"]["kind"], initialised=sorted(p["spec"].get("init", {})),
                        rows=p["spec"]["rows"], cols=p["spec"]["cols"], props=p["spec"].get("props")))
    (ctx.build / "mismatches.json").write_text(json.dumps([dict(case=p, label=lab) for p, o, lab, _ in mism], indent=1)[:2000000])
    if ctx.broken and not new_violations(ctx):
        search(ctx)


def new_violations(ctx: Ctx):
    fs = core.load_findings(ctx.prop)
    return [v for v in ctx.violations if not any(core.finding_matches(e, v) for e in fs)]


def search(ctx: Ctx):
    """A proof obligation or the correspondence broke: look harder for a concrete failing input."""
    ctx.log("searching for a concrete failing input (single containers with several contents, pairs, every entry point)")
    r = ctx.rng("search")
    cases = []
    for kind in KINDS:
        fs = fields_of(kind)
        for route in ("dict", "asdf"):
            for f in fs:
                for _ in range(3):
                    cases.append({"route": route, "spec": make_spec(r, kind, [f])})
            for a, b in itertools.combinations(fs, 2):
                cases.append({"route": route, "spec": make_spec(r, kind, [a, b], {"charge_frame": "plain"})})
            for _ in range(6):
                cases.append({"route": route, "spec": make_spec(r, kind, [], props=gen_props(r))})
        cases.append({"route": "asdf", "save": "to_asdf", "load": "from_asdf", "spec": make_spec(r, kind, fs)})
        cases.append({"route": "asdf", "load": "class_load", "spec": make_spec(r, kind, fs)})
    cases += pipeline_cases(ctx, r, 5)
    units, mism, viol = correspondence(ctx, cases, tag="s")
    account(ctx, units)
    process(ctx, units, [], viol)
    ctx.cov.pop("_keys", None)
    ctx.cov["search_cases"] = len(units)


def replay(ctx: Ctx, rp: dict) -> int:
    case = rp.get("case")
    if rp.get("kind") != "input" or not case:
        print(f"replay names a {rp.get('kind')} that no longer checks: {rp.get('no_longer_checks')}")
        print(rp.get("detail", ""))
        return 1
    from translator import c18 as tr

    obs = core.run_driver(ctx, "c18", [case], workers=1)[0]
    if "crash" in obs or "driver_error" in obs:
        print("driver failed:", obs)
        return 1
    gen = ctx.build / "gen"
    gen.mkdir(parents=True, exist_ok=True)
    try:
        text = tr.translate(ctx.repo)
    except Exception:  # noqa: BLE001
        text = tr.FALLBACK
    (gen / "Gen_C18.v").write_text(text)
    core.ensure_lib(ctx, targets=core.lib_targets_of([text]))
    core.coqc(ctx, gen / "Gen_C18.v", [(gen, "PyxelGen")])
    if case["route"] == "pipeline" and "file" not in obs:
        print("pipeline case failed:", obs)
        return 1
    units = coq_cases(case, obs)
    ok, evals, se = core.coq_eval(ctx, "replay", emit_file([t for _, t in units]))
    bad = ok and core.parse_int_list(evals[1]) != []
    print("case:", json.dumps(case)[:1500])
    if case["route"] != "pipeline" and "raise" not in obs["back"]:
        print("differences (field, effect, aspect):", diff_fields(obs["orig"], obs["back"]))
    elif case["route"] != "pipeline":
        print("reload raised:", obs["back"])
    else:
        print("later model saw the file's containers:", obs.get("seen", {}).get("containers") == obs["file"]["containers"])
    print("specification (evaluated in Coq):", "VIOLATED" if bad or not ok else "holds")
    return 1 if (bad or not ok) else 0


META = dict(
    level_text=(
        "Coq theorems over an executable model of the detector <-> dictionary <-> ASDF codec whose key tables (which "
        "container is written under which key, which key from_dict reads back into which container, type tag / guard / "
        "dispatch, Photon sub-keys, '/'<->'#' escaping) and the body shape of load_detector are regenerated from the "
        "source on every run: for every detector type and EVERY subset of initialised containers from_dict(to_dict d) = d "
        "(and the same through the ASDF conversions) on the containers the tables cover, proved once for arbitrary tables "
        "and instantiated by vm_compute; the full statements are kept and refuted by proved witnesses where the current "
        "code breaks them (MKID phase never read back; '#' in a processed-data group name; cluster-table row labels not "
        "stored by the ASDF backend; load_detector is a no-op on the running detector). That the real to_dict/from_dict/"
        "save/load behave as the model is established by correspondence (testing): structural field-by-field comparison of "
        "original vs. reloaded detector for 4 types x container subsets (exhaustive in the thorough tier) via dict and via "
        ".asdf files, and a pipeline [load_detector; probe]; model-vs-implementation and implementation-vs-specification "
        "are both decided inside Coq."),
    level_note=(
        "Trusted: Coq kernel + vm_compute; translator/c18.py; the correspondence harness and canonical form. Not carried: "
        "asdf/xarray/pandas serialisation internals (payloads are opaque in the model), HDF5 (h5py absent), detector "
        "state outside the property's list (Charge.nextid, _memory, persistence, readout clock)."),
    technique="Coq proof over table-driven codec model + regenerated key tables + in-Coq correspondence/spec evaluation",
    design_ref="DESIGN.md section 6, C18",
)
