"""C18 — a detector saved to a file and loaded back is the same detector."""
from __future__ import annotations

import itertools
import json

from .. import core
from ..core import Broken, Ctx, Violation

PROP_FILE = "Properties/C18.v"
KINDS = ["ccd", "cmos", "mkid", "apd"]
CK = {"ccd": "CCD", "cmos": "CMOS", "mkid": "MKID", "apd": "APD", "CCD": "CCD", "CMOS": "CMOS", "MKID": "MKID", "APD": "APD"}
FIELDS = ["photon", "pixel", "signal", "image", "phase", "data", "charge_array", "charge_frame", "scene"]
CF = {"photon": "FPhoton", "pixel": "FPixel", "signal": "FSignal", "image": "FImage", "phase": "FPhase",
      "data": "FData", "charge_array": "FChargeArray", "charge_frame": "FChargeFrame", "scene": "FScene"}

TRUSTED = [
    "translator/c18.py (to_dict/from_dict key tables of CCD/CMOS/MKID/APD, Detector.from_dict dispatch, Photon sub-keys "
    "and escaping; that every comprehension of to_asdf / Scene.to_dict / Scene.from_dict / Photon.to_dict / from_dict keeps "
    "EVERY entry and converts with a plain .to_dict(); pass-through shape of backends/asdf.py and whether the cluster "
    "table's row labels are stored and read back; body shapes of load_detector and save_detector; fails closed); "
    "translator/c18_norm.py (the functions are read in a NORMAL FORM: module constants resolved, private package helpers "
    "inlined, single-binding local aliases substituted unless a later store touches what they read, match / local dispatch "
    "dict -> if-chain, guard-clause form, filling loops -> comprehensions, conditional assignments -> conditional "
    "expressions, literal loops unrolled, getattr/setattr with literal names; checked by executing the normal forms in "
    "place of the originals under the repository's tests: translator/c18_norm_exec.py)",
    "correspondence harness: harness/props/c18.py generators, harness/drivers/c18.py, probes/verif_probes_c18.py "
    "(structural canonical form: every group of a tree, variables / coordinates with dims in order, dtype, shape, values, "
    "attributes of groups / variables / coordinates; floats compared as binary64 bit patterns)",
    "modelled, not verified: asdf's own serialisation of arrays/dicts; xarray Dataset/DataArray.to_dict()/from_dict modelled "
    "as 'values become nested lists, numpy infers dtype and shape back' (Model/Codec.v listify_arr, tied by correspondence "
    "on 16 dtypes and 0-d / 0-length / 0-size shapes); DataTree.to_dict/from_dict modelled as path flattening + creation of "
    "implied ancestors; pandas DataFrame.to_dict(orient='list') / DataFrame(dict, index=...)",
]


# ------------------------------------------------------------------------------------------ generators


def dy(r, lo=0, hi=64, scale=4):
    """small dyadic float (exact in binary64, exact through any text/binary codec)."""
    return r.randrange(lo, hi) / scale


def gen_container(r, f, rows, cols, flavour=None):
    n = rows * cols
    if f == "photon":
        mode = flavour or r.choice(["2d", "3d"])
        if mode.startswith("2d"):
            out = {"mode": "2d", "vals": [dy(r) for _ in range(n)]}
            if mode == "2d_narrow" or (flavour is None and r.random() < 0.25):
                out["dtype"] = r.choice(["float32", "float16"])       # Photon.TYPE_LIST; stored as an ndarray: kept
            return out
        nw = r.choice([1, 2, 3])
        wl = sorted(r.sample(range(300, 900, 25), nw))
        out = {"mode": "3d", "wl": wl, "vals": [dy(r) for _ in range(n * nw)]}
        if mode == "3d_narrow":       # known defect class: a DataArray goes through .to_dict(): the dtype is not stored
            out["dtype"] = r.choice(["float32", "float16"])
        if mode == "3d_attrs" or (flavour is None and r.random() < 0.3):
            out["attrs"] = gen_attrs(r)
            out["name"] = r.choice(["photon", "ph #1", None])
            out["wl_attrs"] = gen_attrs(r, 1)
        return out
    if f in ("pixel", "signal", "phase", "charge_array"):
        v = [dy(r, 1 if f == "charge_array" else 0) for _ in range(n)]
        if f != "charge_array" and (flavour == "narrow" or (flavour is None and r.random() < 0.25)):
            return {"dtype": r.choice(["float32", "float16"]), "vals": v}     # TYPE_LIST of Pixel / Signal / Phase
        return v
    if f == "image":
        dt = r.choice(["uint8", "uint16", "uint32", "uint64"])
        return {"dtype": dt, "vals": [r.randrange(0, 200) for _ in range(n)]}
    if f == "charge_frame":
        k = r.choice([1, 2, 3])
        cl = [[r.randrange(1, 9), 5.0 + 10 * r.randrange(rows), 5.0 + 10 * r.randrange(cols), dy(r)] for _ in range(k)]
        out = {"clusters": cl}
        if flavour == "relabel" or (flavour is None and k > 1 and r.random() < 0.25):
            if k == 1:
                cl.append([2, 5.0, 5.0, 0.0])
            out["remove"] = 0
        return out
    if f == "scene":
        srcs = []
        for _ in range(r.choice([1, 2])):
            nref = r.choice([1, 2])
            wl = sorted(r.sample(range(300, 900, 50), 2))
            srcs.append({"nref": nref, "wl": wl, "x": [dy(r) for _ in range(nref)], "y": [dy(r) for _ in range(nref)],
                         "weight": [dy(r) for _ in range(nref)], "flux": [dy(r) for _ in range(nref * 2)]})
        out = {"sources": srcs}
        if flavour and flavour.startswith("tree:"):
            parts = flavour.split(":")
            # the sources under /list carry their own `ref` / `wavelength` coordinates and variables named x / y: other
            # groups stay clear of those names (an inherited coordinate named like a variable of a sub-group shadows
            # it inside xarray's DataTree.to_dict - not a statement about pyxel's codec)
            out["tree"] = gen_tree(r, parts[1], avoid=("/list",), dims=["k", "time", "k k", "z z"])
            if parts[2:] == ["only"]:       # a scene that holds no source at all, only other groups
                out["sources"] = []
        return out
    if f == "data":
        if flavour and flavour.startswith("tree:"):
            return {"tree": gen_tree(r, flavour[5:])}
        nodes = []
        names = ["/stat", "/foo/bar", "/foo/baz", "/a_b/c-d"]
        if flavour == "hash":
            names = ["/a#b"]
        for p in r.sample(names, r.choice([1, min(2, len(names))])):
            nodes.append({"path": p, "vals": [dy(r) for _ in range(r.choice([1, 2, 3]))], "var": r.choice(["v", "mean"])})
        return {"nodes": nodes}
    raise ValueError(f)



# ---- trees (processed data `detector.data`, and extra groups of `detector.scene.data`) -----------------------------
# A tree spec is {"root": GROUP | None, "groups": [GROUP with "path"]}; GROUP = {"attrs", "vars", "coords"};
# a variable is {"name", "dims", "shape", "dtype", "vals", "attrs"} (harness/drivers/c18.py builds it with xarray).
# Dimension sizes are global per tree and an index coordinate of a dimension is defined in at most one group, so that
# every generated tree is a VALID DataTree (children align with what they inherit).

GROUP_NAMES = ["stat", "foo", "bar", "a_b", "c-d", "x.y", "0", "a b", "été", "snr", "prov", ".h", "Z", "list", "data"]
VAR_NAMES = ["v", "mean", "var", "v w", "k#", "µ", "flux", "_"]
DIM_NAMES = ["k", "time", "x", "y", "k k", "wavelength"]
DEFAULT_DTYPES = ["float64", "int64", "bool", "complex128", "str", "datetime64[us]"]      # survive Dataset.to_dict()
NARROW_DTYPES = ["int32", "uint8", "uint16", "int8", "uint64", "float32", "float16", "complex64", "datetime64[ns]",
                 "datetime64[s]"]
SPECIAL_FLOATS = ["nan", "inf", "-inf", "-0.0"]


def gen_vals(r, dt, n, special=False):
    if dt.startswith("float"):
        return [(r.choice(SPECIAL_FLOATS) if special and r.random() < 0.4 else dy(r, -32, 64)) for _ in range(n)]
    if dt.startswith("complex"):
        return [[dy(r, -8, 8), (r.choice(SPECIAL_FLOATS) if special and r.random() < 0.3 else dy(r, -8, 8))] for _ in range(n)]
    if dt == "bool":
        return [r.randrange(2) for _ in range(n)]
    if dt == "str":
        return [r.choice(["", "a", "ab", "x y", "#", "/", "é"]) for _ in range(n)]
    if dt.startswith("datetime64"):
        return [86400 * 10 ** 9 * r.randrange(0, 20000) for _ in range(n)]      # whole days: exact in every unit
    if dt.startswith("uint"):
        return [r.randrange(0, 100) for _ in range(n)]
    if dt == "int64":
        return [r.choice([r.randrange(-50, 50), 2 ** 53 + 1, -2 ** 62]) if r.random() < 0.1 else r.randrange(-50, 50) for _ in range(n)]
    return [r.randrange(-50, 50) for _ in range(n)]


def gen_attrs(r, k=None):
    pool = [("long_name", "Statistics"), ("units", "e-"), ("run_id", 42), ("scale", 0.25), ("flag", True), ("none", None),
            ("levels", [1, 2, 3]), ("mix", [1, 2.5, "s"]), ("empty", ""), ("a/b", 1), ("c#d", "x#y"), ("neg", -3),
            ("ü", "ä"), ("nested", [[1, 2], [3]]), ("title", "a 'quoted' \"name\"")]
    return dict(r.sample(pool, k if k is not None else r.choice([1, 1, 2, 3])))


class TreeGen:
    def __init__(self, r, dtypes=None, special=False, zero=False, dims=None):
        self.r, self.special = r, special
        self.dims = dims or DIM_NAMES
        self.dtypes = dtypes or DEFAULT_DTYPES
        self.size = {}
        self.indexed = set()
        self.zero = zero

    def dim(self, name):
        if name not in self.size:
            self.size[name] = self.r.choice([1, 2, 2, 3])
        return self.size[name]

    def var(self, name, dims, dtype=None, attrs=None):
        dtype = dtype or self.r.choice(self.dtypes)
        shape = [self.dim(d) for d in dims]
        n = 1
        for x in shape:
            n *= x
        return {"name": name, "dims": list(dims), "shape": shape, "dtype": dtype,
                "vals": gen_vals(self.r, dtype, n, self.special), "attrs": attrs or {}}

    def index_coord(self, d, attrs=None):
        """an index coordinate for dimension d (None if one exists already somewhere in the tree)."""
        if d in self.indexed:
            return None
        self.indexed.add(d)
        n = self.dim(d)
        dt = self.r.choice(["float64", "int64", "float64", "str"])
        start = self.r.randrange(0, 8)
        vals = {"float64": [start / 2 + i for i in range(n)], "int64": [start + 2 * i for i in range(n)],
                "str": [f"l{start + i}" for i in range(n)]}[dt]
        return {"name": d, "dims": [d], "shape": [n], "dtype": dt, "vals": vals, "attrs": attrs or {}}

    def group(self, path, kind):
        """kind: vars | coords_only | attrs_only | empty | mixed"""
        r = self.r
        g = {"path": path, "attrs": {}, "vars": [], "coords": []}
        if kind in ("vars", "mixed"):
            names = r.sample(VAR_NAMES, r.choice([1, 1, 2, 3]))
            for nm in names:
                nd = r.choice([0, 1, 1, 1, 2, 3]) if kind == "mixed" else r.choice([1, 1, 2])
                dims = r.sample(self.dims, nd)
                g["vars"].append(self.var(nm, dims, attrs=gen_attrs(r) if r.random() < 0.3 else None))
            for d in {d for v in g["vars"] for d in v["dims"]}:
                if r.random() < 0.5:
                    c = self.index_coord(d, gen_attrs(r, 1) if r.random() < 0.3 else None)
                    if c:
                        g["coords"].append(c)
            if r.random() < 0.25 and g["vars"] and g["vars"][0]["dims"]:
                d = g["vars"][0]["dims"][0]        # a non-index coordinate along an existing dimension, and a scalar one
                g["coords"].append(self.var("lab_" + d.replace(" ", ""), [d], dtype=r.choice(["str", "int64", "bool"])))
            if r.random() < 0.15:
                g["coords"].append(self.var("ref_value", [], dtype="float64", attrs=gen_attrs(r, 1)))
            if r.random() < 0.4:
                g["attrs"] = gen_attrs(r)
        elif kind == "coords_only":
            for d in r.sample(self.dims, r.choice([1, 1, 2])):
                c = self.index_coord(d, gen_attrs(r, 1) if r.random() < 0.4 else None)
                g["coords"].append(c if c else self.var("c_" + d.replace(" ", ""), [d], dtype="float64"))
            if r.random() < 0.5:
                g["attrs"] = gen_attrs(r)
        elif kind == "attrs_only":
            g["attrs"] = gen_attrs(r, r.choice([1, 2, 3]))
        return g


def rand_path(r, depth=None, under=None):
    depth = depth or r.choice([1, 1, 2, 2, 3, 4])
    return (under or "") + "/" + "/".join(r.choice(GROUP_NAMES) for _ in range(depth))


def gen_tree(r, flavour=None, avoid=(), dims=None):
    """A tree spec.  flavours: the structural classes named by the property (each is a separate, pure class so that a
    failure is attributed to ONE cause); None = random composition over default dtypes."""
    flavour = flavour or "random"
    tg = TreeGen(r, dims=dims)
    groups, root = [], None
    if flavour == "coord_only_parent":
        # a parent that only defines the coordinate shared by its sub-groups (+ attributes on it)
        p = "/" + r.choice(["stat", "foo", "a b"])
        d = r.choice(["time", "k"])
        par = {"path": p, "attrs": gen_attrs(r, 1) if r.random() < 0.6 else {}, "vars": [], "coords": [tg.index_coord(d, gen_attrs(r, 1))]}
        groups = [par, {"path": p + "/pix", "attrs": {}, "coords": [], "vars": [tg.var("mean", [d], "float64"), tg.var("var", [d], "float64")]},
                  {"path": p + "/sig", "attrs": {}, "coords": [], "vars": [tg.var("mean", [d, "x"], "float64")]}]
    elif flavour == "attr_only":
        groups = [tg.group(rand_path(r, r.choice([1, 2])), "attrs_only")]
        if r.random() < 0.5:
            groups.append(tg.group("/ctl", "vars"))
    elif flavour == "empty_leaf":
        groups = [tg.group("/a", "vars"), {"path": "/a/empty", "attrs": {}, "vars": [], "coords": []}]
        if r.random() < 0.5:
            groups.append({"path": "/lonely", "attrs": {}, "vars": [], "coords": []})
    elif flavour == "deep":
        groups = [tg.group(rand_path(r, r.choice([3, 4, 5])), r.choice(["vars", "attrs_only", "coords_only"]))]
    elif flavour == "root":
        root = tg.group("/", r.choice(["vars", "attrs_only", "coords_only", "mixed"]))
        groups = [tg.group("/child", r.choice(["vars", "empty"]))] if r.random() < 0.7 else []
    elif flavour == "var_attrs":
        g = tg.group("/a", "vars")
        for v in g["vars"]:
            v["attrs"] = gen_attrs(r)
        c = tg.index_coord(g["vars"][0]["dims"][0], gen_attrs(r, 2))
        if c:
            g["coords"].append(c)
        groups = [g]
    elif flavour == "names":
        g = tg.group("/" + r.choice(["a b", "été", ".h", "0", "x.y", "c-d"]) + "/" + r.choice(["a b", "été", "Z", "0"]), "vars")
        g["vars"].append(tg.var("", ["k k"], "float64"))
        g["vars"].append(tg.var("#", ["µ"], "float64"))
        groups = [g]
    elif flavour == "zero":
        tg.size["z"] = 0
        groups = [{"path": "/a", "attrs": {}, "coords": [], "vars": [tg.var("scalar", [], "float64"), tg.var("iscalar", [], "int64"),
                                                                     tg.var("bscalar", [], "bool"), tg.var("sscalar", [], "str"),
                                                                     tg.var("none", ["z"], "float64"), tg.var("one", ["o"], "float64"),
                                                                     tg.var("none2", ["k", "z"], "float64")]}]
    elif flavour == "dtypes":
        groups = [{"path": "/a", "attrs": {}, "coords": [], "vars": [tg.var("v_" + dt.split("[")[0], ["k"] if i % 2 else ["k", "x"], dt)
                                                                     for i, dt in enumerate(DEFAULT_DTYPES)]}]
    elif flavour == "special_floats":
        tg.special = True
        tg.size["k"] = 3
        groups = [{"path": "/a", "attrs": {}, "coords": [], "vars": [tg.var("v", ["k"], "float64"), tg.var("c", ["k"], "complex128")]}]
    elif flavour == "narrow_dtype":        # known defect class: the dtype of a variable is not stored
        dt = r.choice(NARROW_DTYPES)
        groups = [{"path": "/a", "attrs": {}, "coords": [], "vars": [tg.var("v", ["k"], dt)]}]
    elif flavour == "zero_len_nonfloat":   # same defect: [] carries no dtype
        tg.size["z"] = 0
        groups = [{"path": "/a", "attrs": {}, "coords": [], "vars": [tg.var("v", ["z"], r.choice(["int64", "bool", "str", "complex128"]))]}]
    elif flavour == "zero_size_nd":        # same defect: [] carries no shape either
        tg.size["z"] = 0
        groups = [{"path": "/a", "attrs": {}, "coords": [], "vars": [tg.var("v", r.choice([["z", "k"], ["z", "k", "x"], ["k", "z", "x"]]), "float64")]}]
    elif flavour == "shared_dims":
        d = r.choice(["time", "k"])
        par = tg.group("/p", "vars")
        par["vars"].append(tg.var("pv", [d], "float64"))
        c = tg.index_coord(d)
        if c:
            par["coords"].append(c)
        groups = [par, {"path": "/p/c", "attrs": {}, "coords": [], "vars": [tg.var("cv", [d, "x"], "float64"), tg.var("cw", ["x", d], "int64")]},
                  {"path": "/p/c/gc", "attrs": {}, "coords": [], "vars": [tg.var("gv", [d], "bool")]}]
    elif flavour == "dim_order":
        groups = [{"path": "/a", "attrs": {}, "coords": [], "vars": [tg.var("v", ["x", "y"], "float64"), tg.var("w", ["y", "x"], "float64"),
                                                                     tg.var("u", ["y", "k", "x"], "int64")]}]
    elif flavour == "hash":
        groups = [tg.group("/a#b", "vars")]
    else:       # random composition
        paths = []
        for _ in range(r.choice([1, 2, 3, 4])):
            pth = rand_path(r, under=r.choice(paths) if paths and r.random() < 0.4 else None)
            if pth not in paths:
                paths.append(pth)
        for pth in paths:
            groups.append(tg.group(pth, r.choice(["vars", "vars", "mixed", "coords_only", "attrs_only", "empty"])))
        if r.random() < 0.3:
            root = tg.group("/", r.choice(["attrs_only", "vars", "coords_only"]))
    if avoid:
        groups = [g for g in groups if not any(g["path"] == a or g["path"].startswith(a + "/") for a in avoid)]
    for g in ([root] if root else []) + groups:
        g["coords"] = [c for c in g["coords"] if c]
    return {"flavour": flavour, "root": root, "groups": groups}


TREE_FLAVOURS = ["coord_only_parent", "attr_only", "empty_leaf", "deep", "root", "var_attrs", "names", "zero", "dtypes",
                 "special_floats", "shared_dims", "dim_order", "random"]
TREE_DEFECT_FLAVOURS = ["narrow_dtype", "zero_len_nonfloat", "zero_size_nd"]


def tree_vars(tree):
    for g in ([tree["root"]] if tree.get("root") else []) + list(tree.get("groups", [])):
        for v in list(g.get("vars", [])) + list(g.get("coords", [])):
            yield g, v


def tree_class(tree):
    """the input class of a tree spec, w.r.t. the classes for which the unchanged codec is known to lose something."""
    if any("#" in g["path"] for g in tree.get("groups", [])):
        return "hash_in_group_name"
    # a length-0 dimension that is not the last one: the nested list has fewer levels than the variable has dims
    if any(0 in v["shape"] and v["shape"].index(0) < len(v["shape"]) - 1 for _, v in tree_vars(tree)):
        return "tree_zero_size_nd"
    if any(v["dtype"] not in DEFAULT_DTYPES or (0 in v["shape"] and v["dtype"] != "float64") for _, v in tree_vars(tree)):
        return "tree_dtype_not_default"
    return "plain"


def fields_of(kind):
    return [f for f in FIELDS if f != "phase" or kind == "mkid"]


def gen_props(r):
    pr = {}
    if r.random() < 0.8:
        pr["temperature"] = float(r.randrange(20, 600)) / 2
    if r.random() < 0.4:
        pr["wavelength"] = r.choice([float(r.randrange(300, 900)), [300.0 + 50 * r.randrange(4), 600.0 + 50 * r.randrange(4), 25.0 * r.randrange(1, 4)]])
    if r.random() < 0.5:
        pr["pixel_vert_size"] = 10.0
        pr["total_thickness"] = float(r.randrange(10, 200)) / 2
    if r.random() < 0.3:
        pr["pixel_scale"] = dy(r, 1)
    if r.random() < 0.5:
        pr["quantum_efficiency"] = r.randrange(0, 5) / 4
        pr["full_well_capacity"] = r.randrange(1, 100000)
        pr["adc_bit_resolution"] = r.randrange(4, 33)
        pr["adc_voltage_range"] = [dy(r, 0, 8), 2.0 + dy(r, 1, 40)]
    return pr


def make_spec(r, kind, present, flavours=None, dims=None, props=None):
    rows, cols = dims or r.choice([(2, 3), (1, 1), (3, 2), (2, 2)])
    flavours = flavours or {}
    init = {}
    for f in present:
        init[f] = gen_container(r, f, rows, cols, flavours.get(f))
    return {"kind": kind, "rows": rows, "cols": cols, "props": gen_props(r) if props is None else props, "init": init}


def structured_cases(ctx: Ctx, r):
    cases = []
    for kind in KINDS:
        fs = fields_of(kind)
        for route in ("dict", "asdf"):
            cases.append({"route": route, "spec": make_spec(r, kind, [])})
            cases.append({"route": route, "spec": make_spec(r, kind, fs, {"photon": "3d"})})
            cases.append({"route": route, "spec": make_spec(r, kind, fs, {"photon": "2d"})})
            for f in fs:
                for fl in ({"photon": ["2d", "3d", "2d_narrow", "3d_narrow", "3d_attrs"], "pixel": [None, "narrow"],
                            "signal": [None, "narrow"], "phase": [None, "narrow"]}.get(f, [None])):
                    cases.append({"route": route, "spec": make_spec(r, kind, [f], {f: fl} if fl else None)})
            # array + cluster table together, relabelled rows, '#' in a processed-data group name
            cases.append({"route": route, "spec": make_spec(r, kind, ["charge_array", "charge_frame"])})
            cases.append({"route": route, "spec": make_spec(r, kind, ["charge_frame"], {"charge_frame": "relabel"})})
            cases.append({"route": route, "spec": make_spec(r, kind, ["data"], {"data": "hash"})})
            # trees: every structural class the property text names, for the processed data and for the scene
            allfl = TREE_FLAVOURS + TREE_DEFECT_FLAVOURS
            for j, fl in enumerate(allfl):
                # the variable-less-group classes for every (type, route); the other classes alternate over (type, route)
                if fl in ("coord_only_parent", "attr_only", "empty_leaf", "root") or ctx.tier != "quick" \
                        or (j + KINDS.index(kind) + (route == "dict")) % 2 == 0:
                    cases.append({"route": route, "spec": make_spec(r, kind, ["data"], {"data": "tree:" + fl})})
            for fl in ("coord_only_parent", "attr_only", "empty_leaf", "random", "root", "narrow_dtype"):
                cases.append({"route": route, "spec": make_spec(r, kind, ["scene"], {"scene": "tree:" + fl + (":only" if fl in ("attr_only", "root") else "")})})
        # the explicit entry points
        cases.append({"route": "asdf", "save": "to_asdf", "load": "from_asdf", "spec": make_spec(r, kind, fs[:4])})
        cases.append({"route": "asdf", "load": "class_load", "spec": make_spec(r, kind, fs[:4])})
    return cases


def random_cases(ctx: Ctx, r, n):
    cases = []
    for i in range(n):
        kind = KINDS[i % 4]
        fs = fields_of(kind)
        present = [f for f in fs if r.random() < 0.5]
        fl = {}
        if "data" in present:
            u = r.random()
            fl["data"] = "hash" if u < 0.06 else ("tree:" + r.choice(TREE_FLAVOURS + ["random"] * 4) if u < 0.8 else None)
        if "scene" in present and r.random() < 0.5:
            fl["scene"] = "tree:" + r.choice(["random", "random", "attr_only", "coord_only_parent", "empty_leaf", "deep"])
        cases.append({"route": "asdf" if i % 3 else "dict", "spec": make_spec(r, kind, present, fl)})
    return cases


def exhaustive_cases(ctx: Ctx, r):
    """every subset of initialised containers (photon: none / 2-D / 3-D), every type, both routes."""
    cases = []
    for kind in KINDS:
        fs = [f for f in fields_of(kind) if f != "photon"]
        for ph in (None, "2d", "3d"):
            for mask in itertools.product([0, 1], repeat=len(fs)):
                present = [f for f, m in zip(fs, mask) if m] + (["photon"] if ph else [])
                # the .asdf route exercises the whole chain (to_dict, backend, from_dict) for every type; the
                # dictionary route (which isolates pyxel's own key handling) is enumerated on the type with
                # the most containers
                for route in (("dict", "asdf") if kind == "mkid" else ("asdf",)):
                    cases.append({"route": route, "exhaustive": True,
                                  "spec": make_spec(r, kind, present, {"photon": ph, "charge_frame": "plain"} if ph else {"charge_frame": "plain"},
                                                    dims=(2, 2), props={})})
    return cases


def exhaustive_tree_cases(ctx: Ctx, r):
    """every tree over the paths {/a, /b, /a/x, /a/x/y} (every non-empty subset; a missing intermediate group is then
    an implied, empty one) with every assignment of a content class {variables, coordinates only, attributes only,
    nothing} to its groups: (1+4)^4 - 1 = 624 trees, as processed data via .asdf (types in turn) and, for the
    deepest ones, as scene groups via the dictionary."""
    cases = []
    paths = ["/a", "/b", "/a/x", "/a/x/y"]
    kinds = [None, "vars", "coords_only", "attrs_only", "empty"]
    n = 0
    for combo in itertools.product(kinds, repeat=len(paths)):
        if not any(combo):
            continue
        tg = TreeGen(r, dims=["k", "time", "k k"])
        groups = [tg.group(pth, kd) for pth, kd in zip(paths, combo) if kd]
        for g in groups:
            g["coords"] = [c for c in g["coords"] if c]
        tree = {"flavour": "exhaustive", "root": None, "groups": groups}
        kind = KINDS[n % 4]
        n += 1
        spec = make_spec(r, kind, [], dims=(2, 2), props={})
        spec["init"] = {"data": {"tree": tree}}
        cases.append({"route": "asdf", "exhaustive": True, "spec": spec})
        if combo[3] and not combo[1]:
            spec2 = make_spec(r, kind, [], dims=(2, 2), props={})
            spec2["init"] = {"scene": {"sources": [], "tree": tree}}
            cases.append({"route": "dict", "exhaustive": True, "spec": spec2})
    return cases


def pipeline_cases(ctx: Ctx, r, per_kind):
    cases = []
    groups = ["photon_collection", "charge_generation", "charge_collection", "charge_measurement", "readout_electronics"]
    for kind in KINDS:
        fs = fields_of(kind)
        for j in range(per_kind):
            dims = r.choice([(2, 3), (2, 2)])
            present = fs if j == 0 else ([f for f in fs if r.random() < 0.6] or ["pixel"])
            filespec = make_spec(r, kind, present, {"charge_frame": "plain", "photon": r.choice(["2d", "3d"])}, dims=dims, props={})
            running = make_spec(r, kind, [f for f in fs if r.random() < 0.4], {"charge_frame": "plain"}, dims=dims, props={})
            case = {"route": "pipeline", "spec": filespec, "running": running, "probe_before": True,
                    "group": groups[(j + 2 * KINDS.index(kind)) % len(groups)]}
            if j % 2 == 1 or j == 0:
                # save_detector as a MODEL (in any group) writes the file; the loading pipeline first fills its detector
                case.update(save="model", save_group=groups[(j + KINDS.index(kind)) % len(groups)], fill_running=True)
            if j % 2 == 0:
                # the model is executed in several readout steps of one exposure (the same unchanged file is loaded again
                # after the detector was emptied): the LAST probe / the final state must still show the file's content
                case["times"] = [1.0, 2.0] if j else [1.0, 2.0, 3.0]
            cases.append(case)
            if j == 0:
                cases.append(dict(case, save=None, fill_running=True))
    return cases


# ------------------------------------------------------------------------------------------ Coq emission


def c_arr(a):
    return (f"(mk_arr {core.cstr(a['dt'])} {core.clist(core.cz(int(x)) for x in a['sh'])} "
            f"{core.clist(core.cz(int(x)) for x in a['v'])})")


def _lab(s: str) -> str:
    return core.cstr("".join(ch if 32 <= ord(ch) < 127 else "?" for ch in s))


def c_items(it):
    return core.clist(f"({_lab(k)}, {c_arr(a)})" for k, a in it)


def c_payload(p):
    if p["k"] == "arr":
        return f"(PArr {c_arr(p['a'])})"
    if p["k"] == "keyed":
        return "(PKeyed " + core.clist(f"({_lab(k)}, {c_items(it)})" for k, it in p["m"]) + ")"
    if p["k"] == "frame":
        return f"(PFrame {core.clist(core.cz(int(i)) for i in p['i'])} {c_items(p['c'])})"
    raise ValueError(p)


def c_snap(s):
    cont = core.clist(f"({CF[f]}, {c_payload(p)})" for f, p in s["containers"].items() if p is not None)
    return (f"(mk_snap {CK[s['type']]} {c_items(s['geometry'])} {c_items(s['environment'])} "
            f"{c_items(s['characteristics'])} {cont})")


def coq_cases(payload, obs):
    """[(label, coq text)] for one driver result."""
    out = []
    if payload["route"] in ("dict", "asdf"):
        back = obs["back"]
        b = "None" if "raise" in back else f"(Some {c_snap(back)})"
        rt = "RDict" if payload["route"] == "dict" else "RFile"
        out.append(("roundtrip", f"(mk_case {rt} {c_snap(obs['orig'])} None {b})"))
    else:
        for lab in ("seen", "final"):
            b = obs.get(lab)
            bb = "None" if b is None else f"(Some {c_snap(b)})"
            run = obs.get("before")
            rr = "None" if run is None else f"(Some {c_snap(run)})"
            out.append((lab, f"(mk_case RLoad {c_snap(obs['file'])} {rr} {bb})"))
        if "file_back" in obs:      # the file written by the save_detector model, read back outside any pipeline
            fb = obs["file_back"]
            out.append(("file", f"(mk_case RFile {c_snap(obs['file'])} None {'None' if 'raise' in fb else '(Some ' + c_snap(fb) + ')'})"))
    return out


def c_dtree(t):
    return f"(DNode {c_items(t['items'])} {core.clist('(' + _lab(n) + ', ' + c_dtree(c) + ')' for n, c in t['children'])})"


def tree_units(payload, obs):
    """[(label, coq text)]: the nested view of the data / scene tree, the keys to_dict wrote, what came back."""
    out = []
    for name, tr in sorted((obs.get("trees") or {}).items()):
        if not tr["orig"]["items"] and not tr["orig"]["children"]:
            continue        # a tree that is only an empty root
        back = "None" if tr["back"] is None else f"(Some {c_dtree(tr['back'])})"
        out.append((name, f"(mk_tcase {c_dtree(tr['orig'])} {core.clist(_lab(k) for k in tr['keys'])} {back})"))
    return out


def emit_tree_file(texts) -> str:
    body = ";\n  ".join(texts)
    return ("From Coq Require Import ZArith List String.\nFrom PyxelV Require Import Model.Codec Model.CodecTree.\n"
            "Import ListNotations.\nOpen Scope string_scope.\n"
            f"Definition tcases : list tree_case := [\n  {body}\n].\n"
            "Eval vm_compute in tree_mismatches slash hash tcases.\n"
            "Eval vm_compute in tree_violations tcases.\n")


def emit_file(texts) -> str:
    body = ";\n  ".join(texts)
    return ("From Coq Require Import ZArith List String.\nFrom PyxelV Require Import Model.Codec.\n"
            "From PyxelGen Require Import Gen_C18.\nImport ListNotations.\nOpen Scope string_scope.\n"
            f"Definition cases : list codec_case := [\n  {body}\n].\n"
            "Eval vm_compute in mismatches src_tables cases.\n"
            "Eval vm_compute in violations cases.\n")


# ------------------------------------------------------------------------------------------ classification


def diff_fields(o, b):
    """Python-side description of a violating case (signature / report only; the decision was taken in Coq)."""
    out = []
    if o["type"] != b["type"]:
        out.append(("type", f"changed:{o['type']}->{b['type']}", None))
    for k in ("geometry", "environment", "characteristics"):
        if o[k] != b[k]:
            names = sorted({x[0] for x in o[k] if x not in b[k]} | {x[0] for x in b[k] if x not in o[k]})
            out.append((k, "changed", ",".join(names)[:80]))
    for f in FIELDS:
        x, y = o["containers"].get(f), b["containers"].get(f)
        if x == y:
            continue
        if y is None:
            out.append((f, "lost", None))
        elif x is None:
            out.append((f, "gained", None))
        else:
            aspect = None
            if f == "charge_frame" and x["c"] == y["c"] and x["i"] != y["i"]:
                aspect = "row_labels_only"
            if x["k"] == "keyed" and y["k"] == "keyed":
                aspect = keyed_aspect(x["m"], y["m"])
            out.append((f, "changed", aspect))
    return out


def _dt_class(dt):
    """the dtype a list of Python numbers comes back with (what is left of a dtype when only the values are stored)."""
    import re

    if re.fullmatch(r"u?int\d+", dt):
        return "int64"
    if re.fullmatch(r"float\d+", dt):
        return "float64"
    if re.fullmatch(r"complex\d+", dt):
        return "complex128"
    if dt.startswith("datetime64"):
        return "datetime64"
    return dt


def keyed_aspect(xm, ym):
    """How two path -> items maps differ (report / signature only; the verdict was computed in Coq):
    groups_lost | groups_gained | group_content_lost (an entry of a group that is still there is gone) |
    dtype_only (same names, dims, shapes and values; only dtype names differ, each within its value class, or a
    zero-length variable came back float64) | content_changed | mixed."""
    X, Y = {k: v for k, v in xm}, {k: v for k, v in ym}
    kinds = set()
    if set(X) - set(Y):
        kinds.add("groups_lost")
    if set(Y) - set(X):
        kinds.add("groups_gained")
    for k in set(X) & set(Y):
        if X[k] == Y[k]:
            continue
        a, b = {lab: arr for lab, arr in X[k]}, {lab: arr for lab, arr in Y[k]}
        if set(a) - set(b):
            kinds.add("group_content_lost")
        if set(b) - set(a):
            kinds.add("group_content_gained")
        for lab in set(a) & set(b):
            u, v = a[lab], b[lab]
            if u == v:
                continue
            same_vals = u["sh"] == v["sh"] and u["v"] == v["v"]
            if same_vals and (_dt_class(u["dt"]) == _dt_class(v["dt"]) or (0 in u["sh"] and v["dt"] == "float64")):
                kinds.add("dtype_only")
            else:
                kinds.add("content_changed")
    if len(kinds) == 1:
        return next(iter(kinds))
    return "mixed:" + "+".join(sorted(kinds)) if kinds else None


def input_class(payload, f):
    init = payload["spec"].get("init", {})
    if f == "data" and any("#" in n["path"] for n in (init.get("data") or {}).get("nodes", [])):
        return "hash_in_group_name"
    if f in ("data", "scene") and (init.get(f) or {}).get("tree"):
        return tree_class(init[f]["tree"])
    if f == "*":        # the whole reload failed: the first non-plain class among the initialised containers
        for g in ("data", "scene", "charge_frame", "photon"):
            if init.get(g) is not None:
                c = input_class(payload, g)
                if c != "plain" and not c.startswith("photon_"):
                    return c
        return "plain"
    if f == "charge_frame" and (init.get("charge_frame") or {}).get("remove") is not None:
        return "relabelled_rows"
    if f == "photon" and init.get("photon"):
        if init["photon"]["mode"] == "3d" and init["photon"].get("dtype", "float64") != "float64":
            return "tree_dtype_not_default"
        return "photon_" + init["photon"]["mode"]
    return "plain"


def shrink_payload(payload, f):
    """Only the offending container initialised (plus what it cannot exist without)."""
    p = json.loads(json.dumps(payload))
    init = p["spec"].get("init", {})
    if f in init:
        p["spec"]["init"] = {f: init[f]}
    p.pop("exhaustive", None)
    return p


def violations_of(ctx, payload, obs, label):
    vs = []
    kind = payload["spec"]["kind"]
    if label == "file":       # pipeline case, the file written by the save_detector model: an .asdf round trip
        vs = violations_of(ctx, dict(payload, route="asdf"), {"orig": obs["file"], "back": obs["file_back"]}, "roundtrip")
        for v in vs:
            v.sig["written_by"] = "save_detector_model"
            v.case = payload
            v._full = payload
        return vs
    if payload["route"] in ("dict", "asdf"):
        back = obs["back"]
        if "raise" in back:
            sig = dict(clause="roundtrip", kind=kind, route=payload["route"], field="*", effect="raises:" + back["raise"],
                       input_class=input_class(payload, "*"), stage=back.get("stage", "?"))
            v = Violation("roundtrip", payload, back, "the saved detector",
                          f"{kind} via {payload['route']}: {back.get('stage', 'save/load')} raises {back['raise']}: {back.get('msg', '')}", sig)
            vs.append(v)
            return vs
        for f, effect, aspect in diff_fields(obs["orig"], back):
            sig = dict(clause="roundtrip", kind=kind, route=payload["route"], field=f, effect=effect,
                       input_class=input_class(payload, f))
            if aspect:
                sig["aspect"] = aspect
            o = obs["orig"]["containers"].get(f) if f in FIELDS else obs["orig"].get(f)
            b = back["containers"].get(f) if f in FIELDS else back.get(f)
            v = Violation("roundtrip", shrink_payload(payload, f) if f in FIELDS else payload,
                          dict(field=f, reloaded=b), dict(field=f, original=o),
                          f"{kind} via {payload['route']}: {f} {effect}" + (f" ({aspect})" if aspect else ""), sig)
            v._full = payload
            vs.append(v)
        if not vs:
            vs.append(Violation("roundtrip", payload, "differs (Coq)", "the saved detector", f"{kind} via {payload['route']}: unclassified difference",
                                dict(clause="roundtrip", kind=kind, route=payload["route"], field="?", effect="unclassified")))
        return vs
    # pipeline
    got = obs.get(label)
    if got is None:
        sig = dict(clause="load_replaces", kind=kind, effect="probe_not_reached")
        return [Violation("load_replaces", payload, obs.get("error"), "the file's containers", f"{kind}: pipeline with load_detector failed: {obs.get('error')}", sig)]
    diffs = [(f, e) for f, e, _ in diff_fields(dict(obs["file"], type=got["type"], geometry=got["geometry"], environment=got["environment"],
                                                    characteristics=got["characteristics"]), got)]
    noop = obs.get("before") is not None and got["containers"] == obs["before"]["containers"]
    sig = dict(clause="load_replaces", kind=kind, effect="running_detector_unchanged" if noop else "partly_replaced",
               observed_at=label)
    if not noop:
        sig["fields"] = ",".join(sorted(f for f, _ in diffs))
    vs.append(Violation("load_replaces", payload,
                        dict(differing=[f"{f}:{e}" for f, e in diffs], result_buckets_match_file=obs.get("result_matches_file")),
                        "every container the later model sees equals the file's",
                        f"{kind}: after load_detector ({payload.get('group')}) a later model sees "
                        + ("exactly the state it had before the load" if noop else "a state different from the file's")
                        + f" ({label}); differing: {[f for f, _ in diffs]}", sig))
    return vs


def result_matches_file(obs):
    """supplementary (Python-side): the arrays of the returned result vs. the file's arrays (values only)."""
    rb = obs.get("result_buckets") or {}
    fc = obs["file"]["containers"]
    ok = True
    for b, f in (("pixel", "pixel"), ("signal", "signal"), ("image", "image"), ("charge", "charge_array")):
        want = fc.get(f)
        got = rb.get(b)
        if want is None:
            continue
        if got is None:
            ok = False
            continue
        import struct

        def val(a):
            if a["dt"].startswith("float"):
                return [struct.unpack(">d", struct.pack(">q", x))[0] for x in a["v"]]
            return [float(x) for x in a["v"]]
        if val(got) != val(want["a"]):
            ok = False
    return ok


# ------------------------------------------------------------------------------------------ legs


def correspondence(ctx: Ctx, payloads, tag="c"):
    obs = core.run_driver(ctx, "c18", payloads, workers=8, timeout=1500)
    # a crashed/timed-out worker (machine load) is retried once, one payload per process
    redo = [i for i, o in enumerate(obs) if "crash" in o]
    if redo:
        again = core.run_driver(ctx, "c18", [payloads[i] for i in redo], workers=8, timeout=600, chunk=4)
        for i, o in zip(redo, again):
            obs[i] = o
    units = []  # (payload, obs, label, coq text)
    invalid = [p for p, o in zip(payloads, obs) if "invalid_spec" in o]
    ctx.count("generated_trees_rejected_by_xarray", len(invalid))
    if len(invalid) > max(3, len(payloads) // 20):
        ctx.broken.append(Broken("correspondence", "tree generator: too many specs are not valid DataTrees",
                                 f"{len(invalid)} of {len(payloads)}", invalid[0]))
    for p, o in zip(payloads, obs):
        if "invalid_spec" in o:
            continue
        if "crash" in o or "driver_error" in o:
            ctx.broken.append(Broken("correspondence", "implementation driver failed", str(o)[:600], p))
            continue
        if p["route"] == "pipeline":
            if "file" not in o:
                ctx.broken.append(Broken("correspondence", "pipeline case could not be set up", str(o)[:400], p))
                continue
            if "error" in o and o.get("seen") is None:
                o["seen"] = None
                o["final"] = None
            o["result_matches_file"] = result_matches_file(o) if "result_buckets" in o else None
        for lab, txt in coq_cases(p, o):
            units.append((p, o, lab, txt))
    per = 30
    files = {f"{tag}_{k // per:03d}": emit_file([u[3] for u in units[k:k + per]]) for k in range(0, len(units), per)}
    # the nested view of every data / scene tree against Model/CodecTree.v (flattening + escaping, rebuilding)
    tunits = [(p, o, lab, txt) for p, o in zip(payloads, obs) if isinstance(o, dict) and o.get("trees")
              for lab, txt in tree_units(p, o)]
    tper = 60
    tfiles = {f"{tag}t_{k // tper:03d}": emit_tree_file([u[3] for u in tunits[k:k + tper]]) for k in range(0, len(tunits), tper)}
    files.update(tfiles)
    res = core.coq_eval_many(ctx, files, timeout=900, par=8)
    for name in sorted(files):
        if not res[name][0] or len(res[name][1]) != 2:      # retry once, alone
            res[name] = core.coq_eval(ctx, name, files[name], 900)
    ctx.cov["tree_cases_note"] = ("tree_cases = data / scene trees compared in their NESTED form against Model/CodecTree.v "
                                  "(keys written by to_dict = flatten + escape; rebuilt tree = unescape + nest)")
    mism, viol = [], []
    for k, name in enumerate(sorted(tfiles)):
        ok, evals, se = res[name]
        chunk = tunits[k * tper:(k + 1) * tper]
        if not ok or len(evals) != 2:
            ctx.broken.append(Broken("correspondence", f"case file {name}.v did not evaluate", core.tail(se, 15)))
            continue
        for i in core.parse_int_list(evals[0]):
            p, o, lab, _ = chunk[i]
            ctx.broken.append(Broken("correspondence", "Model/CodecTree.v (flattening / nesting of a DataTree) vs implementation",
                                     f"{p['route']} {p['spec']['kind']}: the {lab} tree: keys written {o['trees'][lab]['keys']}", p))
        ctx.count("tree_cases", len(chunk))
        ctx.cov["tree_spec_violations"] = ctx.cov.get("tree_spec_violations", 0) + len(core.parse_int_list(evals[1]))
    for name in tfiles:
        files.pop(name)
    for k, name in enumerate(sorted(files)):
        ok, evals, se = res[name]
        chunk = units[k * per:(k + 1) * per]
        if not ok or len(evals) != 2:
            ctx.broken.append(Broken("correspondence", f"case file {name}.v did not evaluate", core.tail(se, 15)))
            continue
        mism += [chunk[i] for i in core.parse_int_list(evals[0])]
        viol += [chunk[i] for i in core.parse_int_list(evals[1])]
    return units, mism, viol


def nontrivial_key(p):
    init = p["spec"].get("init", {})
    trees = tuple(json.dumps((init.get(f) or {}).get("tree"), sort_keys=True) if isinstance(init.get(f), dict) else None
                  for f in ("data", "scene"))
    return (p["route"], p["spec"]["kind"], tuple(sorted(init)), (init.get("photon") or {}).get("mode"), trees)


def account(ctx, units):
    seen = ctx.cov.setdefault("_keys", set())
    for p, o, lab, _ in units:
        if lab in ("final", "file"):
            continue
        ctx.count("evaluations")
        if p["route"] == "pipeline":
            ctx.dist("pipeline_file_written_by", "save_detector model" if p.get("save") == "model" else "Detector.save")
            ctx.dist("pipeline_group", p.get("group"))
            ctx.dist("pipeline_readout_steps", len(p.get("times") or [1.0]))
        ctx.dist("route", p["route"])
        ctx.dist("kind", p["spec"]["kind"])
        ctx.dist("n_initialised", len(p["spec"].get("init", {})))
        for f in p["spec"].get("init", {}):
            ctx.dist("container", f + (":" + p["spec"]["init"][f]["mode"] if f == "photon" else ""))
            if isinstance(p["spec"]["init"][f], dict) and f in ("photon", "pixel", "signal", "phase", "image"):
                ctx.dist("array_dtype", f + ":" + p["spec"]["init"][f].get("dtype", "float64" if f != "image" else "uint16"))
            tr = (p["spec"]["init"][f] or {}).get("tree") if f in ("data", "scene") else None
            if tr:
                ctx.dist("tree_flavour", f + ":" + tr.get("flavour", "?"))
                gs = ([tr["root"]] if tr.get("root") else []) + tr["groups"]
                ctx.dist("tree_depth", max([g["path"].count("/") for g in tr["groups"]] + [0]))
                for g in gs:
                    ctx.dist("tree_group_kind", "vars" if g["vars"] else "coords_only" if g["coords"] else
                             "attrs_only" if g["attrs"] else "empty")
                for _, v in tree_vars(tr):
                    ctx.dist("tree_var_dtype", v["dtype"])
                    ctx.dist("tree_var_ndim", len(v["shape"]))
        if p["spec"].get("init"):
            seen.add(nontrivial_key(p))


def process(ctx, units, mism, viol):
    for p, o, lab, _ in viol:
        if p["route"] == "pipeline" and lab == "final" and any(q is p and l2 == "seen" for q, _, l2, _ in viol):
            continue  # same defect already reported at the probe
        ctx.violations += violations_of(ctx, p, o, lab)
    confirm_shrunk(ctx)
    # a supplementary Python-side observation on the pipeline route: result vs file
    for p, o, lab, _ in units:
        if p["route"] == "pipeline" and lab == "seen" and o.get("result_matches_file") is False \
                and not any(q is p for q, _, _, _ in viol):
            ctx.violations.append(Violation("load_result", p, o.get("result_buckets"), "the file's arrays",
                                            "the returned result does not contain the loaded arrays",
                                            dict(clause="load_result", kind=p["spec"]["kind"])))
    for p, o, lab, _ in mism:
        ctx.broken.append(Broken("correspondence", "Model/Codec.v (generated tables) vs implementation",
                                 f"model and implementation differ: {p['route']} {p['spec']['kind']} "
                                 f"init={sorted(p['spec'].get('init', {}))} ({lab})", p))


def confirm_shrunk(ctx: Ctx):
    """The shrunk case (only the offending container initialised) is kept only if it still fails the same way
    on the implementation; otherwise the violation keeps the full case it was found on."""
    todo, seen = [], set()
    for v in ctx.violations:
        full = getattr(v, "_full", None)
        if full is None or v.case == full:
            continue
        key = json.dumps(v.sig, sort_keys=True)
        if key in seen:
            v.case = full
            continue
        seen.add(key)
        todo.append(v)
    if not todo:
        return
    obs = core.run_driver(ctx, "c18", [v.case for v in todo], workers=8)
    for v, o in zip(todo, obs):
        f = v.sig.get("field")
        still = ("back" in o and "raise" not in o["back"]
                 and any(x[0] == f and x[1] == v.sig.get("effect") for x in diff_fields(o["orig"], o["back"])))
        if not still:
            v.case = v._full
    shrink_trees(ctx)


def _tree_candidates(tree):
    """smaller trees: one group removed (only a group without descendants in the spec), the root removed, one
    variable / coordinate removed, the attributes of one group / variable removed."""
    out = []
    paths = [g["path"] for g in tree["groups"]]
    for i, g in enumerate(tree["groups"]):
        if not any(q != g["path"] and q.startswith(g["path"] + "/") for q in paths):
            out.append(dict(tree, groups=tree["groups"][:i] + tree["groups"][i + 1:]))
    if tree.get("root"):
        out.append(dict(tree, root=None))
    gs = [("root", None)] if tree.get("root") else []
    gs += [("groups", i) for i in range(len(tree["groups"]))]
    for where, i in gs:
        g = tree["root"] if where == "root" else tree["groups"][i]

        def put(ng, where=where, i=i):
            if where == "root":
                return dict(tree, root=ng)
            return dict(tree, groups=tree["groups"][:i] + [ng] + tree["groups"][i + 1:])
        for kind in ("vars", "coords"):
            for j in range(len(g[kind])):
                out.append(put(dict(g, **{kind: g[kind][:j] + g[kind][j + 1:]})))
                if g[kind][j].get("attrs"):
                    out.append(put(dict(g, **{kind: g[kind][:j] + [dict(g[kind][j], attrs={})] + g[kind][j + 1:]})))
        if len(g.get("attrs") or {}) > 0 and (g["vars"] or g["coords"] or len(g["attrs"]) > 1):
            keys = list(g["attrs"])
            out.append(put(dict(g, attrs={k: g["attrs"][k] for k in keys[1:]})))
    return out


def shrink_trees(ctx: Ctx, rounds=6, width=24):
    """Greedy minimisation of the tree of a NEW violation (not a known finding): keep removing groups, variables,
    coordinates and attributes while the implementation still fails in the same way (same field, effect, aspect).
    A candidate that can no longer be built (a child that needs the coordinate of a removed parent) is skipped.
    All violations are shrunk together: one driver batch per round."""
    fs = core.load_findings(ctx.prop)
    active, done = [], set()
    for v in ctx.violations:
        f = v.sig.get("field")
        if v.clause != "roundtrip" or f not in ("data", "scene") or any(core.finding_matches(e, v) for e in fs):
            continue
        key = json.dumps(v.sig, sort_keys=True)
        if key in done or len(done) >= 5:
            continue
        done.add(key)
        active.append([v, v.case])
    for _ in range(rounds):
        batch = []      # (index into active, candidate case)
        for i, (v, case) in enumerate(active):
            f = v.sig["field"]
            tree = ((case["spec"].get("init") or {}).get(f) or {}).get("tree")
            for t in (_tree_candidates(tree)[:width] if tree else []):
                c = json.loads(json.dumps(case))
                c["spec"]["init"][f]["tree"] = t
                batch.append((i, c))
        if not batch:
            break
        obs = core.run_driver(ctx, "c18", [c for _, c in batch], workers=4, timeout=300)
        moved = set()
        for (i, c), o in zip(batch, obs):
            v = active[i][0]
            if i in moved or "back" not in o or "raise" in o["back"]:
                continue
            if any(x[0] == v.sig["field"] and x[1] == v.sig.get("effect") and x[2] == v.sig.get("aspect")
                   for x in diff_fields(o["orig"], o["back"])):
                active[i][1] = c
                moved.add(i)
        if not moved:
            break
    for v, case in active:
        if case is not v.case:
            if not hasattr(v, "_full"):
                v._full = v.case
            v.case = case


def run(ctx: Ctx):
    from translator import c18 as tr

    ctx.trusted += TRUSTED
    ctx.assumptions += [
        "ASDF only: h5py is not installed in this image, the HDF5 backend (to_hdf5/from_hdf5) cannot be exercised",
        "container contents are small dyadic numbers / small integers on 1x1..3x2 detectors",
        "charge is compared through its public observables (.array, .frame); Charge.nextid and the detector's "
        "_memory/_intermediate/persistence/readout state are outside the property's list and are not compared",
    ]
    gen = {}
    try:
        gen["Gen_C18.v"] = tr.translate(ctx.repo)
    except core.TranslationError as ex:
        ctx.broken.append(Broken("translation", "codec key tables / load_detector shape", str(ex)))
        ctx.log("translation failed:", ex)
        gen["Gen_C18.v"] = tr.FALLBACK
    except Exception as ex:  # noqa: BLE001 - an unexpected translator crash is a failed translation too
        ctx.broken.append(Broken("translation", "translator crashed", repr(ex)))
        gen["Gen_C18.v"] = tr.FALLBACK
    core.proof_leg(ctx, gen, PROP_FILE)

    r = ctx.rng("cases")
    payloads = [{"route": "h5py"}]
    h5 = core.run_driver(ctx, "c18", payloads, workers=1)[0]
    ctx.cov["h5py_importable"] = bool(h5.get("h5py"))
    if h5.get("h5py"):
        ctx.log("note: h5py is importable here but the HDF5 route is not implemented in this check")

    corpus = []
    for f in sorted((core.VERIF / "harness" / "corpus" / "C18").glob("*.json")):
        try:
            corpus.append(json.loads(f.read_text()))
        except Exception as ex:  # noqa: BLE001
            ctx.broken.append(Broken("correspondence", f"corpus file {f.name} unreadable", repr(ex)))
    ctx.cov["corpus_cases"] = len(corpus)
    cases = corpus + structured_cases(ctx, r) + random_cases(ctx, r, ctx.budget(100, 200)) + pipeline_cases(ctx, r, ctx.budget(3, 8))
    if not ctx.quick:
        cases += exhaustive_cases(ctx, ctx.rng("exh"))
        cases += exhaustive_tree_cases(ctx, ctx.rng("exh_trees"))
        ctx.cov["exhaustive"] = ("all subsets of initialised containers (photon none/2-D/3-D): 4 types via .asdf files, "
                                 "MKID also via to_dict/from_dict; all 624 trees over the paths /a, /b, /a/x, /a/x/y with every "
                                 "content class (variables / coordinates only / attributes only / nothing) per group, as "
                                 "processed data via .asdf and (the 100 with /a/x/y and without /b) as scene groups via the dictionary")
    units, mism, viol = correspondence(ctx, cases)
    account(ctx, units)
    process(ctx, units, mism, viol)
    keys = ctx.cov.pop("_keys", set())
    ctx.cov["distinct_nontrivial"] = len(keys)
    ctx.cov["rule"] = ("distinct (route, type, set of initialised containers, photon mode) with at least one container "
                       "initialised; every case compares type, every attribute of geometry/environment/characteristics "
                       "and all 9 containers structurally")
    ctx.cov["traces_validated_against_impl"] = len(units)
    ctx.cov["disagreements_checked"] = len(mism)
    for p, o, lab, _ in units[:200:45]:
        ctx.sample(dict(route=p["route"], kind=p["spec"]["kind"], initialised=sorted(p["spec"].get("init", {})),
                        rows=p["spec"]["rows"], cols=p["spec"]["cols"], props=p["spec"].get("props")))
    order_violations(ctx)
    (ctx.build / "mismatches.json").write_text(json.dumps([dict(case=p, label=lab) for p, o, lab, _ in mism], indent=1)[:2000000])
    if ctx.broken and not new_violations(ctx):
        search(ctx)


def order_violations(ctx: Ctx):
    """core.finish prints the first five distinct signatures: put one representative of every distinct defect CLASS
    (clause, container, effect, aspect, input class - whatever the detector type or route) first, so that unrelated
    defects present at the same time are each reported with a replay."""
    first, rest, seen = [], [], set()
    for v in ctx.violations:
        k = (v.clause, v.sig.get("field"), v.sig.get("effect"), v.sig.get("aspect"), v.sig.get("input_class"))
        (rest if k in seen else first).append(v)
        seen.add(k)
    ctx.violations[:] = first + rest


def new_violations(ctx: Ctx):
    fs = core.load_findings(ctx.prop)
    return [v for v in ctx.violations if not any(core.finding_matches(e, v) for e in fs)]


def search(ctx: Ctx):
    """A proof obligation or the correspondence broke: look harder for a concrete failing input."""
    ctx.log("searching for a concrete failing input (single containers with several contents, pairs, every entry point)")
    r = ctx.rng("search")
    cases = []
    for kind in KINDS:
        fs = fields_of(kind)
        for route in ("dict", "asdf"):
            for f in fs:
                for _ in range(3):
                    cases.append({"route": route, "spec": make_spec(r, kind, [f])})
            for a, b in itertools.combinations(fs, 2):
                cases.append({"route": route, "spec": make_spec(r, kind, [a, b], {"charge_frame": "plain"})})
            for _ in range(6):
                cases.append({"route": route, "spec": make_spec(r, kind, [], props=gen_props(r))})
        cases.append({"route": "asdf", "save": "to_asdf", "load": "from_asdf", "spec": make_spec(r, kind, fs)})
        cases.append({"route": "asdf", "load": "class_load", "spec": make_spec(r, kind, fs)})
    cases += pipeline_cases(ctx, r, 5)
    units, mism, viol = correspondence(ctx, cases, tag="s")
    account(ctx, units)
    process(ctx, units, [], viol)
    order_violations(ctx)
    ctx.cov.pop("_keys", None)
    ctx.cov["search_cases"] = len(units)


def replay(ctx: Ctx, rp: dict) -> int:
    case = rp.get("case")
    if rp.get("kind") != "input" or not case:
        print(f"replay names a {rp.get('kind')} that no longer checks: {rp.get('no_longer_checks')}")
        print(rp.get("detail", ""))
        return 1
    from translator import c18 as tr

    obs = core.run_driver(ctx, "c18", [case], workers=1)[0]
    if "crash" in obs or "driver_error" in obs:
        print("driver failed:", obs)
        return 1
    gen = ctx.build / "gen"
    gen.mkdir(parents=True, exist_ok=True)
    try:
        text = tr.translate(ctx.repo)
    except Exception:  # noqa: BLE001
        text = tr.FALLBACK
    (gen / "Gen_C18.v").write_text(text)
    core.ensure_lib(ctx, targets=core.lib_targets_of([text]))
    core.coqc(ctx, gen / "Gen_C18.v", [(gen, "PyxelGen")])
    if case["route"] == "pipeline" and "file" not in obs:
        print("pipeline case failed:", obs)
        return 1
    units = coq_cases(case, obs)
    ok, evals, se = core.coq_eval(ctx, "replay", emit_file([t for _, t in units]))
    bad = ok and core.parse_int_list(evals[1]) != []
    print("case:", json.dumps(case)[:1500])
    if case["route"] != "pipeline" and "raise" not in obs["back"]:
        print("differences (field, effect, aspect):", diff_fields(obs["orig"], obs["back"]))
    elif case["route"] != "pipeline":
        print("reload raised:", obs["back"])
    else:
        print("later model saw the file's containers:", obs.get("seen", {}).get("containers") == obs["file"]["containers"])
    print("specification (evaluated in Coq):", "VIOLATED" if bad or not ok else "holds")
    return 1 if (bad or not ok) else 0


META = dict(
    level_text=(
        "Coq theorems over an executable model of the detector <-> dictionary <-> ASDF codec whose key tables (which "
        "container is written under which key, which key from_dict reads back into which container, type tag / guard / "
        "dispatch, Photon sub-keys, '/'<->'#' escaping, whether the backend keeps the cluster table's row labels) and the "
        "body shapes of load_detector / save_detector are regenerated from the source on every run: for every detector type "
        "and EVERY subset of initialised containers from_dict(to_dict d) = d on ALL nine containers, and the same through the "
        "ASDF conversions, proved once for arbitrary tables and instantiated by vm_compute (C18_roundtrip_partial / "
        "C18_file_roundtrip_partial; the remaining hypotheses name exactly the open defects: a '#' in a group name, a "
        "variable whose dtype / shape does not survive Dataset.to_dict()'s nested lists - each kept as a refuted full "
        "statement with a proved witness); for ALL trees the group structure (every group, also one without data "
        "variables, with every entry, shape and value) survives whatever the dtypes (C18_tree_structure_kept); "
        "load_detector stores every container into the passed detector (C18_load_replaces) and save ... load inside "
        "pipelines shows the saved containers to later models (C18_load_sees_saved). That the real to_dict/from_dict/"
        "save/load/save_detector/load_detector behave as the model is established by correspondence (testing): structural "
        "comparison of original vs. reloaded detector for 4 types x container subsets x tree classes via dict and via "
        ".asdf files, and pipelines [fill; save_detector] / [fill; probe; load_detector; probe] in every model group; "
        "model-vs-implementation and implementation-vs-specification are both decided inside Coq."),
    level_note=(
        "Trusted: Coq kernel + vm_compute; translator/c18.py; the correspondence harness and canonical form. Not carried: "
        "asdf's byte-level serialisation, xarray/pandas internals beyond the list model, HDF5 (h5py absent), detector "
        "state outside the property's list (Charge.nextid, _memory, persistence, readout clock), DataTree root names."),
    technique="Coq proof over table-driven codec model + regenerated key tables + in-Coq correspondence/spec evaluation",
    design_ref="DESIGN.md section 6, C18",
)
