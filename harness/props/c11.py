"""C11 — calibration fitness is the declared figure of merit on the declared data."""
from __future__ import annotations

import itertools
import json
from fractions import Fraction

from .. import core
from ..core import Broken, Ctx, Violation

PROP_FILE = "Properties/C11.v"

TRUSTED = [
    "translator/c11.py, fitness description: the loop over enumerate(zip(processors, self.all_target_data)), its single "
    "accumulation `acc += self._calculate_fitness(...)`, every `self.<attr> = / += <expr>`, break, continue, return in the "
    "loop body / else clause / after the loop with its guard, the returned expression, the constant each register is "
    "initialised with in __init__ -> Gen_C11.src_fdesc",
    "translator/c11.py (fails closed on any other shape): comparisons of _check_out_fit_ranges / FitRange2D.check / "
    "FitRange3D.check incl. the helpers _bounds/_length and the dispatch order of check_fit_ranges -> Gen_C11.src_checker; "
    "which sizes ModelFittingDataTree.__init__ passes as rows/cols/readout_times at its two call sites -> src_calls; where "
    "_configure_weights is called, the shape a scalar weight is expanded to, and whether targets/weights are indexed "
    "through _target_indexers -> src_weights",
    "correspondence harness: harness/props/c11.py generators (incl. the independent integer computation of the probe's "
    "simulated frames; the Python mirror of the range verdict only steers the generator and names classes), "
    "harness/drivers/c11.py, probes/verif_probes_c11.py, float.as_integer_ratio() -> Q literals",
    "quick tier: the driver processes run with NUMBA_OPT=0 (numba's LLVM optimisation level; the fitness functions are "
    "not fast-math, so the floating-point operations and their order are the same); thorough tier: default level",
    "modelled, not verified: numpy/numba elementwise float64 arithmetic is exact on the generated small integers and "
    "dyadics, np.nansum skips NaN, xarray isel = Python slicing (clipping), numpy broadcasting of (1, y, x) against (y, x); "
    "pygmo champion tracking (champion = best individual ever inserted) is a model, observed on real runs only",
]

# ------------------------------------------------------------------------------------------ Coq literals


def c_optz(v):
    return "None" if v is None else f"(Some {core.cz(v)})"


def c_sl(s):
    return f"({c_optz(s[0])}, {c_optz(s[1])})"


def c_range(r):
    if r is None:
        return "None"
    if r["d"] == 2:
        return f"(Some (FR2 {c_sl(r['row'])} {c_sl(r['col'])}))"
    return f"(Some (FR3 {c_sl(r['time'])} {c_sl(r['row'])} {c_sl(r['col'])}))"


def c_range_raw(r):
    return c_range(r)[6:-1]          # strip "(Some " ... ")"


def c_q(fr: Fraction) -> str:
    return f"(Qmake ({fr.numerator}) {fr.denominator})"


def c_cell(v):
    if v is None:
        return "None"
    fr = Fraction(v)
    if fr.denominator == 1:
        return f"(ci ({fr.numerator}))"
    return f"(Some {c_q(fr)})"


def c_frame(xs):
    return core.clist(c_cell(v) for v in xs)


def c_frame3(f):
    return core.clist(core.clist(c_frame(row) for row in plane) for plane in f)


HEAD = ("From Coq Require Import ZArith QArith List.\nFrom PyxelV Require Import Model.Fitness.\n"
        "From PyxelGen Require Import Gen_C11.\nImport ListNotations.\n"
        "Definition ci (z : Z) : cell := Some (Qmake z 1).\n")

# ------------------------------------------------------------------------------------------ checker cases


def rng2(row, col):
    return dict(d=2, row=list(row), col=list(col))


def rng3(time, row, col):
    return dict(d=3, time=list(time), row=list(row), col=list(col))


def sl_values(n):
    return [None] + list(range(0, n + 2))


def ck_exhaustive(sizes):
    """every (target slice, result slice) pair in one dimension, the other dimensions held at the full range"""
    cases = []
    for n in sizes:
        vals = sl_values(n)
        sls = [(a, b) for a in vals for b in vals]
        other = 2
        full = (0, other)
        for ts, os_ in itertools.product(sls, sls):
            cases.append(dict(kind="ck", t=rng2(ts, full), o=rng3((None, None), os_, full), rows=n, cols=other, times=None))
            cases.append(dict(kind="ck", t=rng2(full, ts), o=rng3((None, None), full, os_), rows=other, cols=n, times=None))
            cases.append(dict(kind="ck", t=rng3(ts, full, full), o=rng3(os_, full, full), rows=other, cols=other, times=n))
    return cases


def rand_sl(r, n, malformed):
    if malformed and r.random() < 0.3:
        return (r.choice([None, -2, -1, 0, 1, n, n + 3]), r.choice([None, -1, 0, 1, n, n + 1, n + 4]))
    k = r.random()
    if k < 0.15:
        return (None, None)
    a = r.randrange(0, n + 1)
    b = r.randrange(a, n + 2)
    if k < 0.25:
        return (None, b)
    if k < 0.3:
        return (a, None)
    return (a, b)


def ck_random(r, count, malformed):
    cases = []
    for _ in range(count):
        rows, cols, times = r.randrange(1, 7), r.randrange(1, 7), r.randrange(1, 5)
        three = r.random() < 0.4
        tr, tc, tt = rand_sl(r, rows, malformed), rand_sl(r, cols, malformed), rand_sl(r, times, malformed)
        mode = r.random()

        def near(s, n):
            if mode < 0.35:
                return s                                    # identical ranges
            if mode < 0.6 and s[0] is not None and s[1] is not None:
                d = r.randrange(-2, 4)
                return (max(0, s[0] + d), max(0, s[0] + d) + (s[1] - s[0]))   # shifted, equal extent
            if mode < 0.8 and s[1] is not None:
                return (r.randrange(0, max(s[1], 0) + 1), s[1])     # same stop, other start
            return rand_sl(r, n, malformed)
        o = rng3(near(tt, times) if three else (None, None), near(tr, rows), near(tc, cols))
        t = rng3(tt, tr, tc) if three else rng2(tr, tc)
        tm = times if three else r.choice([None, None, times])
        if malformed:
            k = r.random()
            if k < 0.08:
                o = None
            elif k < 0.14:
                t = None
            elif k < 0.2:
                o = rng2(o["row"], o["col"])
            elif k < 0.26 and three:
                tm = None
        cases.append(dict(kind="ck", t=t, o=o, rows=rows, cols=cols, times=tm))
    return cases


def emit_ck(pairs):
    body = ";\n  ".join(
        f"{{| ck_t := {c_range(c['t'])}; ck_o := {c_range(c['o'])}; ck_rows := {core.cz(c['rows'])}; "
        f"ck_cols := {core.cz(c['cols'])}; ck_times := {c_optz(c['times'])}; ck_obs := {o['o']} |}}"
        for c, o in pairs)
    return (HEAD + f"Definition cases : list ck_case := [\n  {body}\n].\n"
            "Eval vm_compute in ck_mismatches src_checker cases.\nEval vm_compute in ck_violations cases.\n")


def _res(s, n):
    return (0 if s[0] is None else s[0], n if s[1] is None else s[1])


def classify_ck(c, o):
    """Python side: only names the input class of a case Coq already judged to violate the specification."""
    t, oo = c["t"], c["o"]
    dims = [("row", c["rows"]), ("col", c["cols"])] + ([("time", c["times"])] if t["d"] == 3 else [])
    starts_differ = any(_res(t[d], n)[0] != _res(oo[d], n)[0] for d, n in dims)
    absent_stop = any(t[d][1] is None or oo[d][1] is None for d, _ in dims)
    accepted = o["o"] == "Accept"
    clause = "checker_sound" if accepted else "checker_complete"
    if accepted:
        cls = "starts_differ" if starts_differ else "same_starts"
    else:
        cls = "absent_stop" if absent_stop else ("starts_differ" if starts_differ else "same_starts")
    return clause, dict(clause=clause, cls=cls)


def ck_size(c):
    tot = 0
    for r in (c["t"], c["o"]):
        for k in ("time", "row", "col"):
            if r and k in r:
                tot += sum(abs(v) + 1 for v in r[k] if v is not None)
    empty = sum(100 for r in (c["t"], c["o"]) if r for k in ("time", "row", "col")
                if k in r and r[k][0] is not None and r[k][0] == r[k][1])
    return tot + empty + c["rows"] + c["cols"] + (c["times"] or 0)


def ck_violation(c, o) -> Violation:
    clause, sig = classify_ck(c, o)
    exp = "rejected (ValueError)" if clause == "checker_sound" else "accepted"
    return Violation(clause=clause, case=c, observed=o, expected=exp,
                     what=f"check_fit_ranges target={c['t']} result={c['o']} rows={c['rows']} cols={c['cols']} "
                          f"times={c['times']}: implementation {o['o']}, specification says {exp}", sig=sig)


# ------------------------------------------------------------------------------------------ fitness-function cases

DY = [0, 1, 2, 3, 4, 5, 7, 10, -1, -3, Fraction(1, 2), Fraction(-3, 4), Fraction(5, 2), 12, 100]
WS = [1, 1, 2, 3, 4, Fraction(1, 2), Fraction(1, 4), -1, -2, 8, 0]


def fnum(v):
    return None if v is None else float(Fraction(v))


def gen_ff(r, count):
    cases = []
    for _ in range(count):
        n = r.randrange(0, 7)
        ff = r.choice(["abs", "sq", "chi"])
        def vec(pool, pnan):
            return [None if r.random() < pnan else r.choice(pool) for _ in range(n)]
        s, t = vec(DY, 0.12), vec(DY, 0.12)
        # reduced chi-squared divides by the weight: only powers of two keep the float arithmetic exact
        w = vec([x for x in WS if (x != 0 or ff != "chi" or r.random() < 0.15) and (ff != "chi" or x != 3)], 0.05)
        cases.append(dict(kind="ff", ff=ff, free=r.randrange(0, 3), s=s, t=t, w=w))
    return cases


def ff_payload(c):
    return dict(kind="ff", ff=c["ff"], free=c["free"], s=[fnum(v) for v in c["s"]], t=[fnum(v) for v in c["t"]],
                w=[fnum(v) for v in c["w"]])


def c_ff(ff, free):
    return {"abs": "FAbs", "sq": "FSq"}.get(ff) or f"(FChi {core.cz(free)})"


def c_obs(o):
    k = o.get("o")
    if k == "ctor":
        return "OCtor"
    if k == "raise":
        return "ORaise"
    if k == "inf":
        return "OInf"
    if k == "val":
        return f"(OVal (Qmake ({o['q'][0]}) {o['q'][1]}))"
    return None


def emit_ff(pairs):
    body = ";\n  ".join(
        f"{{| ff_f := {c_ff(c['ff'], c['free'])}; ff_s := {c_frame(c['s'])}; ff_t := {c_frame(c['t'])}; "
        f"ff_w := {c_frame(c['w'])}; ff_obs := {c_obs(o)} |}}" for c, o in pairs)
    return (HEAD + f"Definition cases : list ff_case := [\n  {body}\n].\n"
            "Eval vm_compute in ff_mismatches cases.\nEval vm_compute in @nil Z.\n")


# ------------------------------------------------------------------------------------------ problem.fitness cases


def sim_frames(c):
    """the probe's frames, computed here independently of the implementation (exact rationals)"""
    steps = c["steps"] if c["multi"] else 1
    offs = c["offsets"] if c["offsets"] is not None else [0]
    g, b = Fraction(c["gain"]), Fraction(c["bias"])
    return [[[[None if v is None else g * v * (t + 1) + Fraction(off) + b for v in row] for row in c["pattern"]]
             for t in range(steps)] for off in offs]


def sub_range(r, n):
    if r.random() < 0.4:
        return (0, n)
    a = r.randrange(0, n)
    return (a, r.randrange(a + 1, n + 1))


# ---- Python mirror of Model.Fitness.fit_verdict.  It is used ONLY to steer the generator (keep known-defect classes
# apart, never bypass the checker on a configuration that has to be refused) and to NAME the input class of a case
# that Coq has already judged; the judgement itself (fit_violations) is evaluated inside Coq.

def _resolve(s, n):
    return (0 if s[0] is None else s[0], n if s[1] is None else s[1])


def dim_verdict(nt, nd, t, o):
    ts, te = _resolve(t, nt)
    os_, oe = _resolve(o, nd)
    if not (0 <= ts <= te <= nt):
        return "reject", "target_exceeded"
    if oe <= nd:
        if te - ts == oe - os_:
            return "accept", None
        return "reject", "extent"
    if te - ts == min(oe, nd) - min(os_, nd):
        return "dontcare", None
    return "reject", "result_beyond_frame"


def tshape_of(c):
    t = c["targets"][0]
    return (len(t), len(t[0]), len(t[0][0]))


def dshape_of(c):
    return (c["steps"] if c["multi"] else 1, len(c["pattern"]), len(c["pattern"][0]))


def case_dims(c):
    """[(dim, nt, nd, target slice, result slice)] of the dimensions the specification compares"""
    (tt, ty, tx), (dt, dy, dx) = tshape_of(c), dshape_of(c)
    trng, orng = c["trng"], c["orng"]
    tm = tuple(trng["time"]) if trng["d"] == 3 else (None, None)
    return [("time", tt, dt, tm, tuple(orng["time"])), ("row", ty, dy, tuple(trng["row"]), tuple(orng["row"])),
            ("col", tx, dx, tuple(trng["col"]), tuple(orng["col"]))]


def py_verdict(c):
    """-> (verdict, class): class names why a configuration has to be refused, or how accepted ranges relate"""
    if c["trng"]["d"] == 3 and not c["multi"]:
        return "dontcare", None
    dims = case_dims(c)
    vs = [(d, dim_verdict(nt, nd, t, o), nt, nd, t, o) for d, nt, nd, t, o in dims]
    rej = [(d, why, nt, nd, t, o) for d, (v, why), nt, nd, t, o in vs if v == "reject"]
    if rej:
        if any(why == "target_exceeded" for _, why, *_ in rej):
            return "reject", "target_exceeded"
        if any(d == "time" and c["trng"]["d"] == 2 for d, *_ in rej):
            return "reject", "time_extent_2d_target"
        if any(why == "result_beyond_frame" for _, why, *_ in rej):
            return "reject", "result_beyond_frame"
        if any((t[0] is None or t[1] is None or o[0] is None or o[1] is None) and nt != nd for _, _, nt, nd, t, o in rej):
            return "reject", "open_component"
        if all(_resolve(t, nt)[1] == _resolve(o, nd)[1] for _, _, nt, nd, t, o in rej):
            return "reject", "starts_differ"            # equal stops, different starts
        return "reject", "extent_differs"
    if any(v == "dontcare" for _, (v, _), *_ in vs):
        return "dontcare", None
    cmp_dims = [x for x in vs if not (x[0] == "time" and c["trng"]["d"] == 2)]
    if any(o[1] is None and nt != nd for _, _, nt, nd, t, o in cmp_dims):
        return "accept", "open_component"      # an open result stop means the frame's size, not the target's
    if any(t[1] is None or o[1] is None for _, _, _, _, t, o in cmp_dims):
        return "accept", "absent_stop"
    if any(_resolve(t, nt)[0] != _resolve(o, nd)[0] for _, _, nt, nd, t, o in cmp_dims):
        return "accept", "starts_differ"
    return "accept", "same_starts"


def known_classes(c):
    """still-open defect classes of the tree this case falls into (generator steering only): at most one per case, so
    that the signature of a violation names one class.  Repaired classes (F6a-c, F20, chi-sub, t3d) mix freely."""
    out = []
    v, cls = py_verdict(c)
    if v == "reject":
        if cls in ("time_extent_2d_target", "result_beyond_frame", "open_component"):
            out.append(cls)
        return out
    if v == "accept" and cls == "open_component" and not c["bypass"]:
        out.append("open_component")
    if fit_flags(c)["short_procs"]:
        out.append("short_procs")
    return out


def pick_dim(r, nt, nd):
    """a target range along one dimension: target data of size nt, simulated frame of size nd"""
    lo, hi = min(nt, nd), max(nt, nd)
    k = r.random()
    if nt == nd:
        if k < 0.38:
            return (0, lo)
        if k < 0.95:
            return sub_range(r, lo)
        return (r.randrange(0, lo), lo + r.randrange(1, 3))                 # beyond both
    if k < 0.30:
        return (0, lo)
    if k < 0.58:
        return sub_range(r, lo)
    a = r.randrange(0, lo)
    if k < 0.90:
        return (a, r.randrange(lo + 1, hi + 1))       # beyond the smaller of the two arrays, inside the larger one
    return (a, hi + r.randrange(1, 3))                # beyond both


def other_size(r, n, lo=1):
    return max(lo, n + r.choice([-2, -1, -1, 1, 1, 2]))


def gen_fit_one(r, flagged_share):
    rows, cols = r.randrange(1, 5), r.randrange(1, 5)
    flag = None
    if r.random() < flagged_share:
        flag = r.choice(["t3d", "short_procs", "multi_weights", "chi_scalar_sub"])
    multi = (flag in ("t3d", "multi_weights")) or (flag is None and r.random() < 0.3)
    steps = r.randrange(2, 4) if multi else 1
    # the target data read from file: the detector's frame size, or smaller / larger in some dimension
    trows, tcols, tsteps = rows, cols, steps
    shape_mode = "same"
    if flag is None and r.random() < 0.45:
        k = r.random()
        if k < 0.4 or not multi:
            which = r.choice(["row", "col", "both"])
        else:
            which = r.choice(["time", "time", "row", "col", "all"])
        if which in ("row", "both", "all"):
            trows = other_size(r, rows)
        if which in ("col", "both", "all"):
            tcols = other_size(r, cols)
        if which in ("time", "all"):
            tsteps = max(1, steps + r.choice([-1, 1]))
        if (trows, tcols, tsteps) != (rows, cols, steps):
            shape_mode = "differs"
    pattern = [[None if r.random() < 0.04 else r.randrange(0, 10) for _ in range(cols)] for _ in range(rows)]
    nt = r.choice([1, 2, 2, 3])
    if flag == "short_procs":
        nt = r.choice([2, 3])
        offsets = None if r.random() < 0.6 else [r.randrange(0, 12) for _ in range(nt - 1)]
        if offsets is not None and len(offsets) == 1:
            offsets = None
    else:
        offsets = [r.randrange(0, 12) * r.choice([1, 1, 2]) for _ in range(nt)]
        if nt == 1 and r.random() < 0.5:
            offsets = None
        elif r.random() < 0.1:
            offsets.append(r.randrange(0, 12))          # one processor more than targets: ignored
    targets = [[[[None if r.random() < 0.05 else r.randrange(0, 40) for _ in range(tcols)] for _ in range(trows)]
                for _ in range(tsteps)] for _ in range(nt)]
    ff = "chi" if flag == "chi_scalar_sub" else r.choice(["abs", "sq", "chi"])
    free = r.randrange(0, 3)
    if shape_mode == "same":
        tr, tc = (sub_range(r, rows), sub_range(r, cols)) if r.random() < 0.9 else (pick_dim(r, rows, rows), pick_dim(r, cols, cols))
    else:
        tr, tc = pick_dim(r, trows, rows), pick_dim(r, tcols, cols)
    if flag == "chi_scalar_sub":
        if rows * cols == 1:
            rows, cols = trows, tcols = 2, 2
            pattern = [[1, 2], [3, 4]]
            targets = [[[[5, 6], [7, 9]] for _ in range(steps)] for _ in range(nt)]
        tr, tc = (0, rows), (0, cols)
        if rows > 1:
            tr = (1, rows)
        else:
            tc = (1, cols)
    bypass = False
    orow, ocol = tr, tc
    rel = "same"
    k = r.random()
    if flag is None and k < 0.30:
        # shifted result range of equal extent inside the simulated frame
        def shift(s, n):
            ext = s[1] - s[0]
            if ext > n:
                return s
            a = r.randrange(0, n - ext + 1)
            return (a, a + ext)
        orow, ocol = shift(tr, rows), shift(tc, cols)
        if (orow, ocol) != (tr, tc):
            rel = "shifted"
    elif flag is None and k < 0.36:
        # same stop, another start: regions of different extent
        def other_start(s):
            cand = [a for a in range(0, s[1] + 1) if a != s[0]]
            return (r.choice(cand), s[1]) if cand else s
        if r.random() < 0.5:
            orow = other_start(tr)
        else:
            ocol = other_start(tc)
        rel = "same_stop"
    elif flag is None and k < 0.40:
        orow, ocol = sub_range(r, rows), sub_range(r, cols)       # unrelated result range
        rel = "unrelated"
    elif flag is None and k < 0.48:
        # absent (open) components: nothing declared at all, or single end points left open
        def opened(s, n_this):
            q = r.random()
            if q < 0.4:
                return (None, None) if s == (0, n_this) or r.random() < 0.3 else s
            if q < 0.6 and s[0] == 0:
                return (None, s[1])
            if q < 0.8 and s[1] == n_this:
                return (s[0], None)
            return s
        if r.random() < 0.35:
            tr = tc = orow = ocol = (None, None)
        else:
            tr, tc = opened(tr, trows), opened(tc, tcols)
            orow, ocol = opened(orow, rows), opened(ocol, cols)
        rel = "open"
    q = r.random()
    if not multi:
        otime = (None, None) if q < 0.6 else (0, 1)
    elif q < 0.5:
        otime = (None, None)
    elif q < 0.85 or flag is not None:
        otime = (0, steps)
    else:
        otime = sub_range(r, steps)
    if multi and (flag == "t3d" or (flag is None and r.random() < 0.35)):
        # 6-value target range on a time-domain target
        tm = (0, steps) if (flag == "t3d" and r.random() < 0.4) else pick_dim(r, tsteps, steps)
        otime = tm
        q = r.random()
        if q < 0.3 and tm[1] - tm[0] <= steps:
            a = r.randrange(0, steps - (tm[1] - tm[0]) + 1)
            otime = (a, a + tm[1] - tm[0])                    # shifted in time, equal extent
        elif q < 0.4:
            tm, otime = ((None, None), (None, None)) if tm == (0, tsteps) else ((tm[0], None) if tm[1] == tsteps else tm, otime)
        elif q < 0.45:
            otime = sub_range(r, steps)
        trng = rng3(tm, tr, tc)
    elif not multi and flag is None and r.random() < 0.03:
        trng = rng3((0, 1), tr, tc)        # 3-D range on 2-D target data: "not a 3 dimensional array" (not judged)
    else:
        trng = rng2(tr, tc)
    orng = rng3(otime, orow, ocol)
    weights = None
    k = r.random()
    wpool = ([1, 2, 4, Fraction(1, 2)] if ff == "chi" else [1, 2, 3, 4, Fraction(1, 2), 0, -1])
    if flag in ("multi_weights", "chi_scalar_sub") or k < 0.4:
        if flag == "chi_scalar_sub" or r.random() < 0.65:
            weights = dict(scalar=[r.choice(wpool) for _ in range(nt)])
            if flag == "multi_weights" and all(w == 1 for w in weights["scalar"]):
                weights["scalar"][0] = 3
            if flag is None and r.random() < 0.08 and nt > 1:
                weights["scalar"].pop()          # too few weights: IndexError expected
        else:
            weights = dict(file=[[[[r.choice(wpool) for _ in range(tcols)] for _ in range(trows)]
                                  for _ in range(tsteps)] for _ in range(nt)])
            if flag == "multi_weights":
                weights["file"][0][0][0][0] = 5
    gain = r.choice([0, 1, 2, 3, Fraction(1, 2), Fraction(3, 2)])
    bias = r.choice([0, 0, 1, -2, Fraction(1, 4)])
    c = dict(kind="fit", ff=ff, free=free, multi=multi, steps=steps, pattern=pattern, offsets=offsets,
             targets=targets, trng=trng, orng=orng, weights=weights, gain=gain, bias=bias,
             bypass=False, flag=flag, rel=rel)
    # the slicing alone (checker switched off from outside) for a share of the shifted ranges, and only for
    # configurations the specification accepts
    if rel == "shifted" and py_verdict(c)[0] == "accept" and r.random() < 0.3:
        c["bypass"] = True
    return c


def gen_fit_sizes(r, quick=True):
    """Systematic stream: target data smaller / larger than the simulated frame in each dimension (rows, columns and,
    for time-domain targets, readout times), with fit ranges that run past the target but not the frame, past the
    frame but not the target, past both, or past neither.  Plain configurations otherwise (no weights, one target)."""
    cases = []
    for multi in (False, True):
        dims = ["row", "col"] + (["time"] if multi else [])
        for dim in dims:
            for smaller in (True, False):
                for beyond in ("smaller_only", "inside", "both") if quick else ("smaller_only", "smaller_only", "inside", "both"):
                    rows, cols = r.randrange(2, 5), r.randrange(2, 5)
                    steps = r.randrange(2, 4) if multi else 1
                    d = r.choice([1, 1, 2])
                    size = dict(row=rows, col=cols, time=steps)
                    tsize = dict(size)
                    tsize[dim] = max(1, size[dim] - d) if smaller else size[dim] + d
                    if tsize[dim] == size[dim]:
                        tsize[dim] += 1
                    lo, hi = sorted((size[dim], tsize[dim]))
                    a = r.randrange(0, lo)
                    stop = dict(smaller_only=r.randrange(lo + 1, hi + 1), inside=r.randrange(a + 1, lo + 1),
                                both=hi + r.randrange(1, 3))[beyond]
                    rng = dict(row=sub_range(r, min(rows, tsize["row"])), col=sub_range(r, min(cols, tsize["col"])),
                               time=(0, min(steps, tsize["time"])))
                    rng[dim] = (a, stop)
                    pattern = [[r.randrange(0, 10) for _ in range(cols)] for _ in range(rows)]
                    targets = [[[[r.randrange(0, 40) for _ in range(tsize["col"])] for _ in range(tsize["row"])]
                                for _ in range(tsize["time"])]]
                    three = False
                    if dim == "time":
                        otime = rng["time"]
                        three = beyond != "inside" or r.random() < 0.5    # else a 2-D target range: time axis taken whole
                    elif multi and r.random() < 0.3:
                        otime, three = rng["time"], True
                    else:
                        otime = (None, None) if r.random() < 0.5 else (0, steps)
                    trng = rng3(rng["time"], rng["row"], rng["col"]) if three else rng2(rng["row"], rng["col"])
                    c = dict(kind="fit", ff=r.choice(["abs", "sq"]), free=0, multi=multi, steps=steps, pattern=pattern,
                             offsets=None if r.random() < 0.5 else [r.randrange(0, 6)], targets=targets,
                             trng=trng, orng=rng3(otime, rng["row"], rng["col"]), weights=None,
                             gain=r.choice([1, 2]), bias=r.choice([0, 1]), bypass=False, flag=None, rel="sizes")
                    cases.append(c)
    return cases


CORPUS = core.VERIF / "harness" / "corpus" / "C11"


def load_corpus():
    """minimised inputs of past misses / repaired defects (run first; plain `fit` cases)"""
    out = []
    if CORPUS.is_dir():
        for f in sorted(CORPUS.glob("*.json")):
            for c in json.loads(f.read_text())["cases"]:
                c = dict(c, flag=None, rel="corpus")
                c["gain"], c["bias"] = Fraction(c["gain"]), Fraction(c["bias"])
                out.append(c)
    return out


def load_corpus_hist():
    """minimised histories of past misses (`hist` cases of the corpus files)"""
    out = []
    if CORPUS.is_dir():
        for f in sorted(CORPUS.glob("*.json")):
            for c in json.loads(f.read_text()).get("histories", []):
                c = unjson_hist(dict(c, flag=None, rel="corpus"))
                out.append(c)
    return out


def _fr(x):
    return Fraction(x).limit_denominator(1 << 20) if isinstance(x, float) else x


def unjson_fit(case):
    c = dict(case)
    if "gain" in c:
        c["gain"], c["bias"] = _fr(c["gain"]), _fr(c["bias"])
    c["pattern"] = [[None if v is None else _fr(v) for v in row] for row in c["pattern"]]
    c["targets"] = [[[[None if v is None else _fr(v) for v in row] for row in pl] for pl in t] for t in c["targets"]]
    if c.get("offsets") is not None:
        c["offsets"] = [_fr(v) for v in c["offsets"]]
    if c.get("weights"):
        if "scalar" in c["weights"]:
            c["weights"] = dict(scalar=[_fr(v) for v in c["weights"]["scalar"]])
        else:
            c["weights"] = dict(file=[[[[_fr(v) for v in row] for row in pl] for pl in f] for f in c["weights"]["file"]])
    return c


def unjson_hist(case):
    c = unjson_fit(case)
    c["ops"] = [dict(o, gain=_fr(o["gain"]), bias=_fr(o["bias"])) if o["op"] != "nop" else dict(o) for o in c["ops"]]
    return c


def gen_fit(r, count, flagged_share=0.25):
    cases = []
    while len(cases) < count:
        c = gen_fit_one(r, flagged_share)
        kc = known_classes(c)
        if len(kc) > 1 and c["weights"] is not None:
            c["weights"] = None          # keep known defect classes apart: at most one per case
            kc = known_classes(c)
        if len(kc) > 1:
            continue
        cases.append(c)
    return cases


def jsonable(x):
    if isinstance(x, Fraction):
        return float(x)
    if isinstance(x, dict):
        return {k: jsonable(v) for k, v in x.items()}
    if isinstance(x, (list, tuple)):
        return [jsonable(v) for v in x]
    return x


def c_wspec(w):
    if not w:
        return "WNone"
    if "scalar" in w:
        return f"(WScalar {core.clist(c_q(Fraction(v)) for v in w['scalar'])})"
    return f"(WFile {core.clist(c_frame3(f) for f in w['file'])})"


def c_fconf(c):
    rows, cols = len(c["pattern"]), len(c["pattern"][0])
    return (f"{{| fc_ff := {c_ff(c['ff'], c['free'])}; fc_multi := {core.cbool(c['multi'])}; "
            f"fc_trng := {c_range_raw(c['trng'])}; fc_orng := {c_range_raw(c['orng'])}; "
            f"fc_drows := {core.cz(rows)}; fc_dcols := {core.cz(cols)}; fc_w := {c_wspec(c['weights'])}; "
            f"fc_tgts := {core.clist(c_frame3(t) for t in c['targets'])}; fc_bypass := {core.cbool(c['bypass'])} |}}")


def emit_fit(pairs):
    body = ";\n  ".join(
        f"{{| ft_c := {c_fconf(c)};\n     ft_sims := {core.clist(c_frame3(f) for f in sim_frames(c))};\n"
        f"     ft_obs := {c_obs(o)} |}}" for c, o in pairs)
    return (HEAD + f"Definition cases : list fit_case := [\n  {body}\n].\n"
            "Eval vm_compute in fit_mismatches src_checker src_calls src_weights cases.\nEval vm_compute in fit_violations cases.\n")


def fit_flags(c):
    rows, cols = len(c["pattern"]), len(c["pattern"][0])
    nproc = len(c["offsets"]) if c["offsets"] is not None else 1
    _, ty, tx = tshape_of(c)
    r0, r1 = _resolve(c["trng"]["row"], ty)
    c0, c1 = _resolve(c["trng"]["col"], tx)
    # the restricted target does not have the detector's frame shape
    sub = (min(r1, ty) - min(r0, ty), min(c1, tx) - min(c0, tx)) != (rows, cols)
    return dict(
        t3d=c["trng"]["d"] == 3,
        short_procs=nproc < len(c["targets"]),
        multi_weights=bool(c["multi"] and c["weights"]),
        chi_scalar_sub=bool(c["ff"] == "chi" and c["weights"] and "scalar" in c["weights"] and sub and not c["multi"]),
    )


def fit_sig(c, o):
    """names the input class of a case Coq judged to violate the specification"""
    v, cls = py_verdict(c)
    if v == "reject":
        return dict(clause="range_rejected", cls=cls)
    if o.get("o") == "ctor":
        t3d = c["trng"]["d"] == 3
        # an open result stop on a target that differs in size from the frame is refused for that reason (C11-F6d),
        # with a 2-D and with a 3-D target range alike
        return dict(clause="range_accepted", cls="t3d" if (t3d and cls != "open_component") else cls, t3d=t3d)
    return dict(clause="fitness_value", **fit_flags(c))


def fit_violation(c, o) -> Violation:
    sig = fit_sig(c, o)
    case = jsonable({k: v for k, v in c.items() if k not in ("flag", "rel")})
    desc = (f"ff={c['ff']}, multi={c['multi']}, targets={len(c['targets'])} of shape {tshape_of(c)}, simulated frame "
            f"{dshape_of(c)}, offsets={c['offsets']}, weights={'yes' if c['weights'] else 'no'}, trng={c['trng']}, "
            f"orng={c['orng']}")
    if sig["clause"] == "range_rejected":
        return Violation(clause="range_rejected", case=case, observed=o,
                         expected="the constructor refuses the fit ranges (ValueError) before anything is optimised",
                         what=f"fit ranges that {'exceed the size of the target data' if sig['cls'] == 'target_exceeded' else 'select regions of different extent in result and target'} "
                              f"are accepted ({sig['cls']}; {desc}): implementation {o}", sig=sig)
    if sig["clause"] == "range_accepted":
        return Violation(clause="range_accepted", case=case, observed=o,
                         expected="accepted; fitness = sum over all targets of f(result[result range], target[target range], weight_k)",
                         what=f"fit ranges of equal extent inside the target are refused at construction ({sig['cls']}; {desc}): "
                              f"implementation {o}", sig=sig)
    return Violation(clause="fitness_value", case=case, observed=o,
                     expected="sum over all targets of f(result[result range], target[target range], weight_k)",
                     what=f"problem.fitness differs from the declared figure of merit ({desc}): implementation {o}", sig=sig)


# ------------------------------------------------------------------------------------------ histories on one problem

CAND_G = [0, 1, 2, 3, Fraction(1, 2), Fraction(3, 2)]
CAND_B = [0, 0, 1, -2, Fraction(1, 4)]


def hist_conf_truth(r):
    """a plain accepted configuration with 2..3 targets (sometimes 1) lying near the frames of a 'true' vector, so that
    a clearly best candidate exists: the class of changes that remember earlier evaluations shows right after it"""
    rows, cols = r.randrange(1, 5), r.randrange(1, 5)
    multi = r.random() < 0.3
    steps = r.randrange(2, 4) if multi else 1
    nt = r.choice([2, 2, 2, 3, 3, 1])
    pattern = [[r.randrange(1, 10) for _ in range(cols)] for _ in range(rows)]
    offsets = [r.randrange(0, 12) for _ in range(nt)]
    if nt == 1 and r.random() < 0.5:
        offsets = None
    g, b = r.choice(CAND_G[1:]), r.choice(CAND_B)
    exact = r.random() < 0.5
    targets = [[[[g * v * (t + 1) + (offsets[k] if offsets else 0) + b + (0 if exact else r.choice([-1, 0, 0, 1]))
                  for v in row] for row in pattern] for t in range(steps)] for k in range(nt)]
    tr, tc = sub_range(r, rows), sub_range(r, cols)
    ff = r.choice(["abs", "abs", "sq", "chi"])
    q = r.random()
    otime = (None, None) if q < 0.5 else (0, steps)
    trng = rng2(tr, tc)
    if multi and r.random() < 0.3:
        tm = sub_range(r, steps)
        trng, otime = rng3(tm, tr, tc), tm
    weights = None
    k = r.random()
    wpool = [1, 2, 4, Fraction(1, 2)] if ff == "chi" else [1, 2, 3, 4, Fraction(1, 2)]
    if k < 0.3:
        weights = dict(scalar=[r.choice(wpool) for _ in range(nt)])
    elif k < 0.5:
        weights = dict(file=[[[[r.choice(wpool) for _ in range(cols)] for _ in range(rows)] for _ in range(steps)]
                             for _ in range(nt)])
    c = dict(kind="hist", ff=ff, free=r.randrange(0, 2), multi=multi, steps=steps, pattern=pattern, offsets=offsets,
             targets=targets, trng=trng, orng=rng3(otime, tr, tc), weights=weights, bypass=False, flag=None, rel="truth")
    return c, (g, b)


def hist_conf_any(r):
    """any configuration of the problem.fitness stream that the specification accepts and that lies outside the classes
    of the open findings (targets smaller / larger than the frame, shifted and open ranges, 3-D target ranges ...)"""
    for _ in range(400):
        c = gen_fit_one(r, 0.0)
        c["gain"], c["bias"] = 1, 0
        if py_verdict(c)[0] != "accept" or known_classes(c) or c["bypass"]:
            continue
        if len(c["targets"]) < 2 and r.random() < 0.8:
            continue
        c = dict(c, kind="hist", rel="any")
        del c["gain"], c["bias"]
        return c, (r.choice(CAND_G), r.choice(CAND_B))
    return hist_conf_truth(r)


def gen_hist_one(r, max_len):
    c, good = hist_conf_truth(r) if r.random() < 0.55 else hist_conf_any(r)
    n = r.randrange(4, max_len + 1)
    ids, ops = {}, []

    def vec(g, b):
        return dict(gain=g, bias=b, id=ids.setdefault((g, b), len(ids)))
    for i in range(n):
        k = r.random()
        kind = "fit" if (k < 0.64 or i == 0) else ("fit_copy" if k < 0.82 else "nop")
        if kind == "nop":
            ops.append(dict(op="nop", which=r.randrange(0, 4)))
            continue
        q = r.random()
        if i == 0 and q < 0.75:
            g, b = good                                           # the good candidate first
        elif ids and q < 0.35:
            g, b = r.choice(sorted(ids, key=str))                 # a vector evaluated before, again
        elif ids and q < 0.45:
            g0, b0 = r.choice(sorted(ids, key=str))
            g, b = g0 + Fraction(1, 1024), b0                     # a vector very close to an earlier one
        elif q < 0.55:
            g, b = good
        else:
            g, b = r.choice(CAND_G), r.choice(CAND_B)
        ops.append(dict(op=kind, **vec(g, b)))
    # end with a second evaluation of the first vector on the object itself
    if r.random() < 0.5:
        first = next(o for o in ops if o["op"] != "nop")
        ops.append(dict(op="fit", gain=first["gain"], bias=first["bias"], id=first["id"]))
    c["ops"] = ops
    return c


BIG = 1 << 36


def bigify(c):
    """the same configuration with every target value raised by 2^36 and absolute residuals.  Still exact in binary64:
    sums stay below 2^36 * 4 * 144 < 2^46 and carry at most 3 fractional bits (gains in halves - the nearly equal vectors
    of a history are rounded to halves -, biases in quarters, weights down to 1/2)."""
    d = dict(c, ff="abs")
    d["targets"] = [[[[None if v is None else v + BIG for v in row] for row in pl] for pl in t] for t in c["targets"]]
    if "ops" in c:
        ids, ops = {}, []
        for o in c["ops"]:
            if o["op"] == "nop":
                ops.append(o)
                continue
            g = Fraction(int(Fraction(o["gain"]) * 2), 2)
            ops.append(dict(o, gain=g, id=ids.setdefault((g, o["bias"]), len(ids))))
        d["ops"] = ops
    return d


def gen_hist_exhaustive(max_len, copies, nts=(2, 3)):
    """EVERY history of length <= max_len over three decision vectors (the exact optimum, a near one, a far one) on fixed
    plain configurations with 2 and 3 targets; with `copies` each evaluation is made on the object or on a copy of it"""
    out = []
    pattern = [[1, 2], [3, 5]]
    vecs = [(2, 1), (Fraction(3, 2), 1), (0, -2)]
    kinds = ["fit", "fit_copy"] if copies else ["fit"]
    for nt in nts:
        offsets = [3, 0, 7][:nt]
        targets = [[[[2 * v + offsets[k] + 1 for v in row] for row in pattern]] for k in range(nt)]
        base = dict(kind="hist", ff="abs", free=0, multi=False, steps=1, pattern=pattern, offsets=offsets, targets=targets,
                    trng=rng2((0, 2), (0, 2)), orng=rng3((None, None), (0, 2), (0, 2)), weights=None, bypass=False,
                    flag=None, rel="exhaustive")
        for n in range(2, max_len + 1):
            for seq in itertools.product([(k, i) for k in kinds for i in range(len(vecs))], repeat=n):
                if not any(k == "fit" for k, _ in seq[:-1]):
                    continue            # nothing was evaluated on the object itself before the last step
                ids, ops = {}, []
                for k, i in seq:
                    ops.append(dict(op=k, gain=vecs[i][0], bias=vecs[i][1], id=ids.setdefault(i, len(ids))))
                out.append(dict(base, ops=ops))
    return out


def gen_hist(r, count, max_len):
    return [gen_hist_one(r, max_len) for _ in range(count)]


def hist_payload(c):
    return jsonable({k: v for k, v in c.items() if k not in ("flag", "rel")})


def hist_fit_case(c, op):
    """the single evaluation `op` of history `c` as a plain problem.fitness case"""
    d = {k: v for k, v in c.items() if k != "ops"}
    return dict(d, kind="fit", gain=op["gain"], bias=op["bias"])


def hist_obs_list(c, o):
    """-> Gallina literals of the implementation's observations, one per operation (None: unusable)"""
    if o.get("o") == "ctor":
        return ["None" if op["op"] == "nop" else "(Some OCtor)" for op in c["ops"]]
    out = []
    for op, ob in zip(c["ops"], o["obs"]):
        if ob["o"] == "nop":
            out.append("None")
        elif ob["o"] in ("nop_raise", "copy_raise"):
            out.append("(Some ORaise)" if op["op"] != "nop" else "(Some OUndef)")
        else:
            lit = c_obs(ob)
            if lit is None:
                return None
            out.append(f"(Some {lit})")
    return out


def emit_hist(pairs):
    defs, cases = [], []
    for n, (c, o) in enumerate(pairs):
        seen = {}
        ops = []
        for op in c["ops"]:
            if op["op"] == "nop":
                ops.append("HNop")
                continue
            if op["id"] not in seen:
                nm = f"v{n}_{op['id']}"
                frames = sim_frames(hist_fit_case(c, op))
                defs.append(f"Definition {nm} : hx := ({op['id']}%nat, {core.clist(c_frame3(f) for f in frames)}).")
                seen[op["id"]] = nm
            ops.append(f"({'HFit' if op['op'] == 'fit' else 'HFitCopy'} {seen[op['id']]})")
        obs = hist_obs_list(c, o)
        same = "true" if o.get("o") == "ctor" or o.get("same") else "false"
        cases.append(f"{{| hc_c := {c_fconf(c)};\n     hc_ops := {core.clist(ops)};\n     hc_obs := {core.clist(obs)};\n"
                     f"     hc_same := {same} |}}")
    body = ";\n  ".join(cases)
    return (HEAD.replace("Model.Fitness.", "Model.Fitness Model.FitnessHist.") + "\n".join(defs)
            + f"\nDefinition cases : list hist_case := [\n  {body}\n].\n"
            "Eval vm_compute in hist_mismatches src_fdesc src_checker src_calls src_weights cases.\n"
            "Eval vm_compute in hist_violations cases.\n")


def run_hist_files(ctx, pairs, tag, per=12):
    """-> (mismatching (pair, step), violating (pair, step)) judged inside Coq"""
    files, chunks = {}, {}
    for k in range(0, len(pairs), per):
        nm = f"{tag}_{k // per:03d}"
        files[nm] = emit_hist(pairs[k:k + per])
        chunks[nm] = pairs[k:k + per]
    res = core.coq_eval_many(ctx, files, timeout=900, par=8)
    mism, viol = [], []
    for name in sorted(files):
        ok, evals, se = res[name]
        if not ok or len(evals) != 2:
            ctx.broken.append(Broken("correspondence", f"case file {name}.v did not evaluate", core.tail(se, 15)))
            continue
        mism += [(chunks[name][code // 1000], code % 1000) for code in core.parse_int_list(evals[0])]
        viol += [(chunks[name][code // 1000], code % 1000) for code in core.parse_int_list(evals[1])]
    return mism, viol


def run_hist_cases(ctx, cases, tag):
    payloads = [hist_payload(c) for c in cases]
    obs = driver(ctx, payloads, 6)
    bad = [i for i, o in enumerate(obs) if "crash" in o]
    if bad:
        ctx.log(f"{tag}: {len(bad)} payloads lost to crashed workers; retrying")
        again = core.run_driver(ctx, "c11", [payloads[i] for i in bad], workers=2, timeout=1500)
        for i, o in zip(bad, again):
            obs[i] = o
    pairs = []
    for c, o in zip(cases, obs):
        usable = o.get("o") in ("ok", "ctor") and (o.get("o") == "ctor" or len(o["obs"]) == len(c["ops"])) \
            and hist_obs_list(c, o) is not None
        if not usable:
            ctx.broken.append(Broken("correspondence", f"implementation driver failed ({tag})", str(o)[:600], hist_payload(c)))
            continue
        pairs.append((c, o))
    mism, viol = run_hist_files(ctx, pairs, tag)
    return pairs, mism, viol


def hist_class(c, o, step):
    """names the way a violating step of a history relates to what came before (naming only)"""
    if step == 999:
        return "data_changed"
    ops = c["ops"]
    earlier_fit = [j for j in range(step) if ops[j]["op"] == "fit"]
    if not earlier_fit:
        return "fresh"
    if o.get("o") == "ok":
        me = o["obs"][step]
        for j in range(step):
            if ops[j]["op"] != "nop" and ops[j]["id"] == ops[step]["id"] and o["obs"][j] != me:
                return "same_vector_other_value"
    return "after_other_evaluations"


def hist_violation(c, o, step) -> Violation:
    cls = hist_class(c, o, step)
    case = hist_payload(c)
    desc = (f"ff={c['ff']}, multi={c['multi']}, targets={len(c['targets'])} of shape {tshape_of(c)}, offsets={c['offsets']}, "
            f"weights={'yes' if c['weights'] else 'no'}, trng={c['trng']}, orng={c['orng']}")
    if cls == "data_changed":
        return Violation(clause="fitness_history", case=case, observed=o,
                         expected="target data, weights and processors of the problem are the same before and after",
                         what=f"evaluating fitness changed the data of the problem object ({desc})",
                         sig=dict(clause="fitness_history", cls=cls))
    op = c["ops"][step]
    seq = [(f"{x['op']}(gain={float(x['gain'])}, bias={float(x['bias'])})" if x["op"] != "nop" else "other call")
           for x in c["ops"][:step + 1]]
    got = o["obs"][step] if o.get("o") == "ok" else o
    return Violation(clause="fitness_history", case=case, observed=dict(step=step, got=got, all=o.get("obs")),
                     expected="the declared figure of merit of this decision vector (what a freshly built problem returns), "
                              "whatever the same problem object evaluated before",
                     what=f"problem.fitness depends on the history of the problem object ({cls}): step {step} of "
                          f"{' ; '.join(seq)} returns {got} ({desc})",
                     sig=dict(clause="fitness_history", cls=cls))


def hist_size(c):
    return (len(c["ops"]), len(json.dumps(hist_payload(c))))


def shrink_hist(ctx, c, step):
    """smaller histories that may show the same thing: [one earlier evaluation, the failing one], the prefix without
    copies and other calls, the plain prefix.  Judged again by implementation + Coq; the smallest still violating wins."""
    ops = c["ops"]
    if step == 999:
        return None
    cands = []
    for j in range(step):
        if ops[j]["op"] == "fit":
            cands.append([ops[j], ops[step]])
    cands.append([x for x in ops[:step] if x["op"] == "fit"] + [ops[step]])
    cands.append(ops[:step + 1])
    cs = []
    for cand in cands:
        ids = {}
        new = []
        for x in cand:
            new.append(dict(x, id=ids.setdefault(x["id"], len(ids))) if x["op"] != "nop" else x)
        cs.append(dict(c, ops=new))
    pairs, _, viol = run_hist_cases(ctx, cs, "hshrink")
    good = [(cc, oo, st) for (cc, oo), st in viol if st == len(cc["ops"]) - 1]
    if not good:
        return None
    return min(good, key=lambda t: hist_size(t[0]))


def leg_hist(ctx, cases, tag="hist", shrink=True):
    pairs, mism, viol = run_hist_cases(ctx, cases, tag)
    for c, o in pairs:
        ctx.count("history_cases")
        nfit = sum(1 for x in c["ops"] if x["op"] != "nop")
        ctx.count("evaluations", nfit)
        ctx.count("history_evaluations", nfit)
        ctx.dist("hist_targets", len(c["targets"]))
        ctx.dist("hist_length", len(c["ops"]))
        ctx.dist("hist_conf", c.get("rel", "replay"))
        for x in c["ops"]:
            ctx.dist("hist_op", x["op"])
        reps = len([x for x in c["ops"] if x["op"] != "nop"]) - len({x["id"] for x in c["ops"] if x["op"] != "nop"})
        ctx.dist("hist_repeated_vectors", min(reps, 3))
    for (c, o), step in mism:
        ctx.broken.append(Broken("correspondence", "Model/FitnessHist.v run_hist vs a history of ModelFittingDataTree.fitness calls",
                                 f"model and implementation differ at step {step}: {o.get('obs', o)} on {hist_payload(c)}"[:1500],
                                 dict(case=hist_payload(c), observed=o)))
    best = {}
    # a history whose FIRST evaluation (fresh object) is already wrong says nothing about history dependence: it is
    # reported as the plain problem.fitness violation it is, its later steps are not reported separately
    fresh_bad = {id(c) for (c, o), step in viol if hist_class(c, o, step) == "fresh"}
    for (c, o), step in viol:
        cls = hist_class(c, o, step)
        if id(c) in fresh_bad and cls != "fresh":
            continue
        if cls == "fresh":
            # the very first evaluation on the new object is already wrong: a plain problem.fitness violation
            fc = hist_fit_case(c, c["ops"][step])
            fo = o["obs"][step] if o.get("o") == "ok" else o
            key = "fresh" + json.dumps(fit_sig(fc, fo), sort_keys=True)
            if key not in best:
                best[key] = ("fit", fc, fo, 0)
            continue
        size = (step if step != 999 else 0, ) + hist_size(c)
        if cls not in best or size < best[cls][3]:
            best[cls] = ("hist", c, o, size, step)
    for key, item in best.items():
        if item[0] == "fit":
            ctx.violations.append(fit_violation(dict(item[1], flag=None, rel="hist"), item[2]))
            continue
        _, c, o, _, step = item
        if shrink:
            sm = shrink_hist(ctx, c, step)
            if sm is not None:
                c, o, step = sm
        ctx.violations.append(hist_violation(c, o, step))
    ctx.count("history_spec_violations", len(viol))
    return pairs, mism, viol


# ------------------------------------------------------------------------------------------ calibration runs


def gen_calib(r, count, with_single, quick=False):
    cases = []
    for i in range(count):
        rows, cols = r.randrange(2, 4), r.randrange(2, 4)
        multi = i % 3 == 2 or (quick and i == 1)
        steps = 2 if multi else 1
        nt = r.choice([1, 2, 3])
        if i == 0:
            nt = max(nt, 2)            # the first run always has several targets and reports its whole populations
        pattern = [[r.randrange(1, 9) for _ in range(cols)] for _ in range(rows)]
        offsets = [r.randrange(0, 6) for _ in range(nt)] if nt > 1 or r.random() < 0.5 else None
        g, b = r.randrange(1, 6), r.randrange(-2, 3)
        targets = [[[[g * v * (t + 1) + (offsets[k] if offsets else 0) + b + r.randrange(-1, 2) for v in row]
                     for row in pattern] for t in range(steps)] for k in range(nt)]
        tr, tc = sub_range(r, rows), sub_range(r, cols)
        orow, ocol = tr, tc
        if i % 4 == 3 and tr[1] - tr[0] < rows:
            a = r.choice([a for a in range(0, rows - (tr[1] - tr[0]) + 1) if a != tr[0]])
            orow = (a, a + tr[1] - tr[0])              # shifted result range of equal extent
        if i % 5 == 4:
            tr = orow = (None, None) if tr == (0, rows) else (tr[0], None) if tr[1] == rows else tr   # open components
        weights = dict(scalar=[r.choice([1, 2, 3]) for _ in range(nt)]) if (i % 2 == 0 and r.random() < 0.7) else None
        cases.append(dict(kind="calib", ff=r.choice(["abs", "sq"]), free=0, multi=multi, steps=steps, pattern=pattern,
                          offsets=offsets, targets=targets, trng=rng2(tr, tc),
                          orng=rng3((0, steps) if (multi and i % 2 == 0) else (None, None), orow, ocol),
                          weights=weights, bypass=False, seed=r.randrange(1, 10000), islands=2, pop=7, generations=2,
                          evolutions=r.choice([3, 4, 5]), num_best=7 if i == 0 else r.choice([None, 3, 7])))
    if with_single:
        c = dict(cases[0])
        c["single_param"] = True
        cases.append(c)
    return cases


def emit_champ(rows):
    body = ";\n  ".join(
        f"{{| ch_seq := {core.clist(f'(Qmake ({n}) {d})' for n, d in seq)}; ch_reeval := (Qmake ({re[0]}) {re[1]}); "
        f"ch_recomp := {'None' if rc is None else f'(Some (Qmake ({rc[0]}) {rc[1]}))'} |}}" for seq, re, rc in rows)
    return (HEAD + f"Definition cases : list champ_case := [\n  {body}\n].\n"
            "Eval vm_compute in @nil Z.\nEval vm_compute in champ_violations cases.\n")


def emit_indiv(rows):
    body = ";\n  ".join(f"{{| iv_reported := (Qmake ({a[0]}) {a[1]}); iv_fresh := (Qmake ({b[0]}) {b[1]}) |}}" for a, b in rows)
    return (HEAD.replace("Model.Fitness.", "Model.Fitness Model.FitnessHist.")
            + f"Definition cases : list indiv_case := [\n  {body}\n].\n"
            "Eval vm_compute in @nil Z.\nEval vm_compute in indiv_violations cases.\n")


# ------------------------------------------------------------------------------------------ legs


# One pool of driver processes serves every leg: each process pays the interpreter start, the imports and numba's
# compilation of the three fitness functions (per array rank) once, instead of once per leg.
_PREFETCHED: dict[str, dict] = {}


def _key(payload) -> str:
    return json.dumps(payload, sort_keys=True)


def prefetch(ctx, payloads, workers=6):
    keys = list(dict.fromkeys(_key(p) for p in payloads))
    keys = [k for k in keys if k not in _PREFETCHED]
    if not keys:
        return
    __import__("random").Random(0).shuffle(keys)           # every worker gets the same mix of cheap and expensive payloads
    obs = core.run_driver(ctx, "c11", [json.loads(k) for k in keys], workers=workers, timeout=1500)
    for k, o in zip(keys, obs):
        if "crash" not in o:
            _PREFETCHED[k] = o


def driver(ctx, payloads, workers, timeout=900):
    """results of the implementation driver, from the prefetched pool where available"""
    keys = [_key(p) for p in payloads]
    missing = list(dict.fromkeys(k for k in keys if k not in _PREFETCHED))
    got = {}
    if missing:
        obs = core.run_driver(ctx, "c11", [json.loads(k) for k in missing], workers=workers, timeout=timeout)
        got = dict(zip(missing, obs))
    return [_PREFETCHED[k] if k in _PREFETCHED else got[k] for k in keys]


def eval_files(ctx, files, chunks, label):
    """-> (mismatching items, violating items)"""
    res = core.coq_eval_many(ctx, files, timeout=900, par=8)
    mism, viol = [], []
    for name in sorted(files):
        ok, evals, se = res[name]
        chunk = chunks[name]
        if not ok or len(evals) != 2:
            ctx.broken.append(Broken("correspondence", f"case file {name}.v did not evaluate", core.tail(se, 15)))
            continue
        mism += [chunk[i] for i in core.parse_int_list(evals[0])]
        viol += [chunk[i] for i in core.parse_int_list(evals[1])]
    return mism, viol


def run_kind(ctx, cases, payload_of, emit, tag, per, workers=8):
    payloads = [payload_of(c) for c in cases]
    obs = driver(ctx, payloads, workers)
    bad = [i for i, o in enumerate(obs) if "crash" in o]
    if bad:          # a worker died (overloaded machine): retry those payloads once, with fewer workers
        ctx.log(f"{tag}: {len(bad)} payloads lost to crashed workers ({str(obs[bad[0]])[:300]}); retrying")
        again = core.run_driver(ctx, "c11", [payloads[i] for i in bad], workers=max(1, workers // 3), timeout=1500)
        for i, o in zip(bad, again):
            obs[i] = o
    pairs = []
    for c, o in zip(cases, obs):
        if "crash" in o or "driver_error" in o or o.get("o") == "nan":
            ctx.broken.append(Broken("correspondence", f"implementation driver failed ({tag})", str(o)[:600], jsonable(c)))
            continue
        pairs.append((c, o))
    files, chunks = {}, {}
    for k in range(0, len(pairs), per):
        nm = f"{tag}_{k // per:03d}"
        files[nm] = emit(pairs[k:k + per])
        chunks[nm] = pairs[k:k + per]
    mism, viol = eval_files(ctx, files, chunks, tag)
    return pairs, mism, viol


def leg_ck(ctx, cases, tag="ck"):
    pairs, mism, viol = run_kind(ctx, cases, lambda c: c, emit_ck, tag, 400, workers=4)
    for c, o in pairs:
        ctx.count("evaluations")
        ctx.dist("checker_verdict", o["o"])
    ctx.count("checker_cases", len(pairs))
    for c, o in mism:
        ctx.broken.append(Broken("correspondence", "Model/Fitness.v check vs check_fit_ranges",
                                 f"model and implementation differ on {c}", dict(case=c, observed=o)))
    # one (smallest) case per input class
    best = {}
    for c, o in viol:
        _, sig = classify_ck(c, o)
        key = json.dumps(sig, sort_keys=True)
        if key not in best or ck_size(c) < ck_size(best[key][0]):
            best[key] = (c, o)
    for c, o in best.values():
        ctx.violations.append(ck_violation(c, o))
    ctx.count("checker_spec_violations", len(viol))
    return pairs, mism, viol


def leg_ff(ctx, cases, tag="ff"):
    pairs, mism, _ = run_kind(ctx, cases, ff_payload, emit_ff, tag, 300, workers=2)
    for c, o in pairs:
        ctx.count("evaluations")
        ctx.dist("fitness_function", c["ff"])
    for c, o in mism:
        ctx.broken.append(Broken("correspondence", "Model/Fitness.v fitness function vs pyxel.calibration.fitness",
                                 f"model and implementation differ on {jsonable(c)} -> {o}",
                                 dict(case=jsonable(c), observed=o)))
    return pairs, mism


def fit_payload(c):
    return jsonable({k: v for k, v in c.items() if k not in ("flag", "rel")})


def leg_fit(ctx, cases, tag="fit"):
    pairs, mism, viol = run_kind(ctx, cases, fit_payload, emit_fit, tag, 40, workers=6)
    for c, o in pairs:
        ctx.count("evaluations")
        ctx.count("problem_fitness_cases")
        ctx.dist("fit_ff", c["ff"])
        ctx.dist("fit_readout", "multi" if c["multi"] else "single")
        ctx.dist("fit_targets", len(c["targets"]))
        ctx.dist("fit_weights", "none" if not c["weights"] else next(iter(c["weights"])))
        ctx.dist("fit_observed", o["o"])
        ctx.dist("fit_ranges", "bypass-shifted" if c["bypass"] else
                 ("full" if fit_flags(c) and (tuple(c["trng"]["row"]), tuple(c["trng"]["col"])) ==
                  ((0, len(c["pattern"])), (0, len(c["pattern"][0]))) else "sub"))
        (tt, ty, tx), (dt, dy, dx) = tshape_of(c), dshape_of(c)
        ctx.dist("fit_target_vs_frame", "same" if (tt, ty, tx) == (dt, dy, dx) else
                 "+".join(f"{n}{'<' if a < b else '>'}" for n, a, b in (("t", tt, dt), ("y", ty, dy), ("x", tx, dx)) if a != b))
        v, cls = py_verdict(c)
        ctx.dist("fit_spec_verdict", f"{v}:{cls}" if cls else v)
    for c, o in mism:
        ctx.broken.append(Broken("correspondence", "Model/Fitness.v model_fit vs ModelFittingDataTree.fitness",
                                 f"model and implementation differ: {o} on {jsonable(c)}"[:1500],
                                 dict(case=jsonable(c), observed=o)))
    best = {}
    for c, o in viol:
        key = json.dumps(fit_sig(c, o), sort_keys=True)
        size = len(json.dumps(jsonable(c)))
        if key not in best or size < best[key][2]:
            best[key] = (c, o, size)
    for c, o, _ in best.values():
        ctx.violations.append(fit_violation(c, o))
    ctx.count("fitness_spec_violations", len(viol))
    return pairs, mism, viol


def leg_calib(ctx, cases):
    obs = driver(ctx, [jsonable(c) for c in cases], min(6, max(1, len(cases))), timeout=1200)
    bad = [i for i, o in enumerate(obs) if "crash" in o]
    if bad:
        ctx.log(f"calibration: {len(bad)} payloads lost to crashed workers ({str(obs[bad[0]])[:300]}); retrying")
        again = core.run_driver(ctx, "c11", [jsonable(cases[i]) for i in bad], workers=2, timeout=1500)
        for i, o in zip(bad, again):
            obs[i] = o
    rows, owner = [], []
    indiv_rows = []
    for c, o in zip(cases, obs):
        jc = jsonable(c)
        if "crash" in o or "driver_error" in o:
            ctx.broken.append(Broken("correspondence", "calibration driver failed", str(o)[:800], jc))
            continue
        ctx.count("calibration_runs")
        if o["o"] == "ctor":
            # every generated calibration declares ranges of equal extent inside target and frame
            v, cls = py_verdict(c)
            if v == "accept":
                ctx.violations.append(Violation(
                    clause="range_accepted", case=jc, observed=o,
                    expected="the problem is constructed and the calibration runs",
                    what=f"fit ranges of equal extent inside the target are refused at construction ({cls}; trng={c['trng']}, "
                         f"orng={c['orng']}): {o['cls']}: {o['msg'][:120]}",
                    sig=dict(clause="range_accepted", cls=cls, t3d=False)))
            else:
                ctx.broken.append(Broken("correspondence", "calibration case not constructible", str(o)[:800], jc))
            continue
        if o["o"] == "evolve_raise":
            if c.get("single_param"):
                ctx.violations.append(Violation(
                    clause="resimulation", case=jc, observed=o, expected="champions re-simulated",
                    what="a calibration with a single scalar parameter raises while re-simulating the champions "
                         f"({o['cls']}: {o['msg'][:120]})",
                    sig=dict(clause="resimulation", cls="single_parameter_raises", exc=o["cls"])))
            elif c["multi"] and c["orng"]["time"][1] is None and o["cls"] == "ValueError" and "'stop'" in o["msg"]:
                ctx.violations.append(Violation(
                    clause="resimulation", case=jc, observed=o, expected="champions re-simulated and returned",
                    what="time-domain calibration with an open result time range (4-value result_fit_range): run_evolve "
                         f"raises after the optimisation ({o['cls']}: {o['msg'][:120]})",
                    sig=dict(clause="resimulation", cls="open_result_time_range", exc=o["cls"])))
            else:
                ctx.broken.append(Broken("correspondence", "run_evolve raised", str(o)[:800], jc))
            continue
        if "indiv_error" in o:
            ctx.broken.append(Broken("correspondence", "reported individuals could not be re-evaluated on a fresh problem",
                                     str(o["indiv_error"])[:600], jc))
        for iv in o.get("indiv", []):
            ctx.count("reported_individuals_reevaluated")
            ctx.dist("reported_individual", iv["kind"])
            if iv["reported"]["o"] == "val" and iv["fresh"]["o"] == "val":
                indiv_rows.append((c, iv))
            elif iv["reported"]["o"] != iv["fresh"]["o"]:
                ctx.broken.append(Broken("correspondence", "reported individual: non-finite fitness", str(iv)[:600], jc))
        for i, seq in enumerate(o["fitness"]):
            rows.append((seq, o["reeval"][i], o["recomp"][i]))
            owner.append((c, o, i, "parameters"))
            if "from_returned" in o:
                rows.append((seq, o["reeval"][i], o["from_returned"][i]))
                owner.append((c, o, i, "returned"))
            ctx.count("evaluations", len(seq))
        if o["sim"]["o"] != "ok" and c.get("single_param") and o["sim"]["cls"] == "IndexError":
            ctx.violations.append(Violation(
                clause="resimulation", case=jc, observed=o["sim"], expected="champions re-simulated",
                what="a calibration with a single scalar parameter raises while re-simulating the champions "
                     f"({o['sim']['cls']}: {o['sim']['msg'][:120]})",
                sig=dict(clause="resimulation", cls="single_parameter_raises", exc=o["sim"]["cls"])))
        elif o["sim"]["o"] != "ok":
            ctx.violations.append(Violation(
                clause="resimulation", case=jc, observed=o["sim"],
                expected="/simulated/<bucket> of the returned DataTree can be computed and reproduces the champion fitness",
                what=f"the returned /simulated data cannot be computed: {o['sim']['cls']}: {o['sim']['msg'][:120]}",
                sig=dict(clause="resimulation", cls="simulated_not_computable", exc=o["sim"]["cls"])))
    judge_individuals(ctx, indiv_rows)
    if not rows:
        return
    res = core.coq_eval(ctx, "champ_000", emit_champ([(s, re, rc) for s, re, rc in rows]))
    ok, evals, se = res
    if not ok or len(evals) != 2:
        ctx.broken.append(Broken("correspondence", "case file champ_000.v did not evaluate", core.tail(se, 15)))
        return
    for i in core.parse_int_list(evals[1]):
        c, o, isl, src = owner[i]
        seq = [Fraction(int(n), int(d)) for n, d in o["fitness"][isl]]
        mono = all(b <= a for a, b in zip(seq, seq[1:]))
        cls = "not_monotone" if not mono else ("reeval_differs" if Fraction(*map(int, o["reeval"][isl])) != seq[-1]
                                               else f"recomputation_from_{src}_differs")
        ctx.violations.append(Violation(
            clause="champion", case=jsonable(c), observed=dict(island=isl, fitness=[float(x) for x in seq],
                                                               reeval=float(Fraction(*map(int, o["reeval"][isl]))),
                                                               recomp=float(Fraction(*map(int, rows[i][2])))),
            expected="non-increasing champion fitness; last value = problem.fitness(champion) = independent recomputation",
            what=f"champion bookkeeping: {cls}", sig=dict(clause="champion", cls=cls)))
    ctx.cov["champion_islands_checked"] = len(rows)


def judge_individuals(ctx, indiv_rows):
    """every individual a calibration reports carries the fitness a fresh problem returns for its vector (exactly: the
    same floating-point computation) — judged inside Coq"""
    if not indiv_rows:
        return
    ok, evals, se = core.coq_eval(ctx, "indiv_000", emit_indiv([(iv["reported"]["q"], iv["fresh"]["q"]) for _, iv in indiv_rows]))
    if not ok or len(evals) != 2:
        ctx.broken.append(Broken("correspondence", "case file indiv_000.v did not evaluate", core.tail(se, 15)))
        return
    bad = [indiv_rows[i] for i in core.parse_int_list(evals[1])]
    ctx.cov["reported_individuals_checked"] = ctx.cov.get("reported_individuals_checked", 0) + len(indiv_rows)
    first = {}
    for c, iv in bad:
        first.setdefault(iv["kind"], (c, iv, sum(1 for cc, x in bad if x["kind"] == iv["kind"] and cc is c)))
    for kind, (c, iv, n) in first.items():
        def fl(v):
            return int(v["q"][0]) / int(v["q"][1])
        ctx.violations.append(Violation(
            clause="reported_individual", case=jsonable(c), observed=dict(individual=iv, wrong_in_this_run=n),
            expected="the fitness attached to a reported individual is the figure of merit of its decision vector "
                     "(what a freshly built problem returns for it)",
            what=f"calibration result: {kind} individual (island {iv['island']}, evolution {iv['evolution']}) with decision "
                 f"{iv['x']} is reported with fitness {fl(iv['reported'])} but a fresh problem returns {fl(iv['fresh'])} "
                 f"({n} such individual(s) in this run; targets={len(c['targets'])})",
            sig=dict(clause="reported_individual", cls=kind)))


CLAUSE_ORDER = ["checker_sound", "checker_complete", "fitness_value", "fitness_history", "champion", "reported_individual",
                "resimulation", "range_rejected", "range_accepted"]


def order_violations(ctx: Ctx):
    """core.finish reports the first five distinct input classes: put one class of every clause first (round-robin
    over the clauses, the constructor-level duplicates of checker classes last) so that distinct defects are all shown"""
    seen, ranked = {}, []
    for i, v in enumerate(ctx.violations):
        key = json.dumps(v.sig, sort_keys=True) + v.clause
        per = seen.setdefault(v.clause, [])
        if key not in per:
            per.append(key)
        late = 10 if v.clause.startswith("range_") and v.sig.get("cls") in ("starts_differ", "absent_stop") else 0
        ci = CLAUSE_ORDER.index(v.clause) if v.clause in CLAUSE_ORDER else len(CLAUSE_ORDER)
        ranked.append((per.index(key) + late, ci, i, v))
    ranked.sort(key=lambda x: x[:3])
    ctx.violations[:] = [x[3] for x in ranked]


def new_violations(ctx: Ctx):
    fs = core.load_findings(ctx.prop)
    return [v for v in ctx.violations if not any(core.finding_matches(e, v) for e in fs)]


def run(ctx: Ctx):
    from translator import c11 as tr

    ctx.trusted += TRUSTED
    ctx.assumptions += [
        "range checker theorems: declared numbers are ordered and non-negative (in_domain); the result range is a "
        "FitRange3D (what Calibration always builds); check_fit_ranges resolves open result components against the target's "
        "size (the only size it is given)",
        "C11_model_meets_spec_partial: no target without a processor (C11-zip), result range inside the simulated frame and "
        "open result stops meaning the target's size (C11-F6d), 2-D target range selecting as many readout times as the "
        "target has (C11-F6e); rectangular arrays without an empty axis",
        "fitness correspondence: integer / dyadic frames (float arithmetic exact); reduced chi squared compared up to "
        "one rounding of the final division (2^-52 relative); the simulated frames come from the probe model "
        "verif_probes_c11.pattern whose formula the harness recomputes independently",
        "champion theorems are about the model champ' = min(champ, best of the evolution); pygmo itself is observed only",
        "history theorems: the state of the problem object is the list of scalar attributes (registers) the translator finds "
        "written by fitness; the translator refuses (fails closed on) every other way fitness or the methods it calls could "
        "keep state: writes to other attributes, item / attribute stores and in-place operations on objects that may belong "
        "to the problem, mutating method calls on attributes, global / nonlocal, decorators, nested definitions; the "
        "pipelines are a function `simulate` of the decision vector (true of the probe model)",
    ]
    gen = {}
    try:
        gen["Gen_C11.v"] = tr.translate(ctx.repo)
    except core.TranslationError as ex:
        ctx.broken.append(Broken("translation", "range checker (pyxel/calibration/util.py)", str(ex)))
        ctx.log("translation failed:", ex)
        gen["Gen_C11.v"] = tr.FALLBACK
    core.proof_leg(ctx, gen, PROP_FILE)
    ctx.log(f"proof leg done t={__import__('time').time() - ctx.t0:.0f}s")

    # numba compiles the three fitness functions in every driver process (no on-disk cache in the source): in the quick
    # tier at LLVM optimisation level 0 (about 2 s instead of 13 s per process; no fast-math either way, so the same
    # IEEE operations in the same order), in the thorough tier and in replays at the default level
    if ctx.quick:
        __import__("os").environ.setdefault("NUMBA_OPT", "0")
    # cases of every leg (one PRNG stream per leg), then ONE pool of implementation processes for all of them
    r = ctx.rng("ck")
    ck_cases = ck_exhaustive([1, 2] if ctx.quick else [1, 2, 3, 4, 5])
    ck_cases += ck_random(r, ctx.budget(400, 4000), malformed=False)
    ck_cases += ck_random(r, ctx.budget(250, 2000), malformed=True)
    ff_cases = gen_ff(ctx.rng("ff"), ctx.budget(300, 1500))
    fit_cases = load_corpus()
    ctx.cov["corpus_cases"] = len(fit_cases)
    fit_cases += gen_fit_sizes(ctx.rng("fitsizes"), ctx.quick) + gen_fit(ctx.rng("fit"), ctx.budget(72, 480))
    hist_cases = load_corpus_hist()
    ctx.cov["corpus_histories"] = len(hist_cases)
    hist_cases += gen_hist_exhaustive(2, False) if ctx.quick else gen_hist_exhaustive(3, True)
    hist_cases += gen_hist(ctx.rng("hist"), ctx.budget(30, 240), 9 if ctx.quick else 14)
    calib_cases = gen_calib(ctx.rng("calib"), ctx.budget(2, 10), with_single=True, quick=ctx.quick)
    prefetch(ctx, ck_cases + [ff_payload(c) for c in ff_cases] + [fit_payload(c) for c in fit_cases]
             + [hist_payload(c) for c in hist_cases] + [jsonable(c) for c in calib_cases], workers=ctx.budget(6, 8))
    ctx.log(f"implementation runs done ({len(_PREFETCHED)} payloads) t={__import__('time').time() - ctx.t0:.0f}s")

    # 1. range checker
    ck_pairs, _, _ = leg_ck(ctx, ck_cases)
    ctx.log(f"checker leg done ({len(ck_pairs)} cases) t={__import__('time').time() - ctx.t0:.0f}s")
    ctx.cov["exhaustive"] = ("check_fit_ranges: every (target slice, result slice) pair per dimension with bounds in "
                             f"{{None, 0..n+1}} for n <= {2 if ctx.quick else 5}; every history of "
                             + ("2 evaluations" if ctx.quick else "<= 3 evaluations (on the object or on a copy)")
                             + " over three decision vectors on one problem object with 2 and with 3 targets")

    # 2. the three functions, then problem.fitness
    leg_ff(ctx, ff_cases)
    ctx.log(f"fitness-function leg done t={__import__('time').time() - ctx.t0:.0f}s")
    fit_pairs, _, _ = leg_fit(ctx, fit_cases)
    ctx.log(f"problem.fitness leg done ({len(fit_pairs)} cases) t={__import__('time').time() - ctx.t0:.0f}s")

    # 2b. histories of evaluations on one problem object
    hist_pairs, _, _ = leg_hist(ctx, hist_cases)
    ctx.log(f"history leg done ({len(hist_pairs)} histories) t={__import__('time').time() - ctx.t0:.0f}s")

    # 3. real calibrations
    leg_calib(ctx, calib_cases)
    ctx.log(f"calibration leg done t={__import__('time').time() - ctx.t0:.0f}s")

    distinct = {json.dumps(c, sort_keys=True) for c, _ in ck_pairs if c["t"] and c["o"] and c["t"] != c["o"]}
    distinct |= {json.dumps(jsonable(c), sort_keys=True) for c, _ in fit_pairs
                 if len(c["targets"]) > 1 or c["weights"] or c["bypass"]}
    distinct |= {json.dumps(hist_payload(c), sort_keys=True) for c, _ in hist_pairs
                 if sum(1 for x in c["ops"] if x["op"] == "fit") >= 2}
    ctx.cov["distinct_nontrivial"] = len(distinct)
    ctx.cov["rule"] = ("checker cases whose target and result ranges differ; problem.fitness cases with more than one "
                       "target, or weights, or a shifted result range; histories with at least two evaluations on the object")
    ctx.cov["traces_validated_against_impl"] = len(ck_pairs) + len(fit_pairs) + len(hist_pairs)
    ctx.cov["disagreements_checked"] = sum(1 for b in ctx.broken if b.kind == "correspondence")
    for c, o in fit_pairs[:3]:
        ctx.sample(dict(ff=c["ff"], multi=c["multi"], trng=c["trng"], orng=c["orng"], offsets=c["offsets"],
                        weights=jsonable(c["weights"]), gain=float(c["gain"]), observed=o.get("o"),
                        value=(int(o["q"][0]) / int(o["q"][1]) if o.get("o") == "val" else None)))
    for c, o in ck_pairs[:2]:
        ctx.sample(dict(checker=c, observed=o))
    # VERIF_C11_SEARCH=1 runs the deeper search unconditionally (used to check that it raises no alarm on a sound tree)
    if (ctx.broken and not new_violations(ctx)) or __import__("os").environ.get("VERIF_C11_SEARCH"):
        search(ctx)
    order_violations(ctx)


def search(ctx: Ctx):
    """A proof obligation or the correspondence broke: look harder for a concrete failing input."""
    ctx.log("searching for a concrete failing input (bigger budget)")
    r = ctx.rng("search")
    leg_ck(ctx, ck_exhaustive([1, 2, 3]) + ck_random(r, 3000, malformed=False), tag="sck")
    if not new_violations(ctx):
        leg_fit(ctx, gen_fit_sizes(ctx.rng("sfitsizes"), quick=False) + gen_fit(ctx.rng("sfit"), 240, flagged_share=0.1),
                tag="sfit")
    if not new_violations(ctx):
        leg_hist(ctx, gen_hist(ctx.rng("shist"), 120, 14), tag="shist")
    if not new_violations(ctx):
        # very large figures of merit (targets near 2^36, exact in binary64 with the absolute residuals): thresholds,
        # caps and guards on the running sum that ordinary values never reach
        r = ctx.rng("sbig")
        fits = [bigify(c) for c in gen_fit(r, 60, flagged_share=0.0) if py_verdict(c)[0] == "accept" and not known_classes(c)]
        leg_fit(ctx, fits, tag="sbig")
        leg_hist(ctx, [bigify(c) for c in gen_hist(r, 30, 9)], tag="sbigh")
    ctx.cov["search"] = True


def replay(ctx: Ctx, rp: dict) -> int:
    case = rp.get("case")
    if rp.get("kind") != "input" or not case:
        print(f"replay names a {rp.get('kind')} that no longer checks: {rp.get('no_longer_checks')}")
        print(rp.get("detail", ""))
        return 1
    from translator import c11 as tr
    gen = ctx.build / "gen"
    gen.mkdir(parents=True, exist_ok=True)
    try:
        text = tr.translate(ctx.repo)
    except core.TranslationError:
        text = tr.FALLBACK
    (gen / "Gen_C11.v").write_text(text)
    core.ensure_lib(ctx, targets=core.lib_targets_of([text]))
    core.coqc(ctx, gen / "Gen_C11.v", [(gen, "PyxelGen")])
    kind = case.get("kind")
    n0 = len(ctx.violations)
    if kind == "ck":
        leg_ck(ctx, [case], tag="replay")
    elif kind == "fit":
        leg_fit(ctx, [unjson_fit(case)], tag="replay")
    elif kind == "hist":
        leg_hist(ctx, [unjson_hist(case)], tag="replay", shrink=False)
    elif kind == "calib":
        leg_calib(ctx, [case])
    # a calibration run shows several clauses at once (e.g. the open C11-resim): the replay is about its own clause
    mine = [v for v in ctx.violations[n0:] if kind != "calib" or not rp.get("clause") or v.clause == rp["clause"]]
    bad = bool(mine)
    for v in mine:
        print("implementation now:", v.observed)
        print(v.what)
    for b in ctx.broken:
        print("broken:", b.kind, b.name, b.detail[:300])
    print("specification (evaluated in Coq):", "VIOLATED" if bad else "holds")
    return 1 if (bad or ctx.broken) else 0


META = dict(
    level_text=(
        "Coq theorems (closed under the global context) over tables regenerated from the source on every run: (1) the "
        "comparisons of the fit-range checker (calibration/util.py): for all ranges, sizes and readout counts in the domain "
        "(ordered non-negative numbers, absent components allowed) check_fit_ranges accepts EXACTLY the pairs of equal extent "
        "with the target range inside the target (C11_checker_sound / _complete / _decides); (2) the sizes the constructor "
        "passes to it (fitting_datatree.py call sites = sizes of the target data): a target range accepted at construction "
        "lies inside the target data, so no problem object exists for a range exceeding the target "
        "(C11_ctor_rejects_exceeding, C11_exceeding_never_optimised); (3) the problem object: whenever problem.fitness "
        "yields anything it is the declared sum over all (processor, target) pairs of the configured function on "
        "result[result range], target[target range] with weight k, for 2-D and 3-D target ranges, single- and multi-readout "
        "targets, no/scalar/file weights (C11_fitness_is_declared, by induction over the pair list; needs #targets <= "
        "#processors: zip drops targets, refuted in general); (4) the model MEETS the specification used to judge the "
        "implementation outside the input classes of the three open findings (C11_model_meets_spec_partial; the full "
        "statement is refuted with witnesses for F6d, F6e, zip); (5) champion tracking min(previous, best of the evolution) "
        "is non-increasing, a lower bound of everything met and an actually computed value; (6) the problem object WITH its "
        "mutable state (Model/FitnessHist.v: scalar attributes as registers, guarded writes / break / continue / return around "
        "the accumulation, description regenerated from ModelFittingDataTree.fitness): for every history of operations on one "
        "object (fitness of any vectors in any order, repeated, on copies, interleaved with other calls) and whatever earlier "
        "calls left behind, every fitness is the stateless model's value at THAT vector, the same vector gets the same value "
        "everywhere, and it is the declared sum over all targets (C11_fitness_history_independent, "
        "C11_same_vector_same_fitness, C11_history_fitness_is_declared; for any description whose exits and returned "
        "expressions read no register: C11_state_blind_is_pure). The model is tied to the code "
        "by evaluating it inside Coq against the real check_fit_ranges (exhaustive per dimension for small sizes), the "
        "three real fitness functions, problem.fitness(x) on integer-valued probe frames (exact; targets smaller/larger "
        "than the frame in rows, columns and readout times), HISTORIES of evaluations on one problem object (good candidate "
        "first, worse ones after, repeated and nearly equal vectors, evaluations on deep copies / pickle round trips, other "
        "calls in between; 1..3 targets; every step judged against the history-free specification, equal vectors must get "
        "equal values, the problem's data must be unchanged; small-scope exhaustive enumeration) and real tiny calibrations "
        "(/champion/fitness non-increasing, last value = problem.fitness(champion) = independent numpy recomputation; EVERY "
        "reported individual - the champion of every island after every evolution, every member of /best - re-evaluated on "
        "a freshly built problem, exact equality); the implementation's outputs are judged inside Coq against the "
        "specification."),
    level_note=(
        "Proved for all inputs: statements about the Gallina model. Established by correspondence (= testing): that the "
        "model's checker/constructor/fitness/pairing/weights behave like the Python on the generated cases; pygmo's "
        "champion tracking and the re-simulation are observed on real runs only (the returned /simulated data cannot be "
        "computed at all: C11-resim). Trusted: Coq kernel + vm_compute, translator/c11.py, the harness and driver, "
        "numpy/numba/xarray semantics on exact inputs. Seeding of calibration (C04/F1) is not covered."),
    technique="Coq proof over generated checker / call-site / weights tables and the generated description of the fitness method's state + inductive sum/history/champion theorems + in-Coq correspondence/spec evaluation",
    design_ref="DESIGN.md section 6, C11",
)
