"""C03 — the returned result is a faithful, complete record of every step."""
from __future__ import annotations

import copy
import json
import math

from translator import c03 as tr

from .. import core
from ..core import Broken, Ctx, Violation

PROP_FILE = "Properties/C03.v"
TICK = 8
GROUP_ORDER = ["photon_collection", "charge_generation", "charge_collection", "charge_measurement",
               "readout_electronics", "data_processing"]
BUCKETS = ["photon", "charge", "pixel", "signal", "image"]
CB = dict(photon="Photon", charge="Charge", pixel="Pixel", signal="Signal", image="Image")
CDT = dict(uint8="U8", uint16="U16", uint32="U32", uint64="U64", float16="F16", float32="F32", float64="F64")
UMAX = dict(uint8=2 ** 8, uint16=2 ** 16, uint32=2 ** 32, uint64=2 ** 53)
CMODE = dict(assign="WAssign", iadd="WIAdd", iset="WISet")
SENTINEL = -777777
CLAUSES = {1: "run_raised", 2: "slices_differ_from_snapshots", 3: "node_paths", 4: "scene_data_passthrough",
           5: "debug_changes_result", 6: "debug_nodes"}

TRUSTED = [
    "translator/c03.py (python ast -> Gen_C03.src_tables / src_shape: exported and captured containers, time label, which "
    "to_xarray copies, which to_xarray SETS the y / x coordinates (and which only adds them when the stored array has none), "
    "dims / coordinate origins / dtype conversion, concatenation and dtype restoration in run_pipeline (image only, guarded, "
    "skipped while the variable has an unsigned type), keys of the final tree, debug reference; fails closed on any other shape)",
    "correspondence harness: harness/props/c03.py generators and literal emitters, harness/drivers/c03.py "
    "(canonical form of the returned DataTree), probes/verif_probes_c03.py (writer models, the last-running recorder)",
    "modelled, not verified: xarray concat/expand_dims/DataTree (concatenation along time appends the slice of the step; "
    "every variable gets numpy's common type of its slices -- Example C03_join_is_numpys states the table --, a missing slice "
    "counts as float64; widening changes no value; astype to the dtype of the current image), `dataset[key] = data_array` and "
    "xr.concat leave variables alone whose y / x labels agree (the model has NO result when they differ), numpy casts and "
    "in-place arithmetic, np.allclose on exact small integers, which numpy/xarray operations copy a buffer (np.array, astype, "
    ".copy) and which do not",
    "time labels on the 1/8 s grid (float64 start + t exact); array values are integers exactly representable in their dtype",
]


# ------------------------------------------------------------------------------------------ generation


def last_model():
    return dict(group="data_processing", name="zz_last", actions=[dict(kind="last")])


FLOAT_EXACT = dict(float16=2 ** 11, float32=2 ** 24, float64=2 ** 53)
WIDER = dict(float16="float32", float32="float64", uint8="uint16", uint16="uint32", uint32="uint64")


def dtype_at(a, i) -> str:
    return a["dtypes"][i] if a.get("dtypes") else a["dtype"]


def simulate(c) -> list:
    """What the writer probes do to the five containers, step by step (python twin of Model/Result.v
    apply_write, used ONLY to keep generated values inside the exactly representable range of their dtype).
    -> [(bucket, dtype of the buffer, largest value, action, step)] for every write of every step."""
    n, nel = len(c["times"]), c["rows"] * c["cols"]
    out = []
    pixel = None
    for i in range(n):
        st = dict(photon=None, charge=["float64", 0], signal=None, image=None,
                  pixel=pixel if (c["nondestr"] and pixel is not None) else ["float64", 0])
        for m in c["models"]:
            for a in m["actions"]:
                if a.get("kind") != "write":
                    continue
                b, mode = a["bucket"], a.get("mode", "assign")
                if a["per_step"][i] < 0:
                    continue
                k = nel * (a.get("waves") or 1) if b == "photon" else nel
                top = a["per_step"][i] + k - 1
                cur = st[b]
                if b == "charge":
                    st[b] = ["float64", top + (cur[1] if mode == "iadd" else 0)]
                elif cur is None or mode == "assign":
                    st[b] = [dtype_at(a, i), top]
                elif mode == "iadd":
                    st[b] = [cur[0], cur[1] + top]
                else:
                    st[b] = [cur[0], top]
                out.append((b, st[b][0], st[b][1], a, i))
        pixel = st["pixel"]
    return out


def fit_dtypes(c) -> bool:
    """Widen writer dtypes until every value the probes produce is exactly representable (and, under debug,
    small enough for np.allclose on integers to be equality).  False: give the case up."""
    for _ in range(24):
        bad = None
        for b, dt, top, a, i in simulate(c):
            lim = UMAX[dt] if dt in UMAX else FLOAT_EXACT[dt]
            if c["debug"]:
                lim = min(lim, 90000)
            if top >= lim:
                bad = (b, dt, i)
                break
        if bad is None:
            return True
        b, dt, i = bad
        if dt not in WIDER:
            return False
        for m in c["models"]:
            for a in m["actions"]:
                if a.get("kind") == "write" and a["bucket"] == b:
                    if a.get("dtypes"):
                        if a["dtypes"][i] == dt:      # widen the dtype written at that step only
                            a["dtypes"][i] = WIDER[dt]
                    elif a["dtype"] == dt:
                        a["dtype"] = WIDER[dt]
    return False


def image_gaps_ok(c) -> bool:
    """An image that is missing at some step goes through float64: keep its values below 2^53 (above, the round trip
    changes them -- the documented limit of the NaN fill, not what the property is about)."""
    gaps = any(a.get("kind") == "write" and a["bucket"] == "image" and any(v < 0 for v in a["per_step"])
               for m in c["models"] for a in m["actions"])
    return not gaps or all(top < 2 ** 53 for b, _dt, top, _a, _i in simulate(c) if b == "image")


def gen_case(r, force=None) -> dict:
    for _ in range(50):
        c = gen_case_once(r, force)
        if fit_dtypes(c) and image_gaps_ok(c):
            return c
    raise RuntimeError("C03 generator: no representable case in 50 tries")


FLOATS = ["float16", "float32", "float64"]
UINTS = ["uint8", "uint16", "uint32", "uint64"]
LABEL_KINDS = ["index", "one_based", "reversed", "half", "big", "negative", "shuffled"]
CUBE_EXTRAS = ["row_mm", "col_name", "band", "mask", "exposure_id"]


def dtype_sequence(r, n, pool) -> list:
    """A dtype per step, at least two different ones: narrowing, widening, a narrow step in the middle, or any."""
    for _ in range(20):
        pat = r.choice(["narrowing", "narrowing", "widening", "dip", "any"])
        if pat == "any":
            seq = [r.choice(pool) for _ in range(n)]
        else:
            k = min(n, len(pool))
            picks = sorted(r.sample(range(len(pool)), r.randrange(2, k + 1) if k >= 2 else 1))
            lad = [pool[j] for j in picks]
            if pat == "narrowing":
                lad = lad[::-1]
            seq = [lad[min(i * len(lad) // n, len(lad) - 1)] for i in range(n)]
            if pat == "dip" and n >= 3:
                seq = [lad[-1]] * n
                seq[r.randrange(1, n - 1)] = lad[0]
        if len(set(seq)) >= 2:
            return seq
    return [pool[-1]] + [pool[0]] * (n - 1)


def value_for(r, dt, debug, nelem) -> int:
    """A base value that the dtype holds exactly (with nelem - 1 added) and that most NARROWER types do not hold."""
    if dt == "float64":
        opts = [(2049, 60000), (65505, 80000)] if debug else [(2 ** 24 + 1, 2 ** 24 + 5000), (2 ** 24 + 1, 2 ** 30), (2049, 60000), (65505, 10 ** 6)]
    elif dt == "float32":
        opts = [(2049, 60000), (65505, 80000)] if debug else [(2049, 60000), (65505, 2 ** 24 - 5000)]
    elif dt == "float16":
        opts = [(1, 1900)]
    elif dt == "uint64":
        opts = [(66000, 80000)] if debug else [(2 ** 32 + 5, 2 ** 53 - 10 ** 6), (66000, 10 ** 9)]
    elif dt == "uint32":
        opts = [(66000, 80000)] if debug else [(66000, 2 ** 32 - 5000)]
    elif dt == "uint16":
        opts = [(257, 60000)]
    else:
        opts = [(1, 200)]
    lo, hi = r.choice(opts)
    v = r.randrange(lo, hi)
    return v | 1                   # odd: just above a power of two it has no value in the narrower float type


def labels_of(kind, n, r) -> list:
    if kind == "index":
        return list(range(n))
    if kind == "one_based":
        return list(range(1, n + 1))
    if kind == "reversed":
        return list(range(n - 1, -1, -1))
    if kind == "half":
        return [i + 0.5 for i in range(n)]
    if kind == "big":
        return [1000 + 10 * i for i in range(n)]
    if kind == "negative":
        return [-(i + 1) for i in range(n)]
    lab = list(range(n))
    r.shuffle(lab)
    return lab[::-1] if lab == list(range(n)) and n > 1 else lab


def gen_cube(r, rows, cols, force=None) -> dict | None:
    """Coordinates a photon cube carries besides `wavelength` (None: none, what pyxel's own models produce)."""
    if force is not None:          # label KINDS: the lists depend on the detector's shape
        return dict(y=None if force.get("yk") is None else labels_of(force["yk"], rows, r),
                    x=None if force.get("xk") is None else labels_of(force["xk"], cols, r),
                    extra=list(force.get("extra", [])), order=force.get("order", 0))
    if r.random() < 0.35:
        return None
    yk = r.choice([None] + LABEL_KINDS + ["half", "one_based"])
    xk = r.choice([None] + LABEL_KINDS)
    if yk is None and xk is None and r.random() < 0.7:
        yk = r.choice(LABEL_KINDS)
    extra = [e for e in CUBE_EXTRAS if r.random() < 0.25]
    return dict(y=None if yk is None else labels_of(yk, rows, r), x=None if xk is None else labels_of(xk, cols, r),
                extra=extra, order=r.randrange(3), wl_kind=r.choice(["default", "default", "decreasing", "uneven"]))


def gen_case_once(r, force=None) -> dict:
    force = force or {}
    n = force.get("n", r.choice([1, 2, 2, 3, 3, 4, 5, 6]))
    start = force.get("start", r.choice([0, 0, 4, 8, 20]))
    t, times = start, []
    for _ in range(n):
        t += r.choice([1, 2, 4, 8, 12])
        times.append(t)
    rows, cols = r.choice([1, 2, 3]), r.choice([1, 2, 3])
    debug = force.get("debug", r.random() < 0.4)
    buckets = force.get("buckets")
    if buckets is None:
        buckets = [b for b in BUCKETS if r.random() < 0.6] or [r.choice(BUCKETS)]
    # follow-up writers of the same bucket later in the step: in place (+=, [...] =) or re-assigning
    inplace = force.get("inplace", r.random() < 0.55)
    image_dt = r.choice(["uint8", "uint16", "uint32", "uint64"])
    waves = force.get("waves", r.choice([0, 0, 1, 2, 3]))
    nelem = rows * cols * 3
    image_small = debug or (inplace and "image" in buckets)
    cube = gen_cube(r, rows, cols, force.get("cube")) if (waves and "photon" in buckets) else None
    # buckets whose dtype CHANGES from step to step (narrower and wider): the values of a step are exact in the dtype
    # of that step and, mostly, not representable in the narrower dtypes of the other steps
    change = {}
    want_change = force.get("change")
    if n >= 2 and (want_change or (want_change is None and r.random() < 0.3)):
        cand = [b for b in buckets if b in ("photon", "pixel", "signal", "image")]
        if isinstance(want_change, (list, tuple)):
            cand = [b for b in want_change if b in buckets]
            picked = cand
        else:
            picked = r.sample(cand, min(len(cand), r.choice([1, 1, 2]))) if cand else []
        for b in picked:
            change[b] = dtype_sequence(r, n, UINTS if b == "image" else FLOATS)

    def per_step(bucket, dt):
        if bucket in change:
            return [value_for(r, dt, debug, nelem) for dt in change[bucket]]
        if bucket == "image":
            if image_dt == "uint8" or image_small:
                hi = 250 - nelem - 7 * n
                base, stp = r.randrange(1, max(2, hi)), r.randrange(1, 8)
            else:
                top = UMAX[image_dt] - nelem - 2
                base = r.choice([r.randrange(1, 200), top - 1000 * n - r.randrange(0, 1000)])
                stp = r.randrange(1, 1000)
        elif dt in ("float64", "float32") and r.random() < 0.3:
            # values a narrower float type does not hold (odd, above 2^11 resp. 2^24): a read-out or a conversion that
            # narrows the bucket is visible in the VALUES (float dtypes themselves are not judged)
            if debug:
                base = r.randrange(2049, 20000) | 1
            elif dt == "float64":
                base = value_for(r, "float64", False, nelem)
            else:
                base = r.randrange(2049, 2 ** 22) | 1
            stp = 2 * r.randrange(1, 500)
        else:
            base, stp = r.randrange(1, 120), r.randrange(1, 40)
        return [base + i * stp for i in range(n)]

    def writer(bucket, mode):
        if bucket == "image":
            dt = image_dt
        elif bucket == "charge":
            dt = "float64"
        elif bucket == "photon" and waves and r.random() < 0.5:
            dt = "float64"          # Photon.to_xarray converts a cube to float64: the one dtype it could share
        else:
            dt = r.choice(["float16", "float32", "float64"])
        a = dict(kind="write", bucket=bucket, dtype=dt, waves=waves if bucket == "photon" else 0,
                 mode=mode, idiom=r.randrange(3), per_step=per_step(bucket, dt))
        if bucket in change:
            a["dtypes"] = list(change[bucket])
            a["dtype"] = change[bucket][0]
        if bucket == "photon" and waves and cube is not None:
            a["cube"] = cube
        return a

    order = list(buckets)
    if r.random() < 0.3:
        r.shuffle(order)
    # (group index, action) in creation order; the writers of one bucket keep their order
    acts = []
    for b in order:
        g = r.randrange(5)
        first = "assign" if r.random() < 0.7 else r.choice(["iadd", "iset"])
        if b == "charge" and first == "assign" and r.random() < 0.6:
            first = "iadd"          # Charge.add_charge_array, what pyxel's models do
        acts.append((g, writer(b, first)))
        if inplace and r.random() < (0.25 if b in change else 0.65):
            for _ in range(r.choice([1, 1, 2, 3])):
                g = r.randrange(g, 5)
                acts.append((g, writer(b, r.choice(["iadd", "iadd", "iadd", "iset", "assign"]))))
    if r.random() < 0.5:
        # interleave the buckets (several models between the writers of one bucket)
        keyed = [(g, r.random(), j, a) for j, (g, a) in enumerate(acts)]
        fixed = []
        for g, rk, j, a in sorted(keyed, key=lambda x: (x[0], x[1])):
            fixed.append((g, a))
        # restore the relative order of the writers of each bucket
        per_b = {}
        for g, a in acts:
            per_b.setdefault(a["bucket"], []).append(a)
        acts = [(g, per_b[a["bucket"]].pop(0)) for g, a in fixed]
    # a float bucket that is initialised in some steps only (a negative entry: the writer does nothing)
    partial = [b for b in ("photon", "signal") if b in buckets]
    if n >= 2 and partial and force.get("partial", r.random() < 0.2):
        b = r.choice(partial)
        skip = set(r.sample(range(n), r.randrange(1, n)))
        for _, a in acts:
            if a["bucket"] == b:
                a["per_step"] = [-1 if i in skip else v for i, v in enumerate(a["per_step"])]
    # an integer image initialised in some steps only, the LAST one included: the concatenation goes through NaN and
    # run_pipeline has to restore the unsigned type (judged: Model/Result.v image_restored)
    if n >= 2 and "image" in buckets and force.get("image_gaps", r.random() < 0.15):
        skip = set(r.sample(range(n - 1), r.randrange(1, n)))
        for _, a in acts:
            if a["bucket"] == "image":
                a["per_step"] = [-1 if i in skip else v for i, v in enumerate(a["per_step"])]
    models = []
    k = 0
    while k < len(acts):
        take = 2 if (r.random() < 0.15 and k + 1 < len(acts) and acts[k][0] == acts[k + 1][0]) else 1
        models.append(dict(group=GROUP_ORDER[acts[k][0]], name=f"m{len(models)}", actions=[a for _, a in acts[k:k + take]]))
        k += take
    if force.get("data", r.random() < 0.3):
        dacts = [dict(kind="data", key="/probe/a", per_step=[r.randrange(1, 99) + i for i in range(n)])]
        if r.random() < 0.5:
            dacts.append(dict(kind="data", key="/probe/b", per_step=[r.randrange(100, 199) + 2 * i for i in range(n)]))
        models.append(dict(group=r.choice(GROUP_ORDER[:5]), name=f"m{len(models)}", actions=dacts))
    if force.get("scene", r.random() < 0.2):
        models.append(dict(group="photon_collection", name=f"m{len(models)}",
                           actions=[dict(kind="scene", key=r.choice(["/list/0/flux", "/list/0/flux", "/flux"]),
                                         per_step=[r.randrange(1, 99) + 3 * i for i in range(n)])]))
    if r.random() < 0.15:
        models.append(dict(group=r.choice(GROUP_ORDER[:5]), name=f"m{len(models)}", actions=[dict(kind="nop")]))
    models.sort(key=lambda m: GROUP_ORDER.index(m["group"]))   # execution order (stable inside a group)
    models.append(last_model())
    return dict(rows=rows, cols=cols, start=start, times=times, nondestr=force.get("nondestr", r.random() < 0.5),
                hier=force.get("hier", r.random() < 0.5), debug=debug, models=models)


def fixed_cases() -> list:
    """Aimed cases, run first (corpus)."""
    L = last_model
    w = lambda b, dt, ps, waves=0, mode="assign", idiom=0: dict(  # noqa: E731
        kind="write", bucket=b, dtype=dt, waves=waves, mode=mode, idiom=idiom, per_step=ps)
    cs = []
    # F11: pipelines that never write image, >= 2 readouts, both layouts, debug on/off
    for hier in (False, True):
        for debug in (False, True):
            cs.append(dict(rows=2, cols=2, start=0, times=[8, 16, 24], nondestr=False, hier=hier, debug=debug,
                           models=[dict(group="charge_collection", name="wx", actions=[w("pixel", "float64", [3, 7, 11])]), L()]))
    cs.append(dict(rows=1, cols=2, start=4, times=[8, 12], nondestr=True, hier=False, debug=False,
                   models=[dict(group="photon_collection", name="wp", actions=[w("photon", "float32", [5, 9], 2)]), L()]))
    # every image dtype x 1..3 readouts, all five buckets
    for dt, big in (("uint8", 200), ("uint16", 60000), ("uint32", 2 ** 32 - 100), ("uint64", 2 ** 53 - 100)):
        for n in (1, 2, 3):
            cs.append(dict(rows=2, cols=3, start=0, times=[8 * (i + 1) for i in range(n)], nondestr=False,
                           hier=(n % 2 == 0), debug=False,
                           models=[dict(group="photon_collection", name="wp", actions=[w("photon", "float64", [1 + 9 * i for i in range(n)])]),
                                   dict(group="charge_generation", name="wc", actions=[w("charge", "float64", [2 + 9 * i for i in range(n)], mode="iadd")]),
                                   dict(group="charge_collection", name="wx", actions=[w("pixel", "float32", [3 + 9 * i for i in range(n)])]),
                                   dict(group="charge_measurement", name="ws", actions=[w("signal", "float16", [4 + 9 * i for i in range(n)])]),
                                   dict(group="readout_electronics", name="wi", actions=[w("image", dt, [big + 7 * i for i in range(n)])]),
                                   L()]))
    # an image initialised in some steps only, the last one included: the unsigned type must be restored (#652)
    for ps, dts, nd in (([-1, 300], None, False), ([300, -1, 500], None, False), ([-1, 40, -1, 50], None, True),
                        ([-1, 5, 70001], ["uint8", "uint8", "uint32"], False), ([60000, -1, -1, 7], None, False)):
        a = w("image", (dts or ["uint16"])[0], ps)
        if dts:
            a["dtypes"] = dts
        cs.append(dict(rows=1, cols=2, start=0, times=[8 * (i + 1) for i in range(len(ps))], nondestr=nd, hier=False, debug=False,
                       models=[dict(group="charge_collection", name="wx", actions=[w("pixel", "float64", [3 + i for i in range(len(ps))])]),
                               dict(group="readout_electronics", name="wi", actions=[a]), L()]))
    # uint64 images above 2^53 (round 1: altered by the float64 round trip of xr.merge; exact since the steps are concatenated)
    cs.append(dict(rows=1, cols=1, start=0, times=[8, 16], nondestr=False, hier=False, debug=False,
                   models=[dict(group="readout_electronics", name="wi", actions=[w("image", "uint64", [2 ** 53 + 1, 7])]), L()]))
    cs.append(dict(rows=1, cols=1, start=0, times=[8], nondestr=False, hier=False, debug=False,
                   models=[dict(group="readout_electronics", name="wi", actions=[w("image", "uint64", [2 ** 53 + 1])]), L()]))
    # debug: two models in one step, several readouts, destructive and not
    for nd in (False, True):
        cs.append(dict(rows=1, cols=2, start=0, times=[8, 16], nondestr=nd, hier=False, debug=True,
                       models=[dict(group="photon_collection", name="wp", actions=[w("photon", "float64", [1, 5])]),
                               dict(group="charge_collection", name="wx", actions=[w("pixel", "float64", [3, 9])]),
                               dict(group="readout_electronics", name="wi", actions=[w("image", "uint16", [30, 90])]), L()]))
    # scene and data, flat layout requested
    cs.append(dict(rows=1, cols=2, start=0, times=[8, 16], nondestr=False, hier=False, debug=False,
                   models=[dict(group="photon_collection", name="sc", actions=[dict(kind="scene", key="/list/0/flux", per_step=[11, 12])]),
                           dict(group="charge_collection", name="wx", actions=[w("pixel", "float64", [3, 9]),
                                                                             dict(kind="data", key="/probe/a", per_step=[21, 22])]), L()]))
    # debug: two in-place charge additions in one step (the first node must keep its own value)
    cs.append(dict(rows=1, cols=1, start=0, times=[8], nondestr=False, hier=False, debug=True,
                   models=[dict(group="charge_generation", name="c1", actions=[w("charge", "float64", [5], mode="iadd")]),
                           dict(group="charge_generation", name="c2", actions=[w("charge", "float64", [100], mode="iadd")]), L()]))
    # a scene with a variable at its root node: run_pipeline forces the hierarchical layout
    cs.append(dict(rows=1, cols=2, start=0, times=[8, 16], nondestr=False, hier=False, debug=False,
                   models=[dict(group="photon_collection", name="sc", actions=[dict(kind="scene", key="/flux", per_step=[11, 12])]),
                           dict(group="charge_collection", name="wx", actions=[w("pixel", "float64", [3, 9])]), L()]))
    # in-place versus re-assigning writers of one bucket, several models per step, under debug: the record of
    # an earlier model must not follow what a later model does to the same buffer (and the slice of step 0
    # must not follow what step 1 does to a buffer that survives the reset: pixel, non-destructive)
    kinds = [("photon", "float64", 0), ("photon", "float64", 2), ("photon", "float32", 3), ("pixel", "float64", 0),
             ("signal", "float32", 0), ("image", "uint16", 0), ("charge", "float64", 0)]
    for b, dt, waves in kinds:
        for n, nd, debug in ((1, False, True), (3, True, True), (3, True, False)):
            ps = lambda base: [base + 7 * i for i in range(n)]  # noqa: E731
            cs.append(dict(rows=1, cols=2, start=0, times=[8 * (i + 1) for i in range(n)], nondestr=nd, hier=False, debug=debug,
                           models=[dict(group="photon_collection", name="a0", actions=[w(b, dt, ps(3), waves, "iadd", 1)]),
                                   dict(group="charge_generation", name="a1", actions=[w(b, dt, ps(20), waves, "assign")]),
                                   dict(group="charge_generation", name="a2", actions=[w(b, dt, ps(100), waves, "iadd", 0)]),
                                   dict(group="charge_collection", name="a3", actions=[w(b, dt, ps(40), waves, "iset")]),
                                   dict(group="charge_measurement", name="a4", actions=[w(b, dt, ps(60), waves, "assign")]),
                                   dict(group="readout_electronics", name="a5", actions=[w(b, dt, ps(300), waves, "iadd", 2)]),
                                   L()]))
    # round-1 findings repaired in round 2, kept so that a regression is reported again: the very first model
    # initialises a bucket with zeros (it used to be compared with zeros: not recorded) ...
    cs.append(dict(rows=1, cols=1, start=0, times=[8, 16], nondestr=False, hier=False, debug=True,
                   models=[dict(group="charge_measurement", name="z0", actions=[w("signal", "float64", [0, 0])]),
                           dict(group="readout_electronics", name="wi", actions=[w("image", "uint16", [0, 4])]), L()]))
    # a model that sets the charge back to zero: an all-zero charge is left out of a capture
    cs.append(dict(rows=1, cols=1, start=0, times=[8, 16], nondestr=False, hier=False, debug=True,
                   models=[dict(group="charge_generation", name="c1", actions=[w("charge", "float64", [5, 6], mode="iadd")]),
                           dict(group="charge_collection", name="c0", actions=[w("charge", "float64", [0, 0], mode="assign")]),
                           dict(group="charge_collection", name="wx", actions=[w("pixel", "float64", [3, 9])]), L()]))
    # ... and the first model of a later step rewrites a bucket with the values of the previous step (it used to
    # be compared with the end of the previous step: not recorded)
    for nd in (False, True):
        cs.append(dict(rows=1, cols=2, start=0, times=[8, 16, 24], nondestr=nd, hier=False, debug=True,
                       models=[dict(group="photon_collection", name="wp", actions=[w("photon", "float64", [5, 5, 5])]),
                               dict(group="charge_collection", name="wx", actions=[w("pixel", "float64", [3, 3, 9])]), L()]))
    # ---- a bucket whose dtype CHANGES between the readouts (round 2b).  The variable of the result has ONE dtype:
    # the widest of the steps; no slice may be converted to a narrower one.  Values: exact in the dtype of their
    # step, not representable in the narrower dtypes of the other steps (2^24 + 3 has no float32 value, 2051 and
    # 70001 no float16 value; 70001 no uint16 value, 301 no uint8 value).
    BIG = dict(float64=2 ** 24 + 3, float32=2051, float16=5, uint64=2 ** 32 + 7, uint32=70001, uint16=301, uint8=9)
    fseqs = [["float64", "float32"], ["float64", "float16"], ["float32", "float16"], ["float64", "float32", "float16"],
             ["float16", "float32", "float64"], ["float64", "float16", "float64"]]
    k = 0
    for b, waves, group in (("photon", 0, "photon_collection"), ("photon", 2, "photon_collection"),
                            ("pixel", 0, "charge_collection"), ("signal", 0, "charge_measurement")):
        for seq in fseqs:
            k += 1
            n = len(seq)
            big = dict(BIG, float64=70001) if k % 4 == 0 else BIG            # under debug: small enough for np.allclose
            a = w(b, seq[0], [big[d] + 2 * i for i, d in enumerate(seq)], waves)
            a["dtypes"] = list(seq)
            cs.append(dict(rows=1, cols=2, start=0, times=[8 * (i + 1) for i in range(n)], nondestr=(k % 3 == 0),
                           hier=(k % 2 == 0), debug=(k % 4 == 0),
                           models=[dict(group=group, name="wd", actions=[a]),
                                   dict(group="readout_electronics", name="wi", actions=[w("image", "uint16", [7 + i for i in range(n)])]), L()]))
    for seq in (["uint32", "uint8"], ["uint16", "uint8", "uint16"], ["uint64", "uint32"], ["uint8", "uint16", "uint32"],
                ["uint64", "uint8", "uint16"]):
        n = len(seq)
        a = w("image", seq[0], [BIG[d] + 2 * i for i, d in enumerate(seq)])
        a["dtypes"] = list(seq)
        cs.append(dict(rows=1, cols=2, start=0, times=[8 * (i + 1) for i in range(n)], nondestr=False, hier=False, debug=False,
                       models=[dict(group="charge_collection", name="wx", actions=[w("pixel", "float32", [3 + i for i in range(n)])]),
                               dict(group="readout_electronics", name="wi", actions=[a]), L()]))
    # two buckets change at once, in opposite directions; a follow-up writer adds in place (keeps the dtype of the step)
    a1 = w("pixel", "float64", [2 ** 24 + 3, 2051, 9]); a1["dtypes"] = ["float64", "float32", "float16"]
    a2 = w("signal", "float16", [9, 2051, 2 ** 24 + 3]); a2["dtypes"] = ["float16", "float32", "float64"]
    cs.append(dict(rows=2, cols=1, start=4, times=[8, 16, 24], nondestr=True, hier=True, debug=False,
                   models=[dict(group="charge_collection", name="wx", actions=[a1]),
                           dict(group="charge_collection", name="wx2", actions=[w("pixel", "float64", [2, 2, 2], mode="iadd")]),
                           dict(group="charge_measurement", name="ws", actions=[a2]), L()]))
    # ---- multi-wavelength photons whose cube carries its OWN coordinates (round 2b): y / x labels other than the
    # indices (pixel centres, 1-based, reversed, shuffled, negative), index-valued labels, further coordinates along y,
    # x, wavelength, (y, x) and a scalar one, given in several orders.  The result is labelled with the row and column
    # indices and every other bucket keeps its values.
    cubes = [dict(y=[0.5, 1.5], x=None, extra=[], order=0), dict(y=[1, 2], x=[1, 2, 3], extra=[], order=1),
             dict(y=[1, 0], x=[2, 1, 0], extra=["row_mm"], order=2), dict(y=[0, 1], x=[0, 1, 2], extra=["band", "exposure_id"], order=0),
             dict(y=None, x=[1000, 1010, 1020], extra=["mask", "col_name"], order=1), dict(y=[-1, -2], x=[0.5, 1.5, 2.5], extra=[], order=2),
             dict(y=None, x=None, extra=["row_mm", "col_name", "band", "mask", "exposure_id"], order=1),
             dict(y=[1, 2], x=None, extra=[], order=0)]
    for j, cube in enumerate(cubes):
        n = 1 + j % 3
        ps = lambda base: [base + 9 * i for i in range(n)]  # noqa: E731
        p1 = w("photon", "float64" if j % 2 else "float32", ps(1), 2, "assign"); p1["cube"] = cube
        p2 = w("photon", "float64", ps(40), 2, "iadd" if j % 2 else "iset"); p2["cube"] = cube
        cs.append(dict(rows=2, cols=3, start=0, times=[8 * (i + 1) for i in range(n)], nondestr=(j % 2 == 1), hier=(j % 4 == 2),
                       debug=(j % 3 == 1),
                       models=[dict(group="photon_collection", name="wp", actions=[p1])]
                              + ([dict(group="photon_collection", name="wp2", actions=[p2])] if j >= 4 else [])
                              + [dict(group="charge_generation", name="wc", actions=[w("charge", "float64", ps(2), mode="iadd")]),
                                 dict(group="charge_collection", name="wx", actions=[w("pixel", "float32", ps(3))]),
                                 dict(group="charge_measurement", name="ws", actions=[w("signal", "float64", ps(4))]),
                                 dict(group="readout_electronics", name="wi", actions=[w("image", "uint16", ps(500))]), L()]))
    return cs


def exhaustive_cases() -> list:
    """Thorough tier: every sequence of three writers of one container (assign / += / [...] = for each), for each
    of the six container kinds, under debug, one readout and two non-destructive readouts."""
    L = last_model
    out = []
    kinds = [("photon", "float64", 0), ("photon", "float64", 2), ("pixel", "float64", 0), ("signal", "float32", 0),
             ("image", "uint16", 0), ("charge", "float64", 0)]
    modes = ["assign", "iadd", "iset"]
    for b, dt, waves in kinds:
        for m0 in modes:
            for m1 in modes:
                for m2 in modes:
                    for n, nd in ((1, False), (2, True)):
                        ps = lambda base: [base + 11 * i for i in range(n)]  # noqa: E731
                        w = lambda mode, base, idiom: dict(kind="write", bucket=b, dtype=dt, waves=waves, mode=mode,  # noqa: E731
                                                           idiom=idiom, per_step=ps(base))
                        out.append(dict(rows=1, cols=2, start=0, times=[8 * (i + 1) for i in range(n)], nondestr=nd, hier=False,
                                        debug=True,
                                        models=[dict(group="photon_collection", name="e0", actions=[w(m0, 3, 0)]),
                                                dict(group="charge_generation", name="e1", actions=[w(m1, 40, 1)]),
                                                dict(group="charge_collection", name="e2", actions=[w(m2, 500, 2)]), L()]))
    return out


def exhaustive_dtype_cases() -> list:
    """Thorough tier: EVERY ordered pair of float dtypes for the four float container kinds, every triple for the pixel
    array, every ordered pair and every triple of distinct unsigned dtypes for the image; the value of a step is exact in
    the dtype of that step and has no value in any narrower type."""
    import itertools
    L = last_model
    BIG = dict(float64=2 ** 24 + 3, float32=2051, float16=5, uint64=2 ** 32 + 7, uint32=70001, uint16=301, uint8=9)
    out = []

    def case(b, waves, group, seq, k):
        n = len(seq)
        a = dict(kind="write", bucket=b, dtype=seq[0], waves=waves, mode="assign", idiom=0,
                 per_step=[BIG[d] + 2 * i for i, d in enumerate(seq)], dtypes=list(seq))
        return dict(rows=1, cols=2, start=0, times=[8 * (i + 1) for i in range(n)], nondestr=(k % 2 == 0), hier=(k % 3 == 0),
                    debug=False, models=[dict(group=group, name="wd", actions=[a]), L()])
    k = 0
    for b, waves, group in (("photon", 0, "photon_collection"), ("photon", 2, "photon_collection"),
                            ("pixel", 0, "charge_collection"), ("signal", 0, "charge_measurement")):
        seqs = list(itertools.product(FLOATS, repeat=2))
        if b == "pixel":
            seqs += list(itertools.product(FLOATS, repeat=3))
        for seq in seqs:
            k += 1
            out.append(case(b, waves, group, seq, k))
    for seq in list(itertools.product(UINTS, repeat=2)) + list(itertools.permutations(UINTS, 3)):
        k += 1
        out.append(case("image", 0, "readout_electronics", seq, k))
    return out


def exhaustive_cube_cases() -> list:
    """Thorough tier: every kind of y labels x every kind of x labels a photon cube can carry (none, the indices,
    1-based, reversed, pixel centres, large, negative, shuffled), all five buckets written, one readout."""
    import random
    L = last_model
    r = random.Random(7)
    w = lambda b, dt, v, waves=0: dict(kind="write", bucket=b, dtype=dt, waves=waves, mode="assign", idiom=0, per_step=[v])  # noqa: E731
    out = []
    for j, yk in enumerate([None] + LABEL_KINDS):
        for i, xk in enumerate([None] + LABEL_KINDS):
            p = w("photon", "float64", 1, 2)
            p["cube"] = dict(y=None if yk is None else labels_of(yk, 2, r), x=None if xk is None else labels_of(xk, 3, r),
                             extra=[CUBE_EXTRAS[(i + j) % len(CUBE_EXTRAS)]] if (i + j) % 2 else [], order=(i + j) % 3)
            out.append(dict(rows=2, cols=3, start=0, times=[8], nondestr=False, hier=(i % 2 == 0), debug=(j % 4 == 0),
                            models=[dict(group="photon_collection", name="wp", actions=[p]),
                                    dict(group="charge_generation", name="wc", actions=[dict(w("charge", "float64", 20), mode="iadd")]),
                                    dict(group="charge_collection", name="wx", actions=[w("pixel", "float32", 30)]),
                                    dict(group="charge_measurement", name="ws", actions=[w("signal", "float64", 40)]),
                                    dict(group="readout_electronics", name="wi", actions=[w("image", "uint16", 500)]), L()]))
    return out


# ------------------------------------------------------------------------------------------ Coq emission


def zl(vals) -> str:
    return core.clist(core.cz(int(v)) for v in vals)


def to_int(v) -> int:
    if isinstance(v, bool):
        return int(v)
    if isinstance(v, int):
        return v
    if isinstance(v, float) and math.isfinite(v) and v == int(v):
        return int(v)
    return SENTINEL


def c_arr(a) -> str:
    dt, shape, vals = a
    return f"{{| a_dt := {CDT.get(dt, 'F64')}; a_shape := {zl(shape)}; a_vals := {zl(to_int(v) for v in vals)} |}}"


def c_capture(c) -> str:
    return core.clist(f"({CB[b]}, {c_arr(a)})" for b, a in c)


def c_snapshot(s) -> str:
    f = lambda b: "None" if s.get(b) is None else f"(Some {c_arr(s[b])})"  # noqa: E731
    return (f"{{| s_photon := {f('photon')}; s_charge := {f('charge')}; s_pixel := {f('pixel')}; "
            f"s_signal := {f('signal')}; s_image := {f('image')} |}}")


def c_payload(p) -> str:
    return core.clist(f"({core.cstr(k)}, {zl(v)})" for k, v in p)


def c_action(a) -> str:
    k = a["kind"]
    if k == "write":
        cube = a.get("cube") or {}
        lab = lambda v: "None" if v is None else f"(Some {zl(to_int(x) for x in v)})"  # noqa: E731
        return (f"AWrite {{| w_bucket := {CB[a['bucket']]}; w_dt := {CDT[a['dtype']]}; "
                f"w_dts := {core.clist(CDT[d] for d in (a.get('dtypes') or []))}; w_waves := {core.cz(a.get('waves', 0))}; "
                f"w_ylab := {lab(cube.get('y'))}; w_xlab := {lab(cube.get('x'))}; "
                f"w_mode := {CMODE[a.get('mode', 'assign')]}; w_per_step := {zl(a['per_step'])} |}}")
    if k == "data":
        return f"AData {core.cstr(a['key'])} {zl(a['per_step'])}"
    if k == "scene":
        return f"AScene {core.cstr(a['key'])} {zl(a['per_step'])}"
    return "ANop"


def c_model(m) -> str:
    return (f"{{| pm_group := {core.cstr(m['group'])}; pm_name := {core.cstr(m['name'])}; "
            f"pm_actions := {core.clist(c_action(a) for a in m['actions'])} |}}")


def c_var(v) -> str | None:
    if v["name"] not in CB:
        return None
    dims = list(v["dims"])
    if v["dtype"] not in CDT:
        dims = ["?dtype:" + "".join(ch for ch in v["dtype"] if ch.isalnum())]
    return (f"{{| ov_bucket := {CB[v['name']]}; ov_dt := {CDT.get(v['dtype'], 'F64')}; "
            f"ov_dims := {core.clist(core.cstr(d) for d in dims)}; ov_shape := {zl(v['shape'])}; ov_vals := {zl(v['vals'])} |}}")


def c_inode(nd) -> str:
    vs = []
    for v in nd["vars"]:
        if v["name"] in CB:
            vs.append(f"({CB[v['name']]}, {c_arr([v['dtype'], v['shape'], v['vals']])})")
        else:
            vs.append(f"(Photon, {c_arr(['float64', [SENTINEL], []])})")
    return (f"{{| n_step := {core.cnat(min(nd['step'], 999))}; n_group := {core.cstr(nd['group'])}; "
            f"n_name := {core.cstr(nd['name'])}; n_vars := {core.clist(vs)} |}}")


def c_otree(t) -> str:
    if t is None:
        return "None"
    vs = [c_var(v) for v in t["vars"]]
    extra = sum(1 for v in vs if v is None)
    vs = [v for v in vs if v is not None]
    children = list(t["children"]) + (["?unknown_variable"] if extra else [])
    inter = "None" if t["inter"] is None else f"(Some {core.clist(c_inode(nd) for nd in t['inter'])})"
    return (f"(Some {{| o_bucket_path := {core.cstr(t['bucket_path'])}; o_children := {core.clist(core.cstr(c) for c in children)}; "
            f"o_time := {zl(t['time'])}; o_y := {zl(t['y'])}; o_x := {zl(t['x'])}; o_wl := {zl(t.get('wl', []))}; o_vars := {core.clist(vs)}; "
            f"o_inter := {inter}; o_scene := {c_payload(t['scene'])}; o_data := {c_payload(t['data'])} |}})")


def c_mrec(m) -> str:
    return (f"{{| r_step := {core.cnat(m['step'])}; r_group := {core.cstr(m['group'])}; r_name := {core.cstr(m['name'])}; "
            f"r_before := {c_capture(m['before'])}; r_after := {c_capture(m['after'])} |}}")


def emit_case(c, o) -> str:
    models = [dict(m, actions=[dict(kind="nop")]) if m["actions"] == [dict(kind="last")] else m for m in c["models"]]
    snaps = core.clist(f"({core.cz(l)}, {c_snapshot(s)})" for l, s in o["snaps"])
    return (f"{{| k_rows := {c['rows']}; k_cols := {c['cols']}; k_start := {core.cz(c['start'])}; k_times := {zl(c['times'])}; "
            f"k_nondestr := {core.cbool(c['nondestr'])}; k_hier := {core.cbool(c['hier'])}; k_debug := {core.cbool(c['debug'])};\n"
            f"   k_models := {core.clist(c_model(m) for m in models)};\n"
            f"   k_result := {c_otree(o['result'])};\n   k_result_nodebug := {c_otree(o.get('result_nodebug'))};\n"
            f"   k_snaps := {snaps};\n   k_wl := {core.clist(zl(w) for w in o.get('wl_seen', []))};\n   k_scene_seen := {c_payload(o['scene_seen'])}; k_data_seen := {c_payload(o['data_seen'])};\n"
            f"   k_mrecs := {core.clist(c_mrec(m) for m in o['mrecs'])} |}}")


def emit_file(pairs) -> str:
    body = ";\n  ".join(emit_case(c, o) for c, o in pairs)
    return ("From Coq Require Import ZArith List String.\nFrom PyxelV Require Import Model.Result.\n"
            "From PyxelGen Require Import Gen_C03.\nImport ListNotations.\nOpen Scope Z_scope.\n"
            f"Definition cases : list case := [\n  {body}\n].\n"
            "Eval vm_compute in mismatches src_tables cases.\nEval vm_compute in violations cases.\n")


# ------------------------------------------------------------------------------------------ evaluation


def evaluate(ctx: Ctx, cases, tag="c", per=20):
    """-> (pairs, mismatching indices, {index: [clauses]})"""
    obs = core.run_driver(ctx, "c03", cases, workers=8)
    pairs, idx = [], []
    for i, (c, o) in enumerate(zip(cases, obs)):
        if "crash" in o or "driver_error" in o:
            ctx.broken.append(Broken("correspondence", "implementation driver failed", str(o)[:600], c))
            continue
        pairs.append((c, o))
        idx.append(i)
    files = {f"{tag}_{k // per:03d}": emit_file(pairs[k:k + per]) for k in range(0, len(pairs), per)}
    res = core.coq_eval_many(ctx, files, timeout=600, par=8)
    mism, viol = [], {}
    for k, name in enumerate(sorted(files)):
        ok, evals, se = res[name]
        if not ok or len(evals) != 2:
            ctx.broken.append(Broken("correspondence", f"case file {name}.v did not evaluate", core.tail(se, 15)))
            continue
        mism += [k * per + i for i in core.parse_int_list(evals[0])]
        for code in core.parse_int_list(evals[1]):
            viol.setdefault(k * per + code // 10, []).append(code % 10)
    return pairs, mism, viol


def image_info(c):
    dts, mx = set(), 0
    for m in c["models"]:
        for a in m["actions"]:
            if a.get("kind") == "write" and a["bucket"] == "image":
                dts.update(a.get("dtypes") or [a["dtype"]])
                mx = max(mx, max(a["per_step"]) + c["rows"] * c["cols"])
    return dts, mx


WIDTH = dict(uint8=8, uint16=16, uint32=32, uint64=64, float16=16, float32=32, float64=64)


def slices_detail(c, o) -> list:
    """Which parts of the bucket node differ from the recorder's snapshots (classification of a clause-2 violation
    only; the decision was taken inside Coq)."""
    res = o.get("result") or {}
    out = []
    if res.get("time") != [c["start"] + t for t in c["times"]] or [l for l, _ in o["snaps"]] != res.get("time"):
        out.append("time")
    if res.get("y") != list(range(c["rows"])) or res.get("x") != list(range(c["cols"])):
        out.append("coords")
    seen = o.get("wl_seen") or []
    if seen and seen[0] and all(w == seen[0] for w in seen) and res.get("wl") != seen[0]:
        out.append("wavelength")
    got = {v["name"]: v for v in res.get("vars", [])}
    for b in BUCKETS:
        want = [s.get(b) for _, s in o["snaps"]]
        v = got.get(b)
        if v is None:
            out.append(f"missing:{b}")
            continue
        if all(w is None for w in want):
            if v["dims"] != ["time"] or v["vals"]:
                out.append(f"values:{b}")
            continue
        if any(w is None for w in want) and b == "image":
            # judged when the image is there at the last step: the unsigned type is restored; with one dtype in all
            # initialised steps, that dtype and the initialised slices (Model/Result.v image_restored)
            if want[-1] is not None:
                held = {w[0] for w in want if w is not None}
                n_el = len(want[-1][2])
                if not v["dtype"].startswith("uint"):
                    out.append("dtype:image")
                elif len(held) == 1 and (v["dtype"] not in held or v["shape"] != [len(want)] + list(want[-1][1]) or any(
                        v["vals"][i * n_el:(i + 1) * n_el] != [to_int(x) for x in w[2]] for i, w in enumerate(want) if w is not None)):
                    out.append("values:image")
            continue
        k = None
        flat = []
        for w in want:
            if w is None:
                flat += [SENTINEL] * (k or 0)
            else:
                k = len(w[2])
                flat += [to_int(x) for x in w[2]]
        first = next(w for w in want if w is not None)
        if v["shape"] != [len(want)] + list(first[1]):
            out.append(f"shape:{b}")
        elif any(w is None for w in want):
            # NaN slices: compare the initialised ones only
            n_el = len(first[2])
            ok = True
            for i, w in enumerate(want):
                chunk = v["vals"][i * n_el:(i + 1) * n_el]
                ok &= (chunk == [to_int(x) for x in w[2]]) if w is not None else all(x == SENTINEL for x in chunk)
            if not ok:
                out.append(f"values:{b}")
        elif v["vals"] != flat:
            out.append(f"values:{b}")
        if b == "image" and all(w is not None for w in want):
            widest = max((w[0] for w in want), key=lambda d: WIDTH.get(d, 0))
            if v["dtype"] != widest:
                out.append("dtype:image")
    return out


def classify(c, o, clause: int) -> dict:
    n = len(c["times"])
    sig = dict(clause=CLAUSES[clause])
    dts, mx = image_info(c)
    if clause == 1:
        sig["input"] = "multi_readout_without_image" if (not dts and n >= 2) else "other"
        sig["error"] = (o.get("error") or "").split(":")[0]
    elif clause == 2:
        if dts == {"uint64"} and mx >= 2 ** 53 and n >= 2:
            sig["input"] = "uint64_image_above_2p53_multi_readout"
            # only the image may differ for this class
            res = o.get("result") or {}
            others_ok = True
            for v in res.get("vars", []):
                if v["name"] != "image":
                    want = [s[v["name"]] for _, s in o["snaps"]]
                    if all(w is not None for w in want):
                        flat = [to_int(x) for w in want for x in w[2]]
                        others_ok &= (flat == v["vals"] and v["dtype"] == want[0][0])
            img = next((v for v in res.get("vars", []) if v["name"] == "image"), None)
            if not others_ok or img is None or img["dtype"] != "uint64" or res.get("time") != [c["start"] + t for t in c["times"]]:
                sig["input"] = "other"
        else:
            sig["input"] = "other"
        detail = slices_detail(c, o)
        if sig["input"] == "other":
            # the image's unsigned type differs between the readouts and a later one is narrower; only the image differs
            idt = [s["image"][0] if s.get("image") else None for _, s in o["snaps"]]
            if (all(d in UMAX for d in idt) and any(WIDTH[idt[j]] < WIDTH[idt[i]] for i in range(len(idt)) for j in range(i + 1, len(idt)))
                    and detail and set(detail) <= {"values:image", "dtype:image"}):
                sig["input"] = "image_dtype_narrows_between_readouts"
            else:
                sig["detail"] = "+".join(detail) or "?"
    elif clause == 6:
        sig["input"] = "other"
        res = o.get("result") or {}
        inter = res.get("inter")
        if inter is not None and len(inter) == len(o["mrecs"]):
            first = {}
            for j, m in enumerate(o["mrecs"]):
                first.setdefault(m["step"], j)
            kinds = set()
            for j, (nd, m) in enumerate(zip(inter, o["mrecs"])):
                if node_equal(nd, m):
                    continue
                if node_equal(nd, m, ignore_values_of={"charge"}):
                    kinds.add("charge_values_follow_later_in_place_additions")
                elif node_equal(nd, m, ignore_values_of=set(BUCKETS)):
                    # same variables, shapes and image dtype, other values: which buckets?
                    want = {b: [to_int(x) for x in a[2]] for b, a in changed(m)}
                    off = sorted(v["name"] for v in nd["vars"] if want.get(v["name"]) != v["vals"])
                    kinds.add("recorded_values_differ_from_what_the_model_left:" + ",".join(off))
                    kinds.add("other")
                elif j == first[m["step"]] and m["step"] >= 1:
                    kinds.add("first_model_of_a_later_step")
                else:
                    kinds.add("other")
            if kinds and "other" in kinds and len(kinds) > 1:
                sig["detail"] = "+".join(sorted(k for k in kinds if k != "other"))
            if kinds and "other" not in kinds:
                sig["input"] = "+".join(sorted(kinds))
    else:
        sig["input"] = "other"
    return sig


def changed(m):
    before = {b: a for b, a in m["before"]}
    return [[b, a] for b, a in m["after"] if b not in before or [to_int(x) for x in before[b][2]] != [to_int(x) for x in a[2]]]


def node_equal(nd, m, ignore_values_of=()) -> bool:
    """dtype is part of the comparison for the image only (a 3-D photon is widened to float64 on read-out)"""
    def norm(b, dt, shape, vals):
        if b in ignore_values_of:
            vals = []
        return [b, dt if b == "image" else "", list(shape), [to_int(x) for x in vals]]
    want = [norm(b, a[0], a[1], a[2]) for b, a in changed(m)]
    got = [norm(v["name"], v["dtype"], v["shape"], v["vals"]) for v in nd["vars"]]
    return nd["step"] == m["step"] and nd["group"] == m["group"] and nd["name"] == m["name"] and got == want


def brief(o) -> dict:
    r = o.get("result")
    if r is None:
        return dict(error=o.get("error"))
    return dict(bucket_path=r["bucket_path"], children=r["children"], time=r["time"], y=r["y"], x=r["x"], wavelength=r.get("wl", []),
                vars=[dict(name=v["name"], dtype=v["dtype"], dims=v["dims"], shape=v["shape"], vals=v["vals"][:24]) for v in r["vars"]],
                inter=None if r["inter"] is None else [dict(step=n["step"], group=n["group"], name=n["name"],
                                                             vars={v["name"]: v["vals"][:8] for v in n["vars"]}) for n in r["inter"]],
                scene=r["scene"], data=r["data"])


def expected_text(c, o, clause) -> str:
    if clause == 6:
        return "intermediate nodes = per model the buckets it changed: " + json.dumps(
            [dict(step=m["step"], name=m["name"], changed={b: [to_int(x) for x in a[2][:8]] for b, a in changed(m)}) for m in o["mrecs"]])
    if clause == 2:
        return ("time = start + t_i (ticks of 1/8 s) = %s; y = 0..rows-1, x = 0..cols-1; every bucket initialised in every step: one slice per "
                "readout equal (values, dtype) to the recorder's snapshot of that step" % [c["start"] + t for t in c["times"]])
    return {1: "the run returns a DataTree", 3: "bucket node at '/' (flat) or '/bucket' (hierarchical or non-empty scene); children as specified",
            4: "/scene and /data equal what the detector held at the end of the last step",
            5: "bucket node, scene, data identical to the run with debug=False"}[clause]


def shrink(ctx: Ctx, c, clause: int, sig: dict):
    """One or two rounds of simplification, keeping clause and signature."""
    cur = c
    for rnd in range(2):
        cands = []
        n = len(cur["times"])
        for k in (1, 2, 3):
            if k < n:
                d = copy.deepcopy(cur)
                d["times"] = d["times"][:k]
                cands.append(d)
        body = [m for m in cur["models"] if m["actions"] != [dict(kind="last")]]
        for j in range(len(body)):
            d = copy.deepcopy(cur)
            d["models"] = [m for i, m in enumerate(body) if i != j] + [last_model()]
            cands.append(d)
        for key in ("rows", "cols"):
            if cur[key] > 1:
                d = copy.deepcopy(cur)
                d[key] = 1
                cands.append(d)
        if not cands:
            break
        pairs, _, viol = evaluate(ctx, cands, tag=f"shrink{rnd}")
        best = None
        for i, (cc, oo) in enumerate(pairs):
            if clause in viol.get(i, []) and classify(cc, oo, clause) == sig:
                size = (len(cc["times"]), len(cc["models"]), cc["rows"] * cc["cols"])
                if best is None or size < best[0]:
                    best = (size, cc, oo)
        if best is None:
            break
        cur, cur_o = best[1], best[2]
        c = cur
    return c


def to_violation(ctx: Ctx, c, o, clause: int, do_shrink=True) -> Violation:
    sig = classify(c, o, clause)
    if do_shrink:
        nb = len(ctx.broken)
        c2 = shrink(ctx, c, clause, sig)
        del ctx.broken[nb:]
        if c2 is not c:
            o2 = core.run_driver(ctx, "c03", [c2], workers=1)[0]
            if "result" in o2:
                c, o = c2, o2
    return Violation(clause=CLAUSES[clause], case=c, observed=brief(o), expected=expected_text(c, o, clause),
                     what=f"{CLAUSES[clause]} ({sig.get('input')}): readouts={len(c['times'])} hier={c['hier']} debug={c['debug']} "
                          f"nondestr={c['nondestr']} models={[m['name'] for m in c['models']]}", sig=sig)


def generated(ctx: Ctx) -> dict:
    """Gen_C03.v from the tree under test; the last accepted shape if the translation fails (broken obligation)."""
    try:
        # the ast normalisations the translator relies on are themselves run against python (differential self-test, < 1 s)
        from translator import c03_norm_selftest
        if c03_norm_selftest.main(verbose=False) != 0:
            raise core.TranslationError("translator/c03_norm.py: a normalisation changed the behaviour of a self-test snippet")
        return {"Gen_C03.v": tr.translate(ctx.repo)}
    except core.TranslationError as ex:
        ctx.broken.append(Broken("translation", "declarative part of the result assembly (exposure.py, to_xarray of the "
                                 "containers, Detector.to_xarray, ModelGroup.run)", str(ex)))
        ctx.log("translation failed:", ex)
        return {"Gen_C03.v": tr.FALLBACK}


def nontrivial(c) -> bool:
    return len(c["times"]) >= 2 and any(a.get("kind") == "write" for m in c["models"] for a in m["actions"])


def run(ctx: Ctx):
    ctx.trusted += TRUSTED
    ctx.assumptions += [
        "labels on a dyadic grid (1/8 s); the driver uses strictly increasing readout times (what Readout accepts), the "
        "theorems need no ordering",
        "C03_slices: image initialised in no step or in every step, with any unsigned types (they may differ between the steps) "
        "and any values; float buckets with any float types, which may differ between the steps",
        "C03_coords: every to_xarray sets the y / x coordinates (C03_source_tables); at least one variable in some step",
        "the wavelength labels of the result are judged (= those of the cubes the detector held) but not predicted by the model",
        "C03_slices / C03_debug_nodes: every to_xarray copies the container's buffer (C03_readouts_copy, table in Model/Result.v)",
        "a float bucket initialised in some steps only: judged (its slices equal the snapshots where it was initialised, all-NaN "
        "where it was not); an integer image missing at some step but there at the last one: the variable must have an unsigned "
        "type again and, with one dtype in all initialised steps, that dtype and the initialised slices (values < 2^53); the "
        "slices of the steps without an image (NaN cast to an integer) and an image missing at the last step are not judged",
        "debug: values small enough that np.allclose on integers is equality (|v| < 1e5)",
    ]
    core.proof_leg(ctx, generated(ctx), PROP_FILE)

    r = ctx.rng("cases")
    cases = fixed_cases()
    budget = ctx.budget(200, 1000)
    aimed = [dict(buckets=["photon", "signal", "pixel"], n=3, partial=True), dict(buckets=["photon"], n=4, partial=True, debug=True),
             dict(buckets=["signal", "image"], n=2, partial=True), dict(buckets=["pixel"], n=3), dict(buckets=["photon", "signal"], n=2), dict(debug=True, n=3),
             dict(debug=True, nondestr=True, n=2), dict(scene=True, hier=False), dict(data=True, n=4),
             dict(buckets=["photon", "pixel", "signal"], n=3, change=["pixel", "signal"], debug=False),
             dict(buckets=["photon", "pixel"], n=2, change=["photon"], waves=0), dict(buckets=["photon", "image"], n=4, change=["photon", "image"], waves=2),
             dict(buckets=["pixel", "image"], n=3, change=["image"], debug=True), dict(buckets=["signal"], n=5, change=["signal"], nondestr=True),
             dict(buckets=["photon", "charge", "pixel", "signal", "image"], n=2, waves=1, cube=dict(yk="half", xk=None)),
             dict(buckets=["photon", "pixel", "image"], n=3, waves=3, debug=True, cube=dict(yk="one_based", xk="reversed", extra=["mask"])),
             dict(buckets=["photon", "charge"], n=1, waves=2, cube=dict(yk=None, xk="big", order=1)),
             dict(buckets=["image", "pixel"], n=3, image_gaps=True), dict(buckets=["image"], n=4, image_gaps=True, debug=True),
             dict(buckets=["photon", "image"], n=2, image_gaps=True, hier=True, debug=False),
             dict(buckets=["image", "signal"], n=5, image_gaps=True, change=["image"], debug=False)]
    for f in aimed:
        cases.append(gen_case(r, f))
    while len(cases) < budget:
        cases.append(gen_case(r))
    if not ctx.quick:
        ex = exhaustive_cases()
        ctx.cov["exhaustive_writer_sequences"] = len(ex)
        cases += ex
        ex = exhaustive_dtype_cases()
        ctx.cov["exhaustive_dtype_sequences"] = len(ex)
        cases += ex
        ex = exhaustive_cube_cases()
        ctx.cov["exhaustive_cube_label_kinds"] = len(ex)
        cases += ex
    pairs, mism, viol = evaluate(ctx, cases)
    seen = set()
    for c, o in pairs:
        n = len(c["times"])
        ctx.count("evaluations", n * sum(1 for m in c["models"]) + 1)
        ctx.count("runs", 2 if c["debug"] else 1)
        ctx.dist("readouts", n)
        ctx.dist("layout", "hier" if c["hier"] else "flat")
        ctx.dist("debug", c["debug"])
        ctx.dist("nondestructive", c["nondestr"])
        dts, _ = image_info(c)
        ctx.dist("image", ",".join(sorted(dts)) or "never written")
        for m in c["models"]:
            for a in m["actions"]:
                if a.get("kind") == "write":
                    ctx.dist("bucket_written", a["bucket"] + ("_3d" if a.get("waves") else ""))
                    ctx.dist("write_mode", a.get("mode", "assign") + ("/debug" if c["debug"] else ""))
                    if any(v < 0 for v in a["per_step"]):
                        ctx.dist("initialised_in_some_steps_only", a["bucket"] + ("_3d" if a.get("waves") else ""))
                    if a["bucket"] != "image":
                        ctx.dist("float_dtype", a["dtype"])
                    if a.get("dtypes"):
                        seq = a["dtypes"]
                        order = UINTS if a["bucket"] == "image" else FLOATS
                        narrows = any(order.index(seq[j]) < order.index(seq[i]) for i in range(len(seq)) for j in range(i + 1, len(seq)))
                        ctx.dist("dtype_changes_between_steps", a["bucket"] + ("_3d" if a.get("waves") else "") + ("/narrows" if narrows else "/widens"))
                    if a.get("waves"):
                        cube = a.get("cube")
                        ctx.dist("cube_coordinates", "none" if not cube else
                                 ("y" if cube.get("y") is not None else "") + ("x" if cube.get("x") is not None else "")
                                 + ("+extra" if cube.get("extra") else "") or "none")
                elif a.get("kind") in ("data", "scene"):
                    ctx.dist("bucket_written", a["kind"])
        per_b = {}
        for m in c["models"]:
            for a in m["actions"]:
                if a.get("kind") == "write":
                    per_b.setdefault(a["bucket"] + ("_3d" if a.get("waves") else ""), []).append(a.get("mode", "assign"))
        for b, modes in per_b.items():
            if len(modes) >= 2 and c["debug"]:
                ctx.dist("debug_bucket_with_in_place_follow_up", b if any(md != "assign" for md in modes[1:]) else "none")
        ctx.dist("outcome", "raised" if o["result"] is None else "ok")
        if nontrivial(c):
            seen.add(json.dumps(c, sort_keys=True))
    ctx.cov["distinct_nontrivial"] = len(seen)
    ctx.cov["rule"] = ("distinct (schedule, layout, debug, pipeline of writer probes with per-step distinct values); non-trivial = "
                       ">= 2 readouts and at least one bucket written (a broadcast, shifted or dropped slice is visible)")
    ctx.cov["traces_validated_against_impl"] = len(pairs)
    ctx.cov["disagreements_checked"] = len(mism)
    for c, o in pairs[13:16]:
        ctx.sample(dict(case=c, returned=brief(o)))
    known = core.load_findings(ctx.prop)
    reported = set()
    shrunk = 0
    for i in sorted(viol):
        c, o = pairs[i]
        for clause in viol[i]:
            sig = classify(c, o, clause)
            key = json.dumps(sig, sort_keys=True)
            v0 = Violation(clause=CLAUSES[clause], case=c, observed=None, expected=None, what="", sig=sig)
            is_known = any(core.finding_matches(e, v0) for e in known)
            if key in reported or (is_known and key + "k" in reported):
                if is_known:
                    ctx.violations.append(Violation(clause=CLAUSES[clause], case=c, observed=brief(o),
                                                    expected=expected_text(c, o, clause), what="(same class)", sig=sig))
                continue
            reported.add(key)
            reported.add(key + "k")
            # every class is reported with its concrete input; the first few are minimised as well
            ctx.violations.append(to_violation(ctx, c, o, clause, do_shrink=not is_known and shrunk < 4))
            shrunk += 0 if is_known else 1
    (ctx.build / "mismatches.json").write_text(json.dumps([dict(case=pairs[i][0], observed=brief(pairs[i][1])) for i in mism], indent=1))
    for i in mism[:5]:
        c, o = pairs[i]
        ctx.broken.append(Broken("correspondence", "Model/Result.v vs implementation",
                                 f"model and implementation differ: readouts={len(c['times'])} hier={c['hier']} debug={c['debug']}",
                                 dict(case=c, observed=brief(o))))
    if ctx.broken and not new_violations(ctx):
        search(ctx)


def new_violations(ctx: Ctx):
    fs = core.load_findings(ctx.prop)
    return [v for v in ctx.violations if not any(core.finding_matches(e, v) for e in fs)]


def search(ctx: Ctx):
    """The model or a proof no longer matches the code: look harder for an input that breaks the specification."""
    ctx.log("searching for a concrete failing input (bigger budget)")
    r = ctx.rng("search")
    cases = []
    for n in (2, 3, 4, 6):
        for debug in (False, True):
            for hier in (False, True):
                for _ in range(6):
                    cases.append(gen_case(r, dict(n=n, debug=debug, hier=hier)))
    pairs, mism, viol = evaluate(ctx, cases, tag="s")
    known = core.load_findings(ctx.prop)
    done = set()
    for i in sorted(viol):
        c, o = pairs[i]
        for clause in viol[i]:
            sig = classify(c, o, clause)
            key = json.dumps(sig, sort_keys=True)
            v0 = Violation(clause=CLAUSES[clause], case=c, observed=None, expected=None, what="", sig=sig)
            if key in done or any(core.finding_matches(e, v0) for e in known):
                continue
            done.add(key)
            ctx.violations.append(to_violation(ctx, c, o, clause, do_shrink=len(done) <= 3))
    ctx.cov["search_cases"] = len(pairs)


def replay(ctx: Ctx, rp: dict) -> int:
    case = rp.get("case")
    if rp.get("kind") != "input" or not case:
        print(f"replay names a {rp.get('kind')} that no longer checks: {rp.get('no_longer_checks')}")
        print(rp.get("detail", ""))
        return 1
    core.ensure_lib(ctx, targets=core.lib_targets_of([(core.THEORIES / PROP_FILE).read_text()]))
    gen = ctx.build / "gen"
    gen.mkdir(parents=True, exist_ok=True)
    nb = len(ctx.broken)
    (gen / "Gen_C03.v").write_text(generated(ctx)["Gen_C03.v"])
    del ctx.broken[nb:]
    core.coqc(ctx, gen / "Gen_C03.v", [(gen, "PyxelGen")])
    pairs, mism, viol = evaluate(ctx, [case], tag="replay")
    if not pairs:
        print("the driver failed on the replayed case")
        return 1
    c, o = pairs[0]
    print("case:", json.dumps(c))
    print("implementation now returns:", json.dumps(brief(o))[:3000])
    clauses = viol.get(0, [])
    print("specification (evaluated in Coq):", ("VIOLATED: " + ", ".join(CLAUSES[k] for k in clauses)) if clauses else "holds")
    return 1 if clauses else 0


META = dict(
    level_text=(
        "Coq theorems, for ALL programs (arbitrary model functions of the step index and the detector, changing containers "
        "in place or re-assigning them), ALL schedules, both layouts, debug on/off, over an executable model of the result "
        "assembly (per-step read-out labelled start + t_i, concatenation along time, restoration of the image dtype, "
        "layouts, debug capture before/after each model, read-outs that copy or share the container's buffer): the "
        "concatenation loses and invents no slice; the result holds exactly one slice per readout, in order, labelled "
        "start + t_i and equal to the detector's state at the end of that step -- every uint64 image value included; the "
        "image keeps its unsigned dtype -- when the dtype of a bucket differs between the readouts (float16/32/64, uint8..64) the "
        "variable has numpy's common type of its slices and every slice keeps its values and shape (no slice is ever converted "
        "to a narrower type); the bucket node is labelled with the row and column indices whatever coordinates a photon cube "
        "carries, provided every read-out sets them (proved of the table regenerated from the code); layouts agree; scene/data "
        "pass through; debug does not alter the result and the node "
        "of EVERY model (the first of a step included) holds exactly the buckets it changed, provided every read-out copies "
        "(proved of the table of the code; witnesses show each copy is needed). That pyxel's code behaves like the model is "
        "established by correspondence (testing): the DataTree returned by pyxel.run_mode for generated writer pipelines "
        "(in-place and re-assigning writers of all six container kinds, several per step; dtypes that change from step to step "
        "with values the narrower types do not hold; multi-wavelength cubes carrying their own y / x / further coordinates) is "
        "compared inside Coq with the "
        "model's prediction and judged against the specification using the snapshots of a last-running recorder probe and "
        "the before/after records of every model."),
    level_note=(
        "Trusted: Coq kernel + vm_compute; the correspondence harness, driver and probes; xarray concat / DataTree, numpy "
        "casts, in-place arithmetic and np.allclose are modelled, not verified. Time labels are integers on a 1/8 s grid and "
        "array values are integers exactly representable in the dtype of their step. For an integer image that is missing at some "
        "step (NaN-filled, then cast) only the restored unsigned type and the initialised slices are judged, and only when the "
        "image is there at the last step; photon cubes whose wavelength labels differ between the steps are not "
        "generated."),
    technique="Coq proof over an executable result-assembly model + in-Coq correspondence/specification evaluation",
    design_ref="DESIGN.md section 6, C03",
)
