"""C01 — enabled models run once per readout, in the fixed physical group order."""
from __future__ import annotations

import copy
import itertools
import json

from .. import core
from ..core import Broken, Ctx, Violation

PROP_FILE = "Properties/C01.v"

# the property text's order; used on the Python side ONLY to shrink / classify a case that Coq has
# already judged (the decision itself is `violations` evaluated inside Coq)
PHYSICAL = ["scene_generation", "photon_collection", "phasing", "charge_generation", "charge_collection",
            "charge_transfer", "charge_measurement", "signal_transfer", "readout_electronics", "data_processing"]

TRUSTED = [
    "translator/c01.py (MODEL_GROUPS tuple, constructor keyword -> attribute -> property wiring, what run_pipeline / "
    "model_group_names / __iter__ iterate, ModelGroup.__iter__ guard, ModelFunction.__call__ argument passing; "
    "AST literal cross-checked against the imported class; fails closed on any other shape)",
    "correspondence harness: harness/props/c01.py generators, harness/drivers/c01.py, probes/verif_probes.record "
    "(name = detector.current_running_model_name, step = detector.pipeline_count, kwargs deep-copied), "
    "dicts compared as key-sorted association lists, JSON transport of ints/strings/bools/None/nested lists",
    "modelled, not verified: PyYAML SafeLoader (mapping -> dict with unique keys), Python keyword binding of "
    "DetectionPipeline(**dct), xarray DataTree child order = insertion order (debug nodes), copy.deepcopy of the "
    "processor in observation mode, pygmo's choice of fitness evaluations in calibration",
]

# ------------------------------------------------------------------------------------------ generation

ARG_KEYS = ["a", "b", "level", "x_0", "opt", "Key", "z9"]
STRINGS = ["", "x", "hello world", "yes", "null", "1", "a:b", "- q", "#c", "it's", 'say "hi"', "~", "True", "0x10",
           "[1, 2]", "{k: v}", " lead", "trail ", "%d", "\\n", "_"]


def gen_value(r, depth=0):
    k = r.random()
    if k < 0.40:
        return r.choice([0, 1, -1, 2, 7, 42, -13, 255, 65536, 10 ** 12, -(10 ** 15), r.randrange(-1000, 1000)])
    if k < 0.62:
        return r.choice(STRINGS)
    if k < 0.72:
        return r.choice([True, False])
    if k < 0.78:
        return None
    if depth >= 3:
        return r.randrange(10)
    return [gen_value(r, depth + 1) for _ in range(r.randrange(0, 4))]


def gen_args(r):
    k = r.random()
    if k < 0.25:
        return None
    if k < 0.32:
        return {}
    keys = r.sample(ARG_KEYS, r.randrange(1, 4))
    return {key: gen_value(r) for key in keys}


def gen_spec(r, dense=False):
    """[[key, models|None], ...] with shuffled keys."""
    pinc = r.choice([0.25, 0.5, 0.5, 0.8, 1.0]) if not dense else 1.0
    spec = []
    names = []
    for gi, g in enumerate(PHYSICAL):
        if r.random() >= pinc:
            continue
        k = r.random()
        if k < 0.07:
            spec.append([g, None])
            continue
        n = 0 if k < 0.17 else r.choice([1, 1, 2, 2, 3, 4])
        pen = r.choice([0.0, 0.5, 0.7, 0.7, 1.0])
        ms = []
        for j in range(n):
            nm = f"g{gi}_m{j}"
            if names and r.random() < 0.06:
                nm = r.choice(names)          # duplicate name (same or other group): positions matter
            names.append(nm)
            ms.append(dict(name=nm, enabled=r.random() < pen, explicit_enabled=r.random() < 0.6,
                           arguments=gen_args(r)))
        spec.append([g, ms])
    r.shuffle(spec)
    return spec


def int_targets(spec):
    """(group, model, key) of integer-valued arguments of uniquely named, enabled models (observation targets)."""
    count = {}
    for g, ms in spec:
        for m in ms or []:
            count[m["name"]] = count.get(m["name"], 0) + 1
    out = []
    for g, ms in spec:
        for m in ms or []:
            if count[m["name"]] != 1 or not m["enabled"]:
                continue   # Observation.validate_steps refuses a parameter of a disabled model
            for k, v in (m.get("arguments") or {}).items():
                if isinstance(v, int) and not isinstance(v, bool) and abs(v) < 10 ** 9:
                    out.append((g, m["name"], k))
    return out


def gen_cases(ctx: Ctx, n_specs: int, salt="cases"):
    r = ctx.rng(salt)
    cases = []
    for i in range(n_specs):
        spec = gen_spec(r, dense=(i % 11 == 0))
        steps = r.choice([1, 2, 2, 3, 3, 4])
        combos = [("yaml", False), ("yaml", True), ("python", False), ("python", True)]
        if ctx.quick and i % 3:
            combos = r.sample(combos, 2)
        for variant, debug in combos:
            cases.append(dict(spec=spec, steps=steps, variant=variant, mode="exposure", debug=debug))
        tg = int_targets(spec)
        if tg and r.random() < 0.5:
            params = []
            for (g, mn, k) in r.sample(tg, min(len(tg), r.choice([1, 2]))):
                params.append(dict(group=g, model=mn, key=k,
                                   values=r.sample(range(100, 200), r.choice([1, 2]))))
            cases.append(dict(spec=spec, steps=r.choice([1, 2, 3]), variant=r.choice(["yaml", "python"]),
                              mode="observation", debug=False, params=params))
    return cases


def pair_cases(full: bool):
    """All 45 pairs of groups x 4 enabled patterns; keys listed in reverse physical order."""
    cases = []
    n = 0
    for (i, a), (j, b) in itertools.combinations(enumerate(PHYSICAL), 2):
        for ea in (True, False):
            for eb in (True, False):
                spec = [[b, [dict(name=f"g{j}_m0", enabled=eb, explicit_enabled=True, arguments={"a": j}),
                             dict(name=f"g{j}_m1", enabled=True, explicit_enabled=False, arguments=None)]],
                        [a, [dict(name=f"g{i}_m0", enabled=ea, explicit_enabled=True, arguments={"a": i}),
                             dict(name=f"g{i}_m1", enabled=True, explicit_enabled=False, arguments={"b": [i, j]})]]]
                combos = [("yaml", False), ("yaml", True), ("python", False), ("python", True)]
                if not full:
                    combos = [combos[n % 4], combos[(n + 3) % 4]] if n % 2 else [combos[n % 4]]
                n += 1
                for variant, debug in combos:
                    cases.append(dict(spec=spec, steps=2, variant=variant, mode="exposure", debug=debug, sweep="pairs"))
    return cases


def fixed_cases():
    """Adversarial list aimed at the mutations the property text names."""
    cases = []
    allg = [[g, [dict(name=f"g{i}_m0", enabled=True, explicit_enabled=True, arguments={"a": i}),
                 dict(name=f"g{i}_m1", enabled=False, explicit_enabled=True, arguments={"a": -i}),
                 dict(name=f"g{i}_m2", enabled=True, explicit_enabled=False, arguments={"b": [i, "s"]})]]
            for i, g in reversed(list(enumerate(PHYSICAL)))]
    alldis = [[g, [dict(name=f"g{i}_m0", enabled=False, explicit_enabled=True, arguments=None)]]
              for i, g in enumerate(PHYSICAL)]
    dup = [["charge_generation", [dict(name="same", enabled=True, explicit_enabled=True, arguments={"a": 1}),
                                  dict(name="same", enabled=False, explicit_enabled=True, arguments={"a": 2}),
                                  dict(name="same", enabled=True, explicit_enabled=True, arguments={"a": 3})]],
           ["photon_collection", [dict(name="same", enabled=True, explicit_enabled=True, arguments={"a": 4})]]]
    empties = [["charge_transfer", []], ["signal_transfer", None],
               ["phasing", [dict(name="g2_m0", enabled=True, explicit_enabled=False, arguments=None)]]]
    for spec in (allg, alldis, dup, empties, []):
        for variant in ("yaml", "python"):
            for debug in (False, True):
                for steps in (1, 3):
                    cases.append(dict(spec=spec, steps=steps, variant=variant, mode="exposure", debug=debug))
    cases.append(dict(spec=allg, steps=2, variant="yaml", mode="observation", debug=False,
                      params=[dict(group="phasing", model="g2_m0", key="a", values=[100, 101]),
                              dict(group="data_processing", model="g9_m0", key="a", values=[102])]))
    cases.append(dict(spec=allg, steps=2, variant="python", mode="observation", debug=False,
                      params=[dict(group="scene_generation", model="g0_m0", key="a", values=[100])]))
    return cases


def malformed_cases(ctx: Ctx):
    r = ctx.rng("malformed")
    out = []
    for bad in ["photon_generation", "Phasing", "charge_transfer_", "optics", "readout", "models"]:
        spec = gen_spec(r)
        spec.insert(r.randrange(len(spec) + 1), [bad, r.choice([None, []])])
        out.append(dict(spec=spec, steps=1, variant=r.choice(["yaml", "python"]), mode="exposure", debug=False,
                        malformed=True))
    return out


def calibration_cases(ctx: Ctx, n: int):
    r = ctx.rng("calibration")
    out = []
    for _ in range(n):
        spec = [s for s in gen_spec(r) if s[0] != "charge_collection"]
        # the fitted output must exist: one writer model fills `pixel` (it is not part of the compared trace)
        spec.append(["charge_collection", [dict(name="writer", enabled=True, explicit_enabled=True,
                                                func="verif_probes.write",
                                                arguments={"bucket": "pixel", "value": 1.0})]])
        r.shuffle(spec)
        out.append(dict(spec=spec, steps=1, variant="yaml", mode="calibration", debug=False))
    return out


# ------------------------------------------------------------------------------------------ Python mirror
# (shrinking and classification only)


def mirror_trace(spec, steps, overrides=()):
    d = {}
    for k, ms in spec:
        d[k] = copy.deepcopy(ms)
    for ov in overrides:
        for m in d.get(ov["group"]) or []:
            if m["name"] == ov["model"]:
                if m.get("arguments") and ov["key"] in m["arguments"]:
                    m["arguments"][ov["key"]] = ov["value"]
                break
    out = []
    for s in range(steps):
        for g in PHYSICAL:
            for m in d.get(g) or []:
                if m["enabled"] and m.get("func", "verif_probes.record") == "verif_probes.record":
                    a = m.get("arguments") or {}
                    out.append([s, m["name"], {k: a[k] for k in sorted(a)}])
    return out


def runs_of(case):
    if case["mode"] != "observation":
        return [[]]
    runs = []
    for q in case["params"]:
        for v in q["values"]:
            runs.append([dict(group=q["group"], model=q["model"], key=q["key"], value=v)])
    return runs


def mirror_expected(case):
    t = []
    for ovs in runs_of(case):
        t += mirror_trace(case["spec"], case["steps"], ovs)
    return t


def mirror_nodes(case):
    seen, out = set(), []
    d = dict((k, ms) for k, ms in case["spec"])
    for s in range(case["steps"]):
        for g in PHYSICAL:
            for m in d.get(g) or []:
                if m["enabled"] and (s, g, m["name"]) not in seen:
                    seen.add((s, g, m["name"]))
                    out.append([s, g, m["name"]])
    return out


def mirror_violates(case, obs) -> bool:
    if any(k not in PHYSICAL for k, _ in case["spec"]):
        return False
    if obs.get("error"):
        return True
    if "trace" not in obs:
        return True
    if not obs.get("det_ok", True):
        return True
    exp = mirror_trace(case["spec"], case["steps"]) if case["mode"] == "calibration" else mirror_expected(case)
    if case["mode"] == "calibration":
        t = obs["trace"]
        if not exp:
            return bool(t)
        return not (len(t) >= len(exp) and len(t) % len(exp) == 0
                    and all(t[i:i + len(exp)] == exp for i in range(0, len(t), len(exp))))
    if obs["trace"] != exp:
        return True
    if case["mode"] == "exposure" and case.get("debug"):
        return obs.get("nodes") != mirror_nodes(case)
    return False


def classify(case, obs):
    if obs.get("error") or "trace" not in obs:
        n_exp = len(mirror_trace(case["spec"], case["steps"]))
        return "raises", dict(error=obs.get("error"), expected_calls="0" if n_exp == 0 else ">0")
    if not obs.get("det_ok", True):
        return "detector_identity", {}
    exp = mirror_expected(case) if case["mode"] != "calibration" else None
    t = obs["trace"]
    if exp is None:
        return "calibration_subtrace", {}
    key = lambda e: json.dumps(e, sort_keys=True)  # noqa: E731
    if t == exp:
        return "debug_capture", {}
    if sorted(map(key, t)) == sorted(map(key, exp)):
        # same calls, other order: which level is out of order?
        grp = {}
        for g, ms in case["spec"]:
            for m in ms or []:
                grp.setdefault(m["name"], set()).add(g)
        for a, b in zip(t, t[1:]):
            if a[0] > b[0]:
                return "order", dict(level="step")
        for a, b in zip(t, exp):
            if a != b:
                ga, gb = grp.get(a[1], set()), grp.get(b[1], set())
                return "order", dict(level="group" if ga != gb else "list")
        return "order", {}
    enabled_names = {(m["name"]) for _, ms in case["spec"] for m in ms or [] if m["enabled"]}
    disabled_names = {(m["name"]) for _, ms in case["spec"] for m in ms or [] if not m["enabled"]}
    tk, ek = [key(e[:2]) for e in t], [key(e[:2]) for e in exp]
    if sorted(tk) == sorted(ek):
        return "args", {}
    for e in t:
        if e[1] in disabled_names and e[1] not in enabled_names:
            return "disabled_executed", {}
    for k in set(tk):
        if tk.count(k) > ek.count(k):
            return "more_than_once", {}
    for k in set(ek):
        if tk.count(k) < ek.count(k):
            return "missing", {}
    return "unclassified", {}


# ------------------------------------------------------------------------------------------ Coq emission


def cval(v) -> str:
    if isinstance(v, bool):
        return f"VBool {core.cbool(v)}"
    if isinstance(v, int):
        return f"VInt {core.cz(v)}"
    if isinstance(v, str):
        return f"VStr {core.cstr(v)}"
    if v is None:
        return "VNone"
    if isinstance(v, (list, tuple)):
        return "VList " + (core.clist(f"({cval(x)})" for x in v) if v else "nil")
    raise ValueError(f"value outside the modelled domain: {v!r}")


def ckwargs(d) -> str:
    d = d or {}
    return core.clist(f"({core.cstr(k)}, {cval(d[k])})" for k in sorted(d))


def cmodel(m) -> str:
    return (f"{{| name := {core.cstr(m['name'])}; enabled := {core.cbool(bool(m['enabled']))}; "
            f"args := {ckwargs(m.get('arguments'))} |}}")


def cdoc(spec) -> str:
    items = []
    for k, ms in spec:
        if ms is None:
            v = "None"
        else:
            # the writer model of the calibration cases is not a probe: it is outside the compared trace
            ms = [m for m in ms if m.get("func", "verif_probes.record") == "verif_probes.record"]
            v = "(Some " + core.clist(cmodel(m) for m in ms) + ")"
        items.append(f"({core.cstr(k)}, {v})")
    return core.clist(items)


def cmode(case) -> str:
    if case["mode"] == "exposure":
        return f"(Exposure {core.cbool(bool(case.get('debug')))})"
    if case["mode"] == "calibration":
        return "Calibration"
    runs = []
    for ovs in runs_of(case):
        runs.append(core.clist(
            f"{{| o_group := {GROUP_CTOR[o['group']]}; o_model := {core.cstr(o['model'])}; "
            f"o_key := {core.cstr(o['key'])}; o_value := {cval(o['value'])} |}}" for o in ovs))
    return "(Observation " + core.clist(runs) + ")"


GROUP_CTOR = dict(zip(PHYSICAL, ["SceneGeneration", "PhotonCollection", "Phasing", "ChargeGeneration",
                                 "ChargeCollection", "ChargeTransfer", "ChargeMeasurement", "SignalTransfer",
                                 "ReadoutElectronics", "DataProcessing"]))


def coutcome(obs) -> str:
    if obs.get("error") or "trace" not in obs:
        return f"(Failed {core.cstr(str(obs.get('error') or 'Other'))})"
    tr = core.clist(f"({core.cnat(s)}, {core.cstr(n)}, {ckwargs(kw)})" for s, n, kw in obs["trace"])
    if obs.get("nodes") is None:
        nodes = "None"
    else:
        nodes = "(Some " + core.clist(f"({core.cnat(s)}, {core.cstr(g)}, {core.cstr(n)})" for s, g, n in obs["nodes"]) + ")"
    return f"(Ran {tr} {nodes})"


def emit_case(case, obs) -> str:
    return (f"{{| k_doc := {cdoc(case['spec'])};\n     k_steps := {core.cnat(case['steps'])}; k_mode := {cmode(case)};\n"
            f"     k_observed := {coutcome(obs)} |}}")


def emit_file(pairs) -> str:
    body = ";\n  ".join(emit_case(c, o) for c, o in pairs)
    return ("From Coq Require Import ZArith List String.\nFrom PyxelV Require Import Model.Pipeline.\n"
            "From PyxelGen Require Import Gen_C01.\nImport ListNotations.\nOpen Scope list_scope.\n"
            f"Definition cases : list c01_case := [\n  {body}\n].\n"
            "Eval vm_compute in mismatches src_model_groups cases.\n"
            "Eval vm_compute in violations cases.\n")


# ------------------------------------------------------------------------------------------ legs


def case_key(c):
    return json.dumps({k: c.get(k) for k in ("spec", "steps", "mode", "params")}, sort_keys=True)


def nontrivial(c) -> bool:
    pop = [ms for _, ms in c["spec"] if ms]
    return len(pop) >= 2 or any(not m["enabled"] for ms in pop for m in ms)


def correspondence(ctx: Ctx, cases, tag="c", per=40):
    import time
    t0 = time.time()
    obs = core.run_driver(ctx, "c01", cases, workers=8)
    ctx.log(f"implementation ran {len(cases)} cases in {time.time() - t0:.1f}s")
    t0 = time.time()
    pairs = []
    for c, o in zip(cases, obs):
        if "crash" in o or "driver_error" in o:
            ctx.broken.append(Broken("correspondence", "implementation driver failed", str(o)[:600], c))
            continue
        pairs.append((c, o))
    files = {}
    for k in range(0, len(pairs), per):
        files[f"{tag}_{k // per:03d}"] = emit_file(pairs[k:k + per])
    res = core.coq_eval_many(ctx, files, timeout=600, par=8)
    ctx.log(f"Coq evaluated {len(files)} case files in {time.time() - t0:.1f}s")
    mism, viol = [], []
    for k, name in enumerate(sorted(files)):
        ok, evals, se = res[name]
        chunk = pairs[k * per:(k + 1) * per]
        if not ok or len(evals) != 2:
            ctx.broken.append(Broken("correspondence", f"case file {name}.v did not evaluate", core.tail(se, 15)))
            continue
        mism += [chunk[i] for i in core.parse_int_list(evals[0])]
        viol += [chunk[i] for i in core.parse_int_list(evals[1])]
    # the identity of the detector handed to the models is outside the Coq model: judged here
    for c, o in pairs:
        if "trace" in o and not o.get("det_ok", True) and not any(c is v[0] for v in viol):
            viol.append((c, o))
    for c, o in pairs:
        ctx.count("evaluations")
        ctx.count("model_calls_compared", len(o.get("trace", [])))
        ctx.dist("mode", c["mode"] + ("/debug" if c.get("debug") else ""))
        ctx.dist("variant", c["variant"])
        ctx.dist("steps", c["steps"])
        ctx.dist("populated_groups", sum(1 for _, ms in c["spec"] if ms))
        ctx.dist("models", min(sum(len(ms or []) for _, ms in c["spec"]), 20))
        ctx.dist("outcome", o.get("error") or "ran")
    return mism, viol, pairs


def coq_violates(ctx: Ctx, case, obs) -> bool | None:
    ok, evals, se = core.coq_eval(ctx, "single", emit_file([(case, obs)]))
    if not ok or len(evals) != 2:
        return None
    return core.parse_int_list(evals[1]) != []


def shrink(ctx: Ctx, case, obs):
    """Greedy one-element removals while the (Python mirror of the) specification is still violated;
    the result is confirmed inside Coq, else the original case is kept."""
    if not mirror_violates(case, obs):
        return case, obs
    target = classify(case, obs)   # a smaller case must fail in the SAME way (no slipping into another defect)
    cur, cur_obs = copy.deepcopy(case), obs
    for _ in range(14):
        cands = []
        spec = cur["spec"]
        for i in range(len(spec)):
            c = copy.deepcopy(cur)
            del c["spec"][i]
            cands.append(c)
        for i, (k, ms) in enumerate(spec):
            for j in range(len(ms or [])):
                c = copy.deepcopy(cur)
                del c["spec"][i][1][j]
                cands.append(c)
        if cur["steps"] > 1:
            c = copy.deepcopy(cur)
            c["steps"] -= 1
            cands.append(c)
        for i, (k, ms) in enumerate(spec):
            for j, m in enumerate(ms or []):
                if m.get("arguments"):
                    c = copy.deepcopy(cur)
                    c["spec"][i][1][j]["arguments"] = None
                    cands.append(c)
        if cur["mode"] == "observation":
            for i, q in enumerate(cur["params"]):
                if len(cur["params"]) > 1:
                    c = copy.deepcopy(cur)
                    del c["params"][i]
                    cands.append(c)
                if len(q["values"]) > 1:
                    c = copy.deepcopy(cur)
                    c["params"][i]["values"] = q["values"][:1]
                    cands.append(c)
        # observation targets must survive
        good = []
        for c in cands:
            if c["mode"] == "observation":
                tg = set(int_targets(c["spec"]))
                if not all((q["group"], q["model"], q["key"]) in tg for q in c["params"]):
                    continue
            good.append(c)
        if not good:
            break
        res = core.run_driver(ctx, "c01", good, workers=1)   # one process: the import costs more than the runs
        nxt = None
        for c, o in zip(good, res):
            if "crash" in o or "driver_error" in o:
                continue
            if mirror_violates(c, o) and classify(c, o) == target:
                nxt = (c, o)
                break
        if nxt is None:
            break
        cur, cur_obs = nxt
    if cur is not case:
        v = coq_violates(ctx, cur, cur_obs) if cur_obs.get("det_ok", True) else True
        if not v:
            return case, obs
    return cur, cur_obs


def to_violation(ctx: Ctx, case, obs) -> Violation:
    case, obs = shrink(ctx, case, obs)
    clause, extra = classify(case, obs)
    sig = dict(clause=clause, mode=case["mode"], debug=bool(case.get("debug")), variant=case["variant"], **extra)
    exp = None
    if case["mode"] != "calibration":
        exp = dict(trace=mirror_expected(case))
        if case["mode"] == "exposure" and case.get("debug"):
            exp["nodes"] = mirror_nodes(case)
    groups = [k for k, ms in case["spec"]]
    what = (f"{case['mode']} ({case['variant']}, debug={bool(case.get('debug'))}, {case['steps']} step(s)) over groups "
            f"{groups}: {clause} {extra if extra else ''}")
    return Violation(clause=clause, case=case, observed=obs, expected=exp, what=what, sig=sig)


def new_violations(ctx: Ctx):
    fs = core.load_findings(ctx.prop)
    return [v for v in ctx.violations if not any(core.finding_matches(e, v) for e in fs)]


def add_violations(ctx: Ctx, viol, cap=6):
    """One (shrunk) violation per distinct first classification; shrinking costs driver runs."""
    seen = {}
    size = lambda c: (len(c["spec"]) + sum(len(ms or []) for _, ms in c["spec"]), c["steps"])  # noqa: E731
    for c, o in sorted(viol, key=lambda co: size(co[0])):      # start the shrinking from the smallest case
        k = (classify(c, o)[0], c["mode"], bool(c.get("debug")), c["variant"])
        seen.setdefault(k, (c, o))
    for k in list(seen)[:cap]:
        c, o = seen[k]
        ctx.violations.append(to_violation(ctx, c, o))
    ctx.cov["violating_cases"] = ctx.cov.get("violating_cases", 0) + len(viol)


def run(ctx: Ctx):
    from translator import c01 as tr

    ctx.trusted += TRUSTED
    ctx.assumptions += [
        "model functions are the recording probe (any group, CCD detector); argument values are ints, strings, "
        "bools, None and nested lists (no floats, no dict values)",
        "YAML mappings have unique keys (NoDup hypothesis of C01_yaml_key_order_irrelevant)",
        "observation: sequential mode, with_dask False, integer-valued targets of uniquely named models",
        "calibration (thorough tier): the fitted parameter is a detector characteristic, so every evaluation must "
        "reproduce the configured arguments; how many evaluations happen is pygmo's choice",
    ]
    gen = {}
    try:
        gen["Gen_C01.v"] = tr.translate(ctx.repo)
    except core.TranslationError as ex:
        ctx.broken.append(Broken("translation", "pyxel/pipelines (MODEL_GROUPS, constructor wiring, iteration)", str(ex)))
        ctx.log("translation failed:", ex)
        gen["Gen_C01.v"] = tr.FALLBACK
    core.proof_leg(ctx, gen, PROP_FILE)

    cases = fixed_cases()
    cases += gen_cases(ctx, ctx.budget(110, 700))
    cases += pair_cases(full=not ctx.quick)
    cases += malformed_cases(ctx)
    if not ctx.quick:
        cases += calibration_cases(ctx, 6)
    mism, viol, pairs = correspondence(ctx, cases)

    keys = {case_key(c) for c, _ in pairs if nontrivial(c)}
    ctx.cov["distinct_nontrivial"] = len(keys)
    ctx.cov["rule"] = ("one case = (pipeline document, steps, mode, construction variant); distinct = distinct (document, "
                       "steps, mode, parameters); non-trivial = at least two populated groups or at least one disabled model")
    ctx.cov["traces_validated_against_impl"] = len(pairs)
    ctx.cov["disagreements_checked"] = len(mism)
    ctx.cov["pair_sweep"] = "all 45 group pairs x 4 enabled patterns" + ("" if ctx.quick else " x yaml/python x debug on/off")
    for c, o in pairs[:2] + pairs[-8:-6]:
        ctx.sample(dict(case={k: c.get(k) for k in ("steps", "variant", "mode", "debug")},
                        groups_in_document_order=[k for k, _ in c["spec"]],
                        trace_head=o.get("trace", [])[:4], n_calls=len(o.get("trace", [])), error=o.get("error")))
    add_violations(ctx, viol)
    (ctx.build / "mismatches.json").write_text(json.dumps([dict(case=c, observed=o) for c, o in mism][:50], indent=1))
    for c, o in mism[:20]:
        ctx.broken.append(Broken("correspondence", "Model/Pipeline.v vs implementation",
                                 f"model and implementation differ ({c['mode']}, {c['variant']}, debug={c.get('debug')})",
                                 dict(case=c, observed=o)))
    if ctx.broken and not new_violations(ctx):
        search(ctx)


def search(ctx: Ctx):
    """A proof obligation or the correspondence broke: look harder for a concrete failing input."""
    ctx.log("searching for a concrete failing input (full pair sweep, dense pipelines, bigger budget)")
    cases = pair_cases(full=True) + gen_cases(ctx, 250, salt="search")
    r = ctx.rng("search-dense")
    for _ in range(40):
        spec = gen_spec(r, dense=True)
        for variant in ("yaml", "python"):
            for debug in (False, True):
                cases.append(dict(spec=spec, steps=r.choice([2, 3, 4]), variant=variant, mode="exposure", debug=debug))
    mism, viol, pairs = correspondence(ctx, cases, tag="s")
    add_violations(ctx, viol)
    ctx.cov["search_cases"] = len(pairs)


def replay(ctx: Ctx, rp: dict) -> int:
    case = rp.get("case")
    if rp.get("kind") != "input" or not case or "spec" not in case:
        print(f"replay names a {rp.get('kind')} that no longer checks: {rp.get('no_longer_checks')}")
        print(rp.get("detail", ""))
        return 1
    obs = core.run_driver(ctx, "c01", [case], workers=1)[0]
    print("case:", json.dumps(case))
    print("implementation now returns:", json.dumps(obs))
    if "crash" in obs or "driver_error" in obs:
        print("the implementation driver failed")
        return 1
    from translator import c01 as tr
    gen = ctx.build / "gen"
    gen.mkdir(parents=True, exist_ok=True)
    try:
        text = tr.translate(ctx.repo)
    except core.TranslationError:
        text = tr.FALLBACK
    (gen / "Gen_C01.v").write_text(text)
    core.ensure_lib(ctx, targets=core.lib_targets_of([emit_file([])]))
    core.coqc(ctx, gen / "Gen_C01.v", [(gen, "PyxelGen")])
    v = coq_violates(ctx, case, obs)
    bad = bool(v) or v is None or not obs.get("det_ok", True)
    if case["mode"] != "calibration":
        print("specification expects:", json.dumps(mirror_expected(case)))
    print("specification (evaluated in Coq):", "VIOLATED" if bad else "holds")
    return 1 if bad else 0


META = dict(
    level_text=(
        "Coq theorems, for all pipelines / step counts / debug flags / YAML key orders, over an executable model of "
        "DetectionPipeline construction (empty list = absent), Processor.run_pipeline, ModelGroup.run and the YAML "
        "loader: the trace is strictly sorted by (step, rank in the physical order written from the property text, "
        "position in the user's list); every enabled position executes exactly once per step and disabled models / "
        "absent groups never (position-based, so duplicate names are covered); every call carries exactly the configured "
        "arguments; permuting the YAML keys gives the same pipeline; YAML = Python construction; debug capture does not "
        "change the trace. The physical literal is proved equal to MODEL_GROUPS regenerated from the source on every run, "
        "together with the constructor keyword -> attribute -> property wiring and what run_pipeline iterates. That the "
        "Python code behaves as the model is established by correspondence (testing): generated pipelines built from "
        "shuffled-key YAML through pyxel.load and from Python objects, run in exposure (debug on/off), sequential "
        "observation and (thorough) calibration, the recorded calls judged inside Coq against model and specification, "
        "plus the sweep of all 45 group pairs x 4 enabled patterns."),
    level_note=(
        "Trusted: Coq kernel + vm_compute; translator/c01.py; the correspondence harness and the recording probe. "
        "All theorems are closed under the global context (no axioms). Not carried by the theorems: that "
        "func(detector, **arguments) receives *the* processor's detector (checked by identity on the implementation "
        "side only), PyYAML, Python keyword binding, xarray DataTree child order, deepcopy in observation mode, "
        "pygmo's choice of evaluations (only per-evaluation sub-traces are compared), dask observation mode."),
    technique="Coq proof (induction over groups/steps, StronglySorted, Permutation) + regenerated group-order/wiring tables "
              "+ in-Coq correspondence/spec evaluation of recorded traces",
    design_ref="DESIGN.md section 6, C01",
)
