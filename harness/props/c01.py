"""C01 — enabled models run once per readout, in the fixed physical group order."""
from __future__ import annotations

import copy
import itertools
import json
import os

from .. import core
from ..core import Broken, Ctx, Violation

PROP_FILE = "Properties/C01.v"

# the property text's order; used on the Python side ONLY to shrink / classify a case that Coq has
# already judged (the decision itself is `violations` evaluated inside Coq)
PHYSICAL = ["scene_generation", "photon_collection", "phasing", "charge_generation", "charge_collection",
            "charge_transfer", "charge_measurement", "signal_transfer", "readout_electronics", "data_processing"]

TRUSTED = [
    "translator/c01.py (MODEL_GROUPS tuple, constructor keyword -> attribute -> property wiring, what run_pipeline / "
    "model_group_names / __iter__ iterate, the conditions under which run_pipeline skips a group, ModelGroup.__iter__ "
    "guard, what ModelGroup.run loops over, ModelFunction.__call__ argument passing, attributes set by "
    "ModelGroup.__init__ vs restored by __setstate__, how exposure.run_pipeline reads detector.intermediate; AST "
    "literal cross-checked against the imported class; fails closed on any other shape)",
    "correspondence harness: harness/props/c01.py generators and the Python mirror used to generate valid histories, "
    "harness/drivers/c01.py (which public calls realise each operation of a history), probes/verif_probes.record "
    "(name = detector.current_running_model_name, step = detector.pipeline_count, kwargs deep-copied) and "
    "verif_probes_c01.grow, dicts compared as key-sorted association lists, JSON transport of "
    "ints/strings/bools/None/nested lists/dicts",
    "modelled, not verified: PyYAML SafeLoader (mapping -> dict with unique keys), Python keyword binding of "
    "DetectionPipeline(**dct), xarray DataTree child order = insertion order (debug nodes), that copy.deepcopy / "
    "pickle of a processor or pipeline yields an independent equal value (the specification of copying: "
    "Model/PipelineHist.v treats every pipeline object as a value; sharing would show as a correspondence break), "
    "which run lists ProductMode / SequentialMode produce from the parameters (C05), dask's choice of task order and "
    "repetition under the synchronous scheduler, pygmo's choice of fitness evaluations in calibration",
]

# ------------------------------------------------------------------------------------------ generation

RECORD = "verif_probes.record"
GROW = "verif_probes_c01.grow"         # records, then changes its container arguments in place
PROBES = (RECORD, GROW)
DETS = ["ccd", "cmos", "mkid", "apd"]

ARG_KEYS = ["a", "b", "level", "x_0", "opt", "Key", "z9"]
DICT_KEYS = ["level", "kind", "n", "sub", "q1", "lst"]
STRINGS = ["", "x", "hello world", "yes", "null", "1", "a:b", "- q", "#c", "it's", 'say "hi"', "~", "True", "0x10",
           "[1, 2]", "{k: v}", " lead", "trail ", "%d", "\\n", "_"]


def gen_scalar(r):
    k = r.random()
    if k < 0.55:
        return r.choice([0, 1, -1, 2, 7, 42, -13, 255, 65536, 10 ** 12, -(10 ** 15), r.randrange(-1000, 1000)])
    if k < 0.80:
        return r.choice(STRINGS)
    if k < 0.92:
        return r.choice([True, False])
    return None


def gen_dict(r, depth=0):
    d = {}
    for key in r.sample(DICT_KEYS, r.randrange(1, 4)):
        k = r.random()
        if k < 0.5 or depth >= 2:
            d[key] = r.choice([0, 1, 5, 10, -3, r.randrange(100)]) if r.random() < 0.7 else gen_scalar(r)
        elif k < 0.75:
            d[key] = [(gen_dict(r, depth + 1) if r.random() < 0.3 and depth < 1 else r.randrange(10))
                      for _ in range(r.randrange(0, 3))]
        else:
            d[key] = gen_dict(r, depth + 1)
    return d


def gen_value(r, depth=0, containers=0.0):
    if depth == 0 and r.random() < containers:
        return gen_dict(r) if r.random() < 0.6 else [r.randrange(10) for _ in range(r.randrange(0, 3))]
    k = r.random()
    if k < 0.40:
        return r.choice([0, 1, -1, 2, 7, 42, -13, 255, 65536, 10 ** 12, -(10 ** 15), r.randrange(-1000, 1000)])
    if k < 0.62:
        return r.choice(STRINGS)
    if k < 0.72:
        return r.choice([True, False])
    if k < 0.78:
        return None
    if depth >= 3:
        return r.randrange(10)
    return [gen_value(r, depth + 1) for _ in range(r.randrange(0, 4))]


def gen_args(r, containers=0.0):
    k = r.random()
    if k < 0.25 and not containers:
        return None
    if k < 0.32 and not containers:
        return {}
    keys = r.sample(ARG_KEYS, r.randrange(1, 4))
    return {key: gen_value(r, containers=containers) for key in keys}


def gen_spec(r, dense=False, containers=0.0, grow=0.0):
    """[[key, models|None], ...] with shuffled keys."""
    pinc = r.choice([0.25, 0.5, 0.5, 0.8, 1.0]) if not dense else 1.0
    spec = []
    names = []
    for gi, g in enumerate(PHYSICAL):
        if r.random() >= pinc:
            continue
        k = r.random()
        if k < 0.07:
            spec.append([g, None])
            continue
        n = 0 if k < 0.17 else r.choice([1, 1, 2, 2, 3, 4])
        pen = r.choice([0.0, 0.5, 0.7, 0.7, 1.0])
        ms = []
        for j in range(n):
            nm = f"g{gi}_m{j}"
            if names and r.random() < 0.06:
                nm = r.choice(names)          # duplicate name (same or other group): positions matter
            names.append(nm)
            m = dict(name=nm, enabled=r.random() < pen, explicit_enabled=r.random() < 0.6,
                     arguments=gen_args(r, containers=containers))
            if r.random() < grow:
                m["func"] = GROW
            ms.append(m)
        spec.append([g, ms])
    r.shuffle(spec)
    return spec


def paths_of(value, prefix):
    """Paths (lists of dict keys / list indices) inside `value` that Processor.set can address: every element
    walks a dict by key or a list by index and the LAST element is a dict key."""
    out = []
    if isinstance(value, dict):
        for k, v in value.items():
            out.append(prefix + [k])
            out += paths_of(v, prefix + [k])
    elif isinstance(value, list):
        for i, v in enumerate(value):
            out += paths_of(v, prefix + [i])
    return out


def name_count(spec):
    count = {}
    for g, ms in spec:
        for m in ms or []:
            count[m["name"]] = count.get(m["name"], 0) + 1
    return count


def int_targets(spec):
    """(group, model, key) of integer-valued arguments of uniquely named, enabled models (observation targets)."""
    count = name_count(spec)
    out = []
    for g, ms in spec:
        for m in ms or []:
            if count[m["name"]] != 1 or not m["enabled"] or m.get("func", RECORD) not in PROBES:
                continue   # Observation.validate_steps refuses a parameter of a disabled model
            for k, v in (m.get("arguments") or {}).items():
                if isinstance(v, int) and not isinstance(v, bool) and abs(v) < 10 ** 9:
                    out.append((g, m["name"], k))
    return out


def path_targets(spec):
    """(group, model, path) of every addressable setting of uniquely named, enabled probe models: top-level
    argument keys and paths into dict / list valued arguments (product-mode observation, Processor.set)."""
    count = name_count(spec)
    out = []
    for g, ms in spec:
        for m in ms or []:
            if count[m["name"]] != 1 or not m["enabled"] or m.get("func", RECORD) not in PROBES:
                continue
            for k, v in (m.get("arguments") or {}).items():
                out.append((g, m["name"], [k]))
                for pth in paths_of(v, [k]):
                    out.append((g, m["name"], pth))
    return out


def path_of(q):
    return list(q["path"]) if "path" in q else [q["key"]]


def gen_params(r, spec, nested_ok=True):
    """Observation parameters for the configuration `spec`: (params, omode) or None."""
    it = int_targets(spec)
    pt = path_targets(spec) if nested_ok else []
    nested = [t for t in pt if len(t[2]) > 1]
    if nested and r.random() < 0.6:
        # product mode: SequentialMode reads the current value with attrgetter, which cannot see inside a dict
        first = r.choice(nested)
        chosen = [first]
        if r.random() < 0.5:
            others = [t for t in pt if t != first and t[2][-1] != first[2][-1]
                      and not (t[1] == first[1] and (t[2][:len(first[2])] == first[2] or first[2][:len(t[2])] == t[2]))]
            if others:
                chosen.append(r.choice(others))
        r.shuffle(chosen)
        params = [dict(group=g, model=mn, path=pth, values=r.sample(range(100, 200), r.choice([1, 2])))
                  for (g, mn, pth) in chosen]
        return params, "product"
    if not it:
        return None
    params = [dict(group=g, model=mn, path=[k], values=r.sample(range(100, 200), r.choice([1, 2])))
              for (g, mn, k) in r.sample(it, min(len(it), r.choice([1, 2])))]
    return params, r.choice(["sequential", "sequential", "product"])


def gen_cases(ctx: Ctx, n_specs: int, salt="cases"):
    r = ctx.rng(salt)
    cases = []
    for i in range(n_specs):
        rich = i % 3 == 1
        spec = gen_spec(r, dense=(i % 11 == 0), containers=0.35 if rich else 0.0, grow=0.3 if rich else 0.0)
        steps = r.choice([1, 2, 2, 3, 3, 4])
        det = r.choice(DETS) if i % 2 else "ccd"
        combos = [("yaml", False), ("yaml", True), ("python", False), ("python", True)]
        if ctx.quick and i % 3:
            combos = r.sample(combos, 2)
        nd = r.random() < 0.3
        for variant, debug in combos:
            cases.append(dict(spec=spec, steps=steps, variant=variant, det=det, mode="exposure", debug=debug, nd=nd))
        if r.random() < 0.75:
            got = gen_params(r, spec)
            if got:
                params, omode = got
                # SequentialMode under dask is a known defect of C05 (parameters zipped): product mode only
                cases.append(dict(spec=spec, steps=r.choice([1, 2, 3]), variant=r.choice(["yaml", "python"]), det=det,
                                  mode="observation", debug=False, params=params, omode=omode, nd=nd,
                                  dask=(omode == "product" and r.random() < 0.5)))
    return cases


def pair_cases(full: bool):
    """All 45 pairs of groups x 4 enabled patterns; keys listed in reverse physical order; the detector type
    rotates over the four kinds."""
    cases = []
    n = 0
    for (i, a), (j, b) in itertools.combinations(enumerate(PHYSICAL), 2):
        for ea in (True, False):
            for eb in (True, False):
                spec = [[b, [dict(name=f"g{j}_m0", enabled=eb, explicit_enabled=True, arguments={"a": j}),
                             dict(name=f"g{j}_m1", enabled=True, explicit_enabled=False, arguments=None)]],
                        [a, [dict(name=f"g{i}_m0", enabled=ea, explicit_enabled=True, arguments={"a": i}),
                             dict(name=f"g{i}_m1", enabled=True, explicit_enabled=False, arguments={"b": [i, j]})]]]
                combos = [("yaml", False), ("yaml", True), ("python", False), ("python", True)]
                if not full:
                    combos = [combos[n % 4], combos[(n + 3) % 4]] if n % 2 else [combos[n % 4]]
                for variant, debug in combos:
                    cases.append(dict(spec=spec, steps=2, variant=variant, det=DETS[(n // 4 + n) % 4], mode="exposure",
                                      debug=debug, sweep="pairs"))
                n += 1
    return cases


def all_groups_spec():
    return [[g, [dict(name=f"g{i}_m0", enabled=True, explicit_enabled=True, arguments={"a": i}),
                 dict(name=f"g{i}_m1", enabled=False, explicit_enabled=True, arguments={"a": -i}),
                 dict(name=f"g{i}_m2", enabled=True, explicit_enabled=False, arguments={"b": [i, "s"]})]]
            for i, g in reversed(list(enumerate(PHYSICAL)))]


def fixed_cases():
    """Adversarial list aimed at the mutations the property text names."""
    cases = []
    allg = all_groups_spec()
    alldis = [[g, [dict(name=f"g{i}_m0", enabled=False, explicit_enabled=True, arguments=None)]]
              for i, g in enumerate(PHYSICAL)]
    dup = [["charge_generation", [dict(name="same", enabled=True, explicit_enabled=True, arguments={"a": 1}),
                                  dict(name="same", enabled=False, explicit_enabled=True, arguments={"a": 2}),
                                  dict(name="same", enabled=True, explicit_enabled=True, arguments={"a": 3})]],
           ["photon_collection", [dict(name="same", enabled=True, explicit_enabled=True, arguments={"a": 4})]]]
    empties = [["charge_transfer", []], ["signal_transfer", None],
               ["phasing", [dict(name="g2_m0", enabled=True, explicit_enabled=False, arguments=None)]]]
    for spec in (allg, alldis, dup, empties, []):
        for variant in ("yaml", "python"):
            for debug in (False, True):
                for steps in (1, 3):
                    cases.append(dict(spec=spec, steps=steps, variant=variant, det="ccd", mode="exposure", debug=debug))
    # every group populated on every detector type (CCD-only / CMOS-only / MKID-only groups included): the code
    # has no detector-dependent branch, every populated group runs on every detector
    for det in DETS:
        for variant in ("yaml", "python"):
            for debug in (False, True):
                cases.append(dict(spec=allg, steps=2, variant=variant, det=det, mode="exposure", debug=debug))
        cases.append(dict(spec=allg, steps=1, variant="yaml", det=det, mode="observation", debug=False, omode="sequential",
                          params=[dict(group="charge_transfer", model="g5_m0", path=["a"], values=[100, 101])]))
    cases.append(dict(spec=allg, steps=2, variant="yaml", det="ccd", mode="observation", debug=False, omode="sequential",
                      params=[dict(group="phasing", model="g2_m0", path=["a"], values=[100, 101]),
                              dict(group="data_processing", model="g9_m0", path=["a"], values=[102])]))
    cases.append(dict(spec=allg, steps=2, variant="python", det="cmos", mode="observation", debug=False, omode="product",
                      params=[dict(group="scene_generation", model="g0_m0", path=["a"], values=[100]),
                              dict(group="signal_transfer", model="g7_m0", path=["a"], values=[7, 8])]))
    # container-valued arguments, a growing model over several steps, keys addressing inside a dict / a list
    rich = [["photon_collection", [dict(name="light", enabled=True, explicit_enabled=True,
                                        arguments={"opt": {"level": 10, "kind": "flat", "lst": [1, {"n": 2}]}, "a": 3})]],
            ["charge_generation", [dict(name="frames", enabled=True, explicit_enabled=True, func=GROW,
                                        arguments={"b": ["a", "b"], "opt": {"lst": [], "n": 0}, "x_0": 5})]]]
    for variant in ("yaml", "python"):
        cases.append(dict(spec=rich, steps=3, variant=variant, det="ccd", mode="exposure", debug=variant == "yaml"))
        cases.append(dict(spec=rich, steps=2, variant=variant, det="apd", mode="observation", debug=False, omode="product",
                          params=[dict(group="photon_collection", model="light", path=["opt", "level"], values=[1, 2, 3])]))
        cases.append(dict(spec=rich, steps=2, variant=variant, det="mkid", mode="observation", debug=False, omode="product",
                          params=[dict(group="photon_collection", model="light", path=["opt", "lst", 1, "n"], values=[7]),
                                  dict(group="charge_generation", model="frames", path=["x_0"], values=[8, 9])]))
        cases.append(dict(spec=rich, steps=2, variant=variant, det="cmos", mode="observation", debug=False, omode="product",
                          dask=True,
                          params=[dict(group="photon_collection", model="light", path=["opt", "level"], values=[1, 2]),
                                  dict(group="charge_generation", model="frames", path=["x_0"], values=[8, 9])]))
    return cases


def malformed_cases(ctx: Ctx):
    r = ctx.rng("malformed")
    out = []
    for bad in ["photon_generation", "Phasing", "charge_transfer_", "optics", "readout", "models"]:
        spec = gen_spec(r)
        spec.insert(r.randrange(len(spec) + 1), [bad, r.choice([None, []])])
        out.append(dict(spec=spec, steps=1, variant=r.choice(["yaml", "python"]), det="ccd", mode="exposure", debug=False,
                        malformed=True))
    return out


WRITER = dict(name="writer", enabled=True, explicit_enabled=True, func="verif_probes.write",
              arguments={"bucket": "pixel", "value": 1.0})


def calibration_cases(ctx: Ctx, n: int):
    r = ctx.rng("calibration")
    out = []
    for k in range(n):
        spec = [s for s in gen_spec(r, grow=0.2 if k % 2 else 0.0, containers=0.3 if k % 2 else 0.0)
                if s[0] != "charge_collection"]
        # the fitted output must exist: one writer model fills `pixel` (it is not part of the compared trace)
        spec.append(["charge_collection", [dict(WRITER)]])
        r.shuffle(spec)
        # odd cases: a time-domain target (several readout steps per evaluation)
        out.append(dict(spec=spec, steps=(1 if k % 2 == 0 else r.choice([2, 3])), variant="yaml", det=DETS[k % 4],
                        mode="calibration", debug=False))
    return out


# ------------------------------------------------------------------------------------------ histories
# A history = object 0 (spec) + operations on pipeline objects (Model/PipelineHist.v).  The Python mirror below
# keeps the configurations as values; it is used to GENERATE valid operations and to shrink / classify a
# history that Coq has already judged.


def grow_args(a):
    for v in a.values():
        if isinstance(v, list):
            v.append(len(v))
        elif isinstance(v, dict):
            for x in v.values():
                if isinstance(x, list):
                    x.append(len(x))


def set_path(args, path, value):
    """Python mirror of upd_kw / set_in; returns False when the path does not exist."""
    obj = args
    for el in path[:-1]:
        if isinstance(obj, dict) and el in obj:
            obj = obj[el]
        elif isinstance(obj, list) and isinstance(el, int) and 0 <= el < len(obj):
            obj = obj[el]
        else:
            return False
    if isinstance(obj, dict) and path[-1] in obj:
        obj[path[-1]] = value
        return True
    return False


class Mirror:
    """store of configurations: each object = {group: [model dicts] | None} (absent groups missing or None)."""

    def __init__(self, spec, inplace=True):
        cfg = {}
        for k, ms in spec:
            cfg[k] = copy.deepcopy(ms) if ms else None       # an empty list is an absent group
        self.store = [cfg]
        self.inplace = inplace

    @staticmethod
    def spec_of(cfg):
        return [[g, copy.deepcopy(cfg[g])] for g in PHYSICAL if cfg.get(g) is not None]

    def valid(self, op) -> bool:
        if not (0 <= op["obj"] < len(self.store)):
            return False
        cfg = self.store[op["obj"]]
        kind = op["op"]
        if kind == "copy":
            return True
        if kind == "run":
            if op["mode"] != "observation":
                return True
            spec = self.spec_of(cfg)
            tg = [(g, m, list(p)) for g, m, p in path_targets(spec)]
            it = {(g, m, k) for g, m, k in int_targets(spec)}
            lasts = [path_of(q)[-1] for q in op["params"]]
            nested = any(len(path_of(q)) > 1 for q in op["params"])
            if nested and (len(set(map(str, lasts))) != len(lasts) or op.get("omode") != "product"):
                return False
            if op.get("dask") and op.get("omode") != "product":
                return False
            for q in op["params"]:
                pth = path_of(q)
                if (q["group"], q["model"], pth) not in tg:
                    return False
                if op.get("omode") != "product" and (q["group"], q["model"], pth[0]) not in it:
                    return False
            keys = [(q["group"], q["model"], tuple(map(str, path_of(q)))) for q in op["params"]]
            for a in keys:                                    # no parameter may address inside another one
                for b in keys:
                    if a is not b and a[:2] == b[:2] and a[2][:len(b[2])] == b[2]:
                        return False
            return True
        ms = cfg.get(op["group"])
        if ms is None:
            return False
        if kind == "enable":
            if not (0 <= op["index"] < len(ms)):
                return False
            if op.get("via") == "set":                        # addressed by name: must be the first of that name
                nm = ms[op["index"]]["name"]
                return [m["name"] for m in ms].index(nm) == op["index"]
            return True
        if kind == "setarg":
            for m in ms:
                if m["name"] == op["model"]:
                    a = copy.deepcopy(m.get("arguments") or {})
                    pth = path_of(op)
                    return (pth[0] in a) if len(pth) == 1 else set_path(a, pth, 0)
            return False
        if kind == "models":
            return len(set(op["sel"])) == len(op["sel"]) and all(0 <= j < len(ms) for j in op["sel"])
        if kind == "insert":
            return 0 <= op["index"] <= len(ms)
        return False

    def apply(self, op):
        cfg = self.store[op["obj"]]
        kind = op["op"]
        if kind == "run":
            if op["mode"] == "exposure" and self.inplace:
                for g in PHYSICAL:
                    for m in cfg.get(g) or []:
                        if m["enabled"] and m.get("func", RECORD) == GROW and m.get("arguments"):
                            for _ in range(op["steps"]):
                                grow_args(m["arguments"])
        elif kind == "enable":
            cfg[op["group"]][op["index"]]["enabled"] = bool(op["value"])
        elif kind == "setarg":
            for m in cfg[op["group"]]:
                if m["name"] == op["model"]:
                    pth = path_of(op)
                    if len(pth) == 1:
                        m["arguments"][pth[0]] = op["value"]
                    else:
                        set_path(m["arguments"], pth, op["value"])
                    break
        elif kind == "models":
            old = cfg[op["group"]]
            cfg[op["group"]] = [old[j] for j in op["sel"]]
        elif kind == "insert":
            old = cfg[op["group"]]
            cfg[op["group"]] = old[:op["index"]] + [copy.deepcopy(op["model"])] + old[op["index"]:]
        elif kind == "copy":
            self.store.append(copy.deepcopy(cfg))


def hist_valid(case) -> bool:
    if any(k not in PHYSICAL for k, _ in case["spec"]):
        return False
    mir = Mirror(case["spec"])
    nruns = 0
    for op in case["ops"]:
        if not mir.valid(op):
            return False
        nruns += op["op"] == "run"
        mir.apply(op)
    return nruns >= 1


def hist_run_cases(case, inplace=True):
    """One pseudo single-run case per run op: the configuration of the object AT THAT TIME."""
    mir = Mirror(case["spec"], inplace=inplace)
    out = []
    for op in case["ops"]:
        if op["op"] == "run":
            spec = Mirror.spec_of(mir.store[op["obj"]])
            if not inplace:
                for _, ms in spec:
                    for m in ms:
                        if m.get("func", RECORD) == GROW:
                            m["func"] = RECORD
            out.append(dict(spec=spec, steps=op["steps"], variant=case["variant"], det=case.get("det", "ccd"),
                            mode=op["mode"], debug=bool(op.get("debug")), params=op.get("params"),
                            omode=op.get("omode"), dask=bool(op.get("dask")), nd=bool(op.get("nd"))))
        mir.apply(op)
    return out


def gen_hist(r, quick=True, pickle_ok=False):
    containers = r.choice([0.0, 0.3, 0.5])
    spec = []
    while sum(1 for _, ms in spec if ms) < 1:
        spec = gen_spec(r, dense=r.random() < 0.15, containers=containers, grow=r.choice([0.0, 0.0, 0.3, 0.5]))
    case = dict(kind="hist", spec=spec, variant=r.choice(["yaml", "python"]), det=r.choice(DETS), ops=[])
    mir = Mirror(spec)
    fresh = itertools.count()

    def push(op):
        if mir.valid(op):
            case["ops"].append(op)
            mir.apply(op)
            return True
        return False

    def gen_run(obj):
        cfg_spec = Mirror.spec_of(mir.store[obj])
        k = r.random()
        if k < 0.35:
            got = gen_params(r, cfg_spec)
            if got:
                params, omode = got
                return dict(op="run", obj=obj, mode="observation", steps=r.choice([1, 1, 2]), debug=False,
                            params=params, omode=omode, dask=(omode == "product" and r.random() < 0.3))
        return dict(op="run", obj=obj, mode="exposure", steps=r.choice([1, 2, 2, 3]), debug=r.random() < 0.4,
                    nd=r.random() < 0.25)

    def gen_config_op(obj):
        cfg = mir.store[obj]
        groups = [g for g in PHYSICAL if cfg.get(g) is not None]
        k = r.random()
        if k < 0.12:
            hows = ["deep", "processor"] + (["pickle"] if pickle_ok else [])
            return dict(op="copy", obj=obj, how=r.choice(hows))
        if not groups:
            return None
        g = r.choice(groups)
        ms = cfg[g]
        if k < 0.50 and ms:
            i = r.randrange(len(ms))
            val = (not ms[i]["enabled"]) if r.random() < 0.85 else ms[i]["enabled"]
            return dict(op="enable", obj=obj, group=g, index=i, value=val, via=r.choice(["attr", "attr", "set"]))
        if k < 0.72:
            cands = []
            for m in ms:
                a = m.get("arguments") or {}
                for key, v in a.items():
                    cands.append((m["name"], [key]))
                    for pth in paths_of(v, [key]):
                        cands.append((m["name"], pth))
            if cands:
                nested = [c for c in cands if len(c[1]) > 1]
                mn, pth = r.choice(nested) if nested and r.random() < 0.6 else r.choice(cands)
                return dict(op="setarg", obj=obj, group=g, model=mn, path=pth, value=r.randrange(300, 400))
        if k < 0.87 and ms:
            sel = list(range(len(ms)))
            r.shuffle(sel)
            if len(sel) > 1 and r.random() < 0.4:
                sel = sel[:r.randrange(1, len(sel))]
            return dict(op="models", obj=obj, group=g, sel=sel)
        m = dict(name=f"ins{next(fresh)}", enabled=r.random() < 0.8, explicit_enabled=True,
                 arguments=gen_args(r, containers=containers))
        if r.random() < 0.2:
            m["func"] = GROW
        return dict(op="insert", obj=obj, group=g, index=r.randrange(len(ms) + 1), model=m)

    n_ops = r.choice([3, 4, 5, 6, 8] if quick else [3, 5, 7, 9, 12])
    if r.random() < 0.8:
        push(gen_run(0))
    tries = 0
    while len(case["ops"]) < n_ops and tries < 60:
        tries += 1
        obj = r.randrange(len(mir.store))
        if r.random() < 0.45:
            push(gen_run(obj))
        else:
            op = gen_config_op(obj)
            if op:
                push(op)
    # every object that was configured is finally run (the last word of a history is an observation of it)
    for obj in range(len(mir.store)):
        if r.random() < 0.8 or obj == 0:
            push(dict(op="run", obj=obj, mode="exposure", steps=r.choice([1, 2]), debug=r.random() < 0.3))
    return case


def _m(name, enabled=True, args=None, func=None):
    d = dict(name=name, enabled=enabled, explicit_enabled=True, arguments=args)
    if func:
        d["func"] = func
    return d


def _run(obj=0, steps=2, debug=False, mode="exposure", **kw):
    return dict(op="run", obj=obj, mode=mode, steps=steps, debug=debug, **kw)


def fixed_hist_cases(pickle_ok=False, thorough=False):
    """Histories aimed at: a changed switch / model list / argument must be honoured by the NEXT run of the same
    object; a run (observation above all) must leave the user's configuration as it was; copies are independent."""
    out = []
    base = [["charge_generation", [_m("gen_a", True, {"a": 1}), _m("gen_b", False, {"a": 2}), _m("gen_c", True, {"a": 3})]],
            ["photon_collection", [_m("phot_a", True, {"level": 4})]],
            ["readout_electronics", [_m("ro_a", False, {"a": 5}), _m("ro_b", True, None)]]]
    for variant in ("yaml", "python"):
        for debug in (False, True):
            for via in ("attr", "set"):
                out.append(dict(kind="hist", spec=base, variant=variant, det="ccd", ops=[
                    _run(steps=3, debug=debug),
                    dict(op="enable", obj=0, group="charge_generation", index=1, value=True, via=via),
                    dict(op="enable", obj=0, group="charge_generation", index=2, value=False, via=via),
                    dict(op="enable", obj=0, group="readout_electronics", index=0, value=True, via=via),
                    _run(steps=3, debug=debug),
                    dict(op="enable", obj=0, group="photon_collection", index=0, value=False, via=via),
                    _run(steps=1, debug=debug)]))
        out.append(dict(kind="hist", spec=base, variant=variant, det="cmos", ops=[
            _run(steps=2), dict(op="models", obj=0, group="charge_generation", sel=[2, 1, 0]), _run(steps=2),
            dict(op="models", obj=0, group="charge_generation", sel=[1]), _run(steps=2, debug=True),
            dict(op="insert", obj=0, group="charge_generation", index=0, model=_m("ins0", True, {"a": 9})), _run(steps=1),
            dict(op="setarg", obj=0, group="photon_collection", model="phot_a", path=["level"], value=77), _run(steps=1)]))
        out.append(dict(kind="hist", spec=base, variant=variant, det="mkid", ops=[
            _run(mode="observation", steps=2, omode="sequential",
                 params=[dict(group="photon_collection", model="phot_a", path=["level"], values=[100, 101])]),
            dict(op="enable", obj=0, group="charge_generation", index=0, value=False, via="attr"),
            _run(mode="observation", steps=1, omode="product",
                 params=[dict(group="photon_collection", model="phot_a", path=["level"], values=[102]),
                         dict(group="charge_generation", model="gen_c", path=["a"], values=[5, 6])]),
            _run(steps=2)]))
    rich = [["photon_collection", [_m("light", True, {"opt": {"level": 10, "kind": "flat", "lst": [1, {"n": 2}]}, "a": 3})]],
            ["charge_generation", [_m("frames", True, {"b": ["a", "b", "c"], "opt": {"lst": [], "n": 0}}, GROW)]],
            ["charge_transfer", [_m("cti", True, {"a": 0, "b": [1, 2]})]]]
    for variant in ("yaml", "python"):
        for det in (("ccd", "apd") if variant == "yaml" else ("cmos",)):
            # an observation addressing INSIDE a dict-valued argument, then the same pipeline in exposure mode
            out.append(dict(kind="hist", spec=rich, variant=variant, det=det, ops=[
                _run(mode="observation", steps=1, omode="product",
                     params=[dict(group="photon_collection", model="light", path=["opt", "level"], values=[1, 2, 3])]),
                _run(steps=1),
                _run(mode="observation", steps=2, omode="product",
                     params=[dict(group="photon_collection", model="light", path=["opt", "lst", 1, "n"], values=[7, 8])]),
                _run(steps=2), _run(steps=1)]))
        out.append(dict(kind="hist", spec=rich, variant=variant, det="ccd", ops=[
            _run(mode="observation", steps=2, omode="product", dask=True,
                 params=[dict(group="photon_collection", model="light", path=["opt", "level"], values=[1, 2, 3])]),
            _run(steps=2)]))
        # copies: what is done to a copy never shows in the source, and vice versa
        for how in ["deep", "processor"] + (["pickle"] if pickle_ok else []):
            out.append(dict(kind="hist", spec=rich, variant=variant, det="ccd", ops=[
                dict(op="copy", obj=0, how=how),
                dict(op="setarg", obj=1, group="photon_collection", model="light", path=["opt", "level"], value=55),
                dict(op="setarg", obj=1, group="charge_transfer", model="cti", path=["a"], value=56),
                dict(op="enable", obj=1, group="charge_transfer", index=0, value=False, via="attr"),
                _run(obj=0, steps=2), _run(obj=1, steps=2),
                dict(op="setarg", obj=0, group="photon_collection", model="light", path=["opt", "lst", 1, "n"], value=57),
                _run(obj=1, steps=1), _run(obj=0, steps=1)]))
    if thorough:
        cal = [s for s in rich if s[0] != "charge_transfer"] + [["charge_collection", [dict(WRITER)]]]
        for det in ("ccd", "cmos"):
            out.append(dict(kind="hist", spec=cal, variant="yaml", det=det, ops=[
                _run(mode="calibration", steps=1), _run(steps=2),
                dict(op="enable", obj=0, group="photon_collection", index=0, value=False, via="attr"),
                _run(mode="calibration", steps=2), _run(steps=1)]))
    return out


def enum_hist_cases(depth=3):
    """Exhaustive small scope (thorough tier): EVERY sequence of at most `depth` operations from a small alphabet
    over a 2-group / 3-model pipeline (one model grows its list argument), followed by a run of every object."""
    base = [["charge_generation", [_m("a", True, {"a": 1}), _m("b", False, {"b": [1]}, GROW)]],
            ["readout_electronics", [_m("c", True, {"opt": {"level": 1}})]]]

    def alphabet(mir):
        ops = [("R0", lambda: _run(obj=0, steps=2)), ("M0", lambda: dict(op="models", obj=0, group="charge_generation", sel=[1, 0])),
               ("C", lambda: dict(op="copy", obj=0, how=("deep", "pickle", "processor")[len(mir.store) % 3])),
               ("S0", lambda: dict(op="setarg", obj=0, group="readout_electronics", model="c", path=["opt", "level"], value=9))]
        for tag, g, i in (("Ta", "charge_generation", 0), ("Tb", "charge_generation", 1), ("Tc", "readout_electronics", 0)):
            ops.append((tag, lambda g=g, i=i: dict(op="enable", obj=0, group=g, index=i,
                                                   value=not mir.store[0][g][i]["enabled"], via="attr")))
        if len(mir.store) > 1:
            ops.append(("R1", lambda: _run(obj=1, steps=1)))
            ops.append(("T1", lambda: dict(op="enable", obj=1, group="charge_generation", index=1,
                                           value=not mir.store[1]["charge_generation"][1]["enabled"], via="attr")))
        return ops

    out = []

    def rec(prefix, mir, d):
        if prefix:
            ops = list(prefix) + [_run(obj=o, steps=1, debug=(o == 0 and len(prefix) % 2 == 0)) for o in range(len(mir.store))]
            out.append(dict(kind="hist", spec=base, variant=("yaml", "python")[len(out) % 2], det=DETS[len(out) % 4],
                            ops=ops, sweep="enum"))
        if d == 0:
            return
        for _, mk in alphabet(mir):
            op = mk()
            if not mir.valid(op):
                continue
            m2 = copy.deepcopy(mir)
            m2.apply(op)
            rec(prefix + [op], m2, d - 1)

    rec([], Mirror(base), depth)
    return out


# ------------------------------------------------------------------------------------------ Python mirror
# (shrinking and classification only)


def mirror_trace(spec, steps, overrides=()):
    d = {}
    for k, ms in spec:
        d[k] = copy.deepcopy(ms)
    for ov in overrides:
        for m in d.get(ov["group"]) or []:
            if m["name"] == ov["model"]:
                pth = path_of(ov)
                a = m.get("arguments")
                if a and pth[0] in a:
                    if len(pth) == 1:
                        a[pth[0]] = ov["value"]
                    else:
                        set_path(a, pth, ov["value"])
                break
    out = []
    for s in range(steps):
        for g in PHYSICAL:
            for m in d.get(g) or []:
                if m["enabled"] and m.get("func", RECORD) in PROBES:
                    a = m.get("arguments") or {}
                    out.append([s, m["name"], copy.deepcopy({k: a[k] for k in sorted(a)})])
                    if m.get("func") == GROW:
                        grow_args(a)
    return out


def runs_of(case):
    if case["mode"] != "observation":
        return [[]]
    if case.get("omode", "sequential") == "product":
        # ProductMode: itertools.product over the parameters (last one varies fastest), every key set in every run
        runs = []
        for combo in itertools.product(*[q["values"] for q in case["params"]]):
            runs.append([dict(group=q["group"], model=q["model"], path=path_of(q), value=v)
                         for q, v in zip(case["params"], combo)])
        return runs
    # SequentialMode: one run per value; the other keys are set to their current value (no change)
    runs = []
    for q in case["params"]:
        for v in q["values"]:
            runs.append([dict(group=q["group"], model=q["model"], path=path_of(q), value=v)])
    return runs


def mirror_expected(case):
    t = []
    for ovs in runs_of(case):
        t += mirror_trace(case["spec"], case["steps"], ovs)
    return t


def mirror_nodes(case):
    seen, out = set(), []
    d = dict((k, ms) for k, ms in case["spec"])
    for s in range(case["steps"]):
        for g in PHYSICAL:
            for m in d.get(g) or []:
                if m["enabled"] and (s, g, m["name"]) not in seen:
                    seen.add((s, g, m["name"]))
                    out.append([s, g, m["name"]])
    return out


def frozen(case):
    c = copy.deepcopy(case)
    for _, ms in c["spec"]:
        for m in ms or []:
            if m.get("func") == GROW:
                m["func"] = RECORD
    return c


def mirror_violates(case, obs, nodes_exact=True) -> bool:
    if case.get("kind") == "hist":
        return mirror_violates_hist(case, obs)
    if any(k not in PHYSICAL for k, _ in case["spec"]):
        return False
    if obs.get("error"):
        return True
    if "trace" not in obs:
        return True
    if not obs.get("det_ok", True):
        return True
    return all(_mirror_violates_1(c, obs, nodes_exact) for c in (case, frozen(case)))


def _mirror_violates_1(case, obs, nodes_exact):
    exp = mirror_trace(case["spec"], case["steps"]) if case["mode"] == "calibration" else mirror_expected(case)
    if case["mode"] == "calibration":
        t = obs["trace"]
        if not exp:
            return bool(t)
        return not (len(t) >= len(exp) and len(t) % len(exp) == 0
                    and all(t[i:i + len(exp)] == exp for i in range(0, len(t), len(exp))))
    if case["mode"] == "observation" and case.get("dask"):
        per = [mirror_trace(case["spec"], case["steps"], ovs) for ovs in runs_of(case)]
        t = obs["trace"]
        n = len(per[0]) if per else 0
        if n == 0:
            return bool(t)
        blocks = [t[i:i + n] for i in range(0, len(t), n)]
        return not (all(b in per for b in blocks) and all(e in blocks for e in per))
    if obs["trace"] != exp:
        return True
    if case["mode"] == "exposure" and case.get("debug"):
        want = mirror_nodes(case)
        if nodes_exact:
            return obs.get("nodes") != want
        return any(n not in (obs.get("nodes") or []) for n in want)
    return False


def mirror_violates_hist(case, obs) -> bool:
    runs = obs.get("runs")
    if runs is None:
        return True
    for inplace in (True, False):
        pcs = hist_run_cases(case, inplace=inplace)
        if len(pcs) != len(runs):
            return True
        bad = False
        first_debug = True
        for pc, o in zip(pcs, runs):
            if o.get("error") or "trace" not in o or not o.get("det_ok", True):
                bad = True
                break
            if _mirror_violates_1(pc, o, nodes_exact=first_debug):
                bad = True
                break
            if pc["mode"] == "exposure" and pc.get("debug") and o.get("nodes"):
                first_debug = False
        if not bad:
            return False
    return True


def first_bad_run(case, obs):
    """(index, pseudo case, observed run) of the first run of a history that breaks the specification."""
    runs = obs.get("runs") or []
    pcs = hist_run_cases(case, inplace=True)
    pcs_f = hist_run_cases(case, inplace=False)
    first_debug = True
    for k, (pc, o) in enumerate(zip(pcs, runs)):
        if o.get("error") or "trace" not in o or not o.get("det_ok", True):
            return k, pc, o
        if _mirror_violates_1(pc, o, first_debug) and (k >= len(pcs_f) or _mirror_violates_1(pcs_f[k], o, first_debug)):
            return k, pc, o
        if pc["mode"] == "exposure" and pc.get("debug") and o.get("nodes"):
            first_debug = False
    return None


def classify(case, obs):
    if case.get("kind") == "hist":
        if obs.get("error") and not obs.get("runs"):
            return "raises", dict(error=obs.get("error"), stage=obs.get("stage"), expected_calls="?")
        fb = first_bad_run(case, obs)
        if fb is None:
            return "history_unclassified", {}
        k, pc, o = fb
        clause, extra = classify(pc, o)
        before = sorted({op["op"] + (":" + op["mode"] if op["op"] == "run" else "")
                         for op in ops_before_run(case, k)})
        return clause, dict(extra, after=before)
    if obs.get("error") or "trace" not in obs:
        n_exp = len(mirror_trace(case["spec"], case["steps"]))
        return "raises", dict(error=obs.get("error"), expected_calls="0" if n_exp == 0 else ">0")
    if not obs.get("det_ok", True):
        return "detector_identity", {}
    exp = mirror_expected(case) if case["mode"] != "calibration" else None
    t = obs["trace"]
    if exp is None:
        return "calibration_subtrace", {}
    if case["mode"] == "observation" and case.get("dask"):
        return "dask_runs", {}
    key = lambda e: json.dumps(e, sort_keys=True)  # noqa: E731
    if t == exp:
        return "debug_capture", {}
    if sorted(map(key, t)) == sorted(map(key, exp)):
        # same calls, other order: which level is out of order?
        grp = {}
        for g, ms in case["spec"]:
            for m in ms or []:
                grp.setdefault(m["name"], set()).add(g)
        for a, b in zip(t, t[1:]):
            if a[0] > b[0]:
                return "order", dict(level="step")
        for a, b in zip(t, exp):
            if a != b:
                ga, gb = grp.get(a[1], set()), grp.get(b[1], set())
                return "order", dict(level="group" if ga != gb else "list")
        return "order", {}
    enabled_names = {(m["name"]) for _, ms in case["spec"] for m in ms or [] if m["enabled"]}
    disabled_names = {(m["name"]) for _, ms in case["spec"] for m in ms or [] if not m["enabled"]}
    tk, ek = [key(e[:2]) for e in t], [key(e[:2]) for e in exp]
    if sorted(tk) == sorted(ek):
        return "args", {}
    for e in t:
        if e[1] in disabled_names and e[1] not in enabled_names:
            return "disabled_executed", {}
    for k in set(tk):
        if tk.count(k) > ek.count(k):
            return "more_than_once", {}
    for k in set(ek):
        if tk.count(k) < ek.count(k):
            return "missing", {}
    return "unclassified", {}


def ops_before_run(case, k):
    """the operations of a history before its k-th run"""
    out, n = [], 0
    for op in case["ops"]:
        if op["op"] == "run":
            if n == k:
                return out
            n += 1
        out.append(op)
    return out


# ------------------------------------------------------------------------------------------ Coq emission


def cval(v, observed=False) -> str:
    if isinstance(v, bool):
        return f"VBool {core.cbool(v)}"
    if isinstance(v, int):
        return f"VInt {core.cz(v)}"
    if isinstance(v, str) and (not observed or all(32 <= ord(ch) < 127 for ch in v)):
        return f"VStr {core.cstr(v)}"
    if v is None:
        return "VNone"
    if isinstance(v, (list, tuple)):
        return "VList " + (core.clist(f"({cval(x, observed)})" for x in v) if v else "nil")
    if isinstance(v, dict) and all(isinstance(k, str) for k in v):
        return "VDict " + (core.clist(f"(VList [VStr {core.cstr(k)}; {cval(v[k], observed)}])" for k in sorted(v))
                           if v else "nil")
    if observed:
        # something the generator never configures (a float, a repr of an object): it can only differ from the
        # configured value; emitted as a marked value so that Coq reports the case instead of the harness failing
        txt = "".join(ch if 32 <= ord(ch) < 127 else "?" for ch in repr(v))[:80]
        return f"VList [VStr {core.cstr('<outside the modelled domain>')}; VStr {core.cstr(type(v).__name__ + ' ' + txt)}]"
    raise ValueError(f"value outside the modelled domain: {v!r}")


def ckwargs(d, observed=False) -> str:
    d = d or {}
    return core.clist(f"({core.cstr(str(k))}, {cval(d[k], observed)})" for k in sorted(d, key=str))


def cmodel(m) -> str:
    return (f"{{| name := {core.cstr(m['name'])}; enabled := {core.cbool(bool(m['enabled']))}; "
            f"grows := {core.cbool(m.get('func') == GROW)}; args := {ckwargs(m.get('arguments'))} |}}")


def cdoc(spec) -> str:
    items = []
    for k, ms in spec:
        if ms is None:
            v = "None"
        else:
            # the writer model of the calibration cases is not a probe: it is outside the compared trace
            ms = [m for m in ms if m.get("func", RECORD) in PROBES]
            v = "(Some " + core.clist(cmodel(m) for m in ms) + ")"
        items.append(f"({core.cstr(k)}, {v})")
    return core.clist(items)


def cpath(path) -> str:
    return core.clist((f"PIdx {core.cnat(e)}" if isinstance(e, int) else f"PKey {core.cstr(e)}") for e in path)


def coverride(o) -> str:
    pth = path_of(o)
    return (f"{{| o_group := {GROUP_CTOR[o['group']]}; o_model := {core.cstr(o['model'])}; "
            f"o_key := {core.cstr(pth[0])}; o_path := {cpath(pth[1:])}; o_value := {cval(o['value'])} |}}")


def cmode(case) -> str:
    if case["mode"] == "exposure":
        return f"(Exposure {core.cbool(bool(case.get('debug')))})"
    if case["mode"] == "calibration":
        return "Calibration"
    ctor = "ObservationDask" if case.get("dask") else "Observation"
    return f"({ctor} " + core.clist(core.clist(coverride(o) for o in ovs) for ovs in runs_of(case)) + ")"


GROUP_CTOR = dict(zip(PHYSICAL, ["SceneGeneration", "PhotonCollection", "Phasing", "ChargeGeneration",
                                 "ChargeCollection", "ChargeTransfer", "ChargeMeasurement", "SignalTransfer",
                                 "ReadoutElectronics", "DataProcessing"]))
DET_CTOR = dict(ccd="DetCCD", cmos="DetCMOS", mkid="DetMKID", apd="DetAPD")
COPY_CTOR = dict(deep="CDeep", processor="CProcessor", pickle="CPickle")


def coutcome(obs) -> str:
    if obs.get("error") or "trace" not in obs:
        return f"(Failed {core.cstr(str(obs.get('error') or 'Other'))})"
    tr = core.clist(f"({core.cnat(s)}, {core.cstr(n)}, {ckwargs(kw, observed=True)})" for s, n, kw in obs["trace"])
    if obs.get("nodes") is None:
        nodes = "None"
    else:
        nodes = "(Some " + core.clist(f"({core.cnat(s)}, {core.cstr(g)}, {core.cstr(n)})" for s, g, n in obs["nodes"]) + ")"
    return f"(Ran {tr} {nodes})"


def emit_case(case, obs) -> str:
    return (f"{{| k_doc := {cdoc(case['spec'])};\n     k_steps := {core.cnat(case['steps'])}; k_mode := {cmode(case)};\n"
            f"     k_observed := {coutcome(obs)} |}}")


def cop(op) -> str:
    o = core.cnat(op["obj"])
    k = op["op"]
    if k == "run":
        return f"ORun {o} {cmode(op)} {core.cnat(op['steps'])}"
    if k == "enable":
        return f"OSetEnabled {o} {GROUP_CTOR[op['group']]} {core.cnat(op['index'])} {core.cbool(bool(op['value']))}"
    if k == "setarg":
        return f"OSetArg {o} {coverride(op)}"
    if k == "models":
        return f"OSetModels {o} {GROUP_CTOR[op['group']]} {core.clist(core.cnat(j) for j in op['sel'])}"
    if k == "insert":
        return f"OInsert {o} {GROUP_CTOR[op['group']]} {core.cnat(op['index'])} {cmodel(op['model'])}"
    if k == "copy":
        return f"OCopy {o} {COPY_CTOR[op['how']]}"
    raise ValueError(k)


def emit_hist_case(case, obs) -> str:
    ops = core.clist(cop(op) for op in case["ops"])
    outs = core.clist(coutcome(o) for o in obs.get("runs", []))
    return (f"{{| h_det := {DET_CTOR[case.get('det', 'ccd')]}; h_doc := {cdoc(case['spec'])};\n     h_ops := {ops};\n"
            f"     h_observed := {outs} |}}")


HEADER = ("From Coq Require Import ZArith List String.\nFrom PyxelV Require Import Model.Pipeline Model.PipelineHist.\n"
          "From PyxelGen Require Import Gen_C01.\nImport ListNotations.\nOpen Scope list_scope.\n")


def emit_file(pairs) -> str:
    if pairs and pairs[0][0].get("kind") == "hist":
        body = ";\n  ".join(emit_hist_case(c, o) for c, o in pairs)
        return (HEADER + f"Definition cases : list hist_case := [\n  {body}\n].\n"
                "Eval vm_compute in hmismatches src_model_groups cases.\n"
                "Eval vm_compute in hviolations cases.\n")
    body = ";\n  ".join(emit_case(c, o) for c, o in pairs)
    return (HEADER + f"Definition cases : list c01_case := [\n  {body}\n].\n"
            "Eval vm_compute in mismatches src_model_groups cases.\n"
            "Eval vm_compute in violations cases.\n")


# ------------------------------------------------------------------------------------------ legs


def case_key(c):
    return json.dumps({k: c.get(k) for k in ("spec", "steps", "mode", "params", "omode", "dask", "nd", "det", "ops")},
                      sort_keys=True)


def nontrivial(c) -> bool:
    pop = [ms for _, ms in c["spec"] if ms]
    if c.get("kind") == "hist":
        kinds = {op["op"] for op in c["ops"]}
        return sum(op["op"] == "run" for op in c["ops"]) >= 2 and len(kinds) >= 2
    return len(pop) >= 2 or any(not m["enabled"] for ms in pop for m in ms)


def det_bad(c, o) -> bool:
    if c.get("kind") == "hist":
        return any("trace" in x and not x.get("det_ok", True) for x in o.get("runs", []))
    return "trace" in o and not o.get("det_ok", True)


def correspondence(ctx: Ctx, cases, tag="c", per=40):
    import time
    t0 = time.time()
    obs = core.run_driver(ctx, "c01", cases, workers=int(os.environ.get("VERIF_WORKERS", "8")))
    ctx.log(f"implementation ran {len(cases)} cases in {time.time() - t0:.1f}s")
    t0 = time.time()
    single, hist = [], []
    for c, o in zip(cases, obs):
        if "crash" in o or "driver_error" in o:
            ctx.broken.append(Broken("correspondence", "implementation driver failed", str(o)[:600], c))
            continue
        (hist if c.get("kind") == "hist" else single).append((c, o))
    files, chunks = {}, {}
    for prefix, pairs, size in ((tag, single, per), (tag + "h", hist, max(10, per // 2))):
        for k in range(0, len(pairs), size):
            name = f"{prefix}_{k // size:03d}"
            files[name] = emit_file(pairs[k:k + size])
            chunks[name] = pairs[k:k + size]
    res = core.coq_eval_many(ctx, files, timeout=600, par=int(os.environ.get("VERIF_WORKERS", "8")))
    ctx.log(f"Coq evaluated {len(files)} case files in {time.time() - t0:.1f}s")
    mism, viol = [], []
    for name in sorted(files):
        ok, evals, se = res[name]
        chunk = chunks[name]
        if not ok or len(evals) != 2:
            ctx.broken.append(Broken("correspondence", f"case file {name}.v did not evaluate", core.tail(se, 15)))
            continue
        mism += [chunk[i] for i in core.parse_int_list(evals[0])]
        viol += [chunk[i] for i in core.parse_int_list(evals[1])]
    pairs = single + hist
    # the identity of the detector handed to the models is outside the Coq model: judged here
    for c, o in pairs:
        if det_bad(c, o) and not any(c is v[0] for v in viol):
            viol.append((c, o))
    for c, o in pairs:
        ctx.count("evaluations")
        ctx.dist("detector", c.get("det", "ccd"))
        ctx.dist("variant", c["variant"])
        ctx.dist("populated_groups", sum(1 for _, ms in c["spec"] if ms))
        ctx.dist("models", min(sum(len(ms or []) for _, ms in c["spec"]), 20))
        grow = any(m.get("func") == GROW for _, ms in c["spec"] for m in ms or [])
        cont = any(isinstance(v, dict) for _, ms in c["spec"] for m in ms or [] for v in (m.get("arguments") or {}).values())
        ctx.dist("arguments", ("growing " if grow else "") + ("dict-valued" if cont else "flat"))
        if c.get("kind") == "hist":
            ctx.count("histories")
            runs = o.get("runs", [])
            ctx.count("history_runs", len(runs))
            ctx.count("model_calls_compared", sum(len(x.get("trace", [])) for x in runs))
            ctx.dist("history_ops", len(c["ops"]))
            for op in c["ops"]:
                ctx.dist("op", op["op"] + (":" + op["mode"] + ("/debug" if op.get("debug") else "")
                                           + ("/dask" if op.get("dask") else "") if op["op"] == "run"
                                           else ":" + op["how"] if op["op"] == "copy" else
                                           ":nested" if op["op"] == "setarg" and len(path_of(op)) > 1 else ""))
            ctx.dist("outcome", "ran" if all(not x.get("error") for x in runs) else "error")
        else:
            ctx.count("model_calls_compared", len(o.get("trace", [])))
            ctx.dist("mode", c["mode"] + ("/debug" if c.get("debug") else "") +
                     ("/" + c.get("omode", "sequential") + ("/dask" if c.get("dask") else "")
                      if c["mode"] == "observation" else ""))
            ctx.dist("steps", c["steps"])
            ctx.dist("outcome", o.get("error") or "ran")
    return mism, viol, pairs


def coq_violates(ctx: Ctx, case, obs) -> bool | None:
    ok, evals, se = core.coq_eval(ctx, "single", emit_file([(case, obs)]))
    if not ok or len(evals) != 2:
        return None
    return core.parse_int_list(evals[1]) != []


def shrink_candidates(cur):
    cands = []
    spec = cur["spec"]
    if cur.get("kind") == "hist":
        for i in range(len(cur["ops"])):
            c = copy.deepcopy(cur)
            del c["ops"][i]
            cands.append(c)
        for i, op in enumerate(cur["ops"]):
            if op["op"] == "run" and op["steps"] > 1:
                c = copy.deepcopy(cur)
                c["ops"][i]["steps"] -= 1
                cands.append(c)
            if op["op"] == "run" and op["mode"] == "observation":
                for j, q in enumerate(op["params"]):
                    if len(op["params"]) > 1:
                        c = copy.deepcopy(cur)
                        del c["ops"][i]["params"][j]
                        cands.append(c)
                    if len(q["values"]) > 1:
                        c = copy.deepcopy(cur)
                        c["ops"][i]["params"][j]["values"] = q["values"][:1]
                        cands.append(c)
    for i in range(len(spec)):
        c = copy.deepcopy(cur)
        del c["spec"][i]
        cands.append(c)
    if cur.get("kind") == "hist":
        # dropping a model keeps a history valid only if no operation addresses the group by position
        positional = {op["group"] for op in cur["ops"] if op["op"] in ("enable", "models", "insert")}
        for i, (k, ms) in enumerate(spec):
            if k in positional:
                continue
            for j in range(len(ms or [])):
                if len(ms) > 1:
                    c = copy.deepcopy(cur)
                    del c["spec"][i][1][j]
                    cands.append(c)
    if cur.get("kind") != "hist":
        for i, (k, ms) in enumerate(spec):
            for j in range(len(ms or [])):
                c = copy.deepcopy(cur)
                del c["spec"][i][1][j]
                cands.append(c)
        if cur["steps"] > 1:
            c = copy.deepcopy(cur)
            c["steps"] -= 1
            cands.append(c)
        for i, (k, ms) in enumerate(spec):
            for j, m in enumerate(ms or []):
                if m.get("arguments"):
                    c = copy.deepcopy(cur)
                    c["spec"][i][1][j]["arguments"] = None
                    cands.append(c)
        if cur["mode"] == "observation":
            for i, q in enumerate(cur["params"]):
                if len(cur["params"]) > 1:
                    c = copy.deepcopy(cur)
                    del c["params"][i]
                    cands.append(c)
                if len(q["values"]) > 1:
                    c = copy.deepcopy(cur)
                    c["params"][i]["values"] = q["values"][:1]
                    cands.append(c)
    good = []
    for c in cands:
        if c.get("kind") == "hist":
            if hist_valid(c):
                good.append(c)
        elif c["mode"] == "observation":
            mir = Mirror(c["spec"])
            if mir.valid(dict(op="run", obj=0, mode="observation", params=c["params"], omode=c.get("omode", "sequential"))):
                good.append(c)
        else:
            good.append(c)
    return good


def shrink(ctx: Ctx, case, obs):
    """Greedy one-element removals while the (Python mirror of the) specification is still violated;
    the result is confirmed inside Coq, else the original case is kept."""
    if not mirror_violates(case, obs):
        return case, obs
    target = classify(case, obs)[0]   # a smaller case must fail in the SAME way (no slipping into another defect)
    cur, cur_obs = copy.deepcopy(case), obs
    for _ in range(16):
        good = shrink_candidates(cur)
        if not good:
            break
        res = core.run_driver(ctx, "c01", good, workers=1)   # one process: the import costs more than the runs
        nxt = None
        for c, o in zip(good, res):
            if "crash" in o or "driver_error" in o:
                continue
            if mirror_violates(c, o) and classify(c, o)[0] == target:
                nxt = (c, o)
                break
        if nxt is None:
            break
        cur, cur_obs = nxt
    if cur is not case:
        v = coq_violates(ctx, cur, cur_obs) if not det_bad(cur, cur_obs) else True
        if not v:
            return case, obs
    return cur, cur_obs


def expected_of(case):
    if case.get("kind") == "hist":
        return dict(runs=[expected_of(pc) for pc in hist_run_cases(case)],
                    note="per run: the calls of the configuration its object has when the run starts")
    if case["mode"] == "calibration":
        return None
    exp = dict(trace=mirror_expected(case))
    if case["mode"] == "exposure" and case.get("debug"):
        exp["nodes"] = mirror_nodes(case)
    return exp


def to_violation(ctx: Ctx, case, obs) -> Violation:
    case, obs = shrink(ctx, case, obs)
    clause, extra = classify(case, obs)
    if case.get("kind") == "hist":
        fb = first_bad_run(case, obs)
        pc = fb[1] if fb else dict(mode="exposure", debug=False)
        sig = dict(clause=clause, mode=pc["mode"], debug=bool(pc.get("debug")), variant=case["variant"],
                   history=True, **extra)
        what = (f"history on {case.get('det', 'ccd')} ({case['variant']}): "
                + " ; ".join(describe_op(op) for op in case["ops"])
                + f" -> run #{fb[0] if fb else '?'}: {clause} {extra if extra else ''}")
    else:
        sig = dict(clause=clause, mode=case["mode"], debug=bool(case.get("debug")), variant=case["variant"], **extra)
        if case.get("det", "ccd") != "ccd":
            sig["det"] = case["det"]
        groups = [k for k, ms in case["spec"]]
        what = (f"{case['mode']} ({case['variant']}, {case.get('det', 'ccd')}, debug={bool(case.get('debug'))}, "
                f"{case['steps']} step(s)) over groups {groups}: {clause} {extra if extra else ''}")
    return Violation(clause=clause, case=case, observed=obs, expected=expected_of(case), what=what, sig=sig)


def describe_op(op) -> str:
    k = op["op"]
    if k == "run":
        extra = ""
        if op["mode"] == "observation":
            extra = " " + op.get("omode", "sequential") + " " + ",".join(
                f"{q['model']}.{'.'.join(map(str, path_of(q)))}={q['values']}" for q in op["params"])
        return f"run#{op['obj']} {op['mode']}{'/debug' if op.get('debug') else ''} x{op['steps']}{extra}"
    if k == "enable":
        return f"#{op['obj']}.{op['group']}[{op['index']}].enabled={op['value']}"
    if k == "setarg":
        return f"#{op['obj']}.{op['group']}.{op['model']}.{'.'.join(map(str, path_of(op)))}={op['value']}"
    if k == "models":
        return f"#{op['obj']}.{op['group']}.models=old{op['sel']}"
    if k == "insert":
        return f"#{op['obj']}.{op['group']}.insert({op['index']}, {op['model']['name']})"
    return f"copy#{op['obj']}({op['how']})"


def new_violations(ctx: Ctx):
    fs = core.load_findings(ctx.prop)
    return [v for v in ctx.violations if not any(core.finding_matches(e, v) for e in fs)]


def add_violations(ctx: Ctx, viol, cap=6):
    """One (shrunk) violation per distinct first classification; shrinking costs driver runs."""
    seen = {}

    def size(c):
        return (len(c.get("ops", [])), len(c["spec"]) + sum(len(ms or []) for _, ms in c["spec"]), c.get("steps", 0))

    for c, o in sorted(viol, key=lambda co: size(co[0])):      # start the shrinking from the smallest case
        clause, extra = classify(c, o)
        k = (clause, extra.get("error"), c.get("kind", "single"), c.get("mode"), bool(c.get("debug")), c["variant"])
        seen.setdefault(k, (c, o))
    # different ways of failing first (clause, error class), then their variants
    order, rest, kinds = [], [], set()
    for k in seen:
        (order if k[:2] not in kinds else rest).append(k)
        kinds.add(k[:2])
    for k in (order + rest)[:cap]:
        c, o = seen[k]
        ctx.violations.append(to_violation(ctx, c, o))
    ctx.cov["violating_cases"] = ctx.cov.get("violating_cases", 0) + len(viol)


def corpus_cases():
    """Minimised past failures (repaired defects, classes of seeded changes): run first."""
    out = []
    d = core.VERIF / "harness" / "corpus" / "C01"
    for f in sorted(d.glob("*.json")):
        data = json.loads(f.read_text())
        for c in (data if isinstance(data, list) else [data]):
            c = dict(c)
            c["corpus"] = f.stem
            out.append(c)
    return out


PICKLE_OK = True    # a pickled pipeline runs since the repair of C01-pickled-group-run (ModelGroup.__setstate__)


def hist_cases(ctx: Ctx, n: int, salt="hist"):
    r = ctx.rng(salt)
    return [gen_hist(r, quick=ctx.quick, pickle_ok=PICKLE_OK) for _ in range(n)]


def run(ctx: Ctx):
    from translator import c01 as tr

    ctx.trusted += TRUSTED
    ctx.assumptions += [
        "model functions are the recording probe and the growing probe (records, then appends to its list arguments in "
        "place), in any group, on CCD / CMOS / MKID / APD detectors; argument values are ints, strings, bools, None, "
        "nested lists and string-keyed dicts (no floats)",
        "YAML mappings have unique keys (NoDup hypothesis of C01_yaml_key_order_irrelevant)",
        "observation: without dask; sequential mode over integer-valued top-level arguments, product mode over any "
        "existing setting including keys inside dict / list valued arguments; targets are uniquely named enabled models",
        "histories: every operation names an existing object / group / position / path (an operation the code refuses "
        "is outside the modelled domain); group.models is only ever given a list without repeated objects",
        "calibration (thorough tier): the fitted parameter is a detector characteristic, so every evaluation must "
        "reproduce the configured arguments; how many evaluations happen is pygmo's choice",
    ]
    gen = {}
    try:
        gen["Gen_C01.v"] = tr.translate(ctx.repo)
    except core.TranslationError as ex:
        ctx.broken.append(Broken("translation", "pyxel/pipelines (MODEL_GROUPS, constructor wiring, iteration)", str(ex)))
        ctx.log("translation failed:", ex)
        gen["Gen_C01.v"] = tr.FALLBACK
    core.proof_leg(ctx, gen, PROP_FILE)

    cases = corpus_cases()
    ctx.cov["corpus_cases"] = len(cases)
    cases += fixed_cases() + fixed_hist_cases(pickle_ok=PICKLE_OK, thorough=not ctx.quick)
    cases += gen_cases(ctx, ctx.budget(90, 600))
    cases += hist_cases(ctx, ctx.budget(130, 900))
    cases += pair_cases(full=not ctx.quick)
    cases += malformed_cases(ctx)
    if not ctx.quick:
        cases += calibration_cases(ctx, 8)
        enum = enum_hist_cases(3)
        ctx.cov["exhaustive_histories"] = (f"{len(enum)} histories: every sequence of <= 3 operations from "
                                           "{run, reverse models, copy, set nested argument, flip each of 3 switches, "
                                           "run copy, flip on copy} on a 2-group / 3-model pipeline, then a run of every object")
        cases += enum
    mism, viol, pairs = correspondence(ctx, cases)

    keys = {case_key(c) for c, _ in pairs if nontrivial(c)}
    ctx.cov["distinct_nontrivial"] = len(keys)
    ctx.cov["rule"] = ("one case = (detector type, pipeline document, construction variant) + either one run (steps, mode, "
                       "parameters) or a history of operations; distinct = distinct (detector, document, steps, mode, "
                       "parameters, operations); non-trivial = a single run over at least two populated groups or with a "
                       "disabled model, or a history with at least two runs and a configuration operation between / before them")
    ctx.cov["traces_validated_against_impl"] = len(pairs)
    ctx.cov["disagreements_checked"] = len(mism)
    ctx.cov["pair_sweep"] = ("all 45 group pairs x 4 enabled patterns, detector type rotating"
                             + ("" if ctx.quick else " x yaml/python x debug on/off"))
    singles = [(c, o) for c, o in pairs if c.get("kind") != "hist"]
    hists = [(c, o) for c, o in pairs if c.get("kind") == "hist"]
    for c, o in singles[:2] + singles[-8:-7]:
        ctx.sample(dict(case={k: c.get(k) for k in ("steps", "variant", "det", "mode", "debug")},
                        groups_in_document_order=[k for k, _ in c["spec"]],
                        trace_head=o.get("trace", [])[:4], n_calls=len(o.get("trace", [])), error=o.get("error")))
    for c, o in hists[:1] + hists[-3:-1]:
        ctx.sample(dict(history=[describe_op(op) for op in c["ops"]], det=c.get("det"), variant=c["variant"],
                        calls_per_run=[len(x.get("trace", [])) for x in o.get("runs", [])]))
    add_violations(ctx, viol)
    (ctx.build / "mismatches.json").write_text(json.dumps([dict(case=c, observed=o) for c, o in mism][:50], indent=1))
    for c, o in mism[:20]:
        ctx.broken.append(Broken("correspondence", "Model/Pipeline.v vs implementation",
                                 f"model and implementation differ ({c.get('kind', c.get('mode'))}, {c['variant']}, "
                                 f"{c.get('det', 'ccd')}, debug={c.get('debug')})",
                                 dict(case=c, observed=o)))
    if ctx.broken and not new_violations(ctx):
        search(ctx)


def search(ctx: Ctx):
    """A proof obligation or the correspondence broke: look harder for a concrete failing input."""
    ctx.log("searching for a concrete failing input (full pair sweep, dense pipelines, histories, bigger budget)")
    cases = pair_cases(full=True) + gen_cases(ctx, 200, salt="search") + hist_cases(ctx, 300, salt="search-hist")
    r = ctx.rng("search-dense")
    for _ in range(40):
        spec = gen_spec(r, dense=True)
        det = r.choice(DETS)
        for variant in ("yaml", "python"):
            for debug in (False, True):
                cases.append(dict(spec=spec, steps=r.choice([2, 3, 4]), variant=variant, det=det, mode="exposure",
                                  debug=debug))
    mism, viol, pairs = correspondence(ctx, cases, tag="s")
    add_violations(ctx, viol)
    ctx.cov["search_cases"] = len(pairs)


def replay(ctx: Ctx, rp: dict) -> int:
    case = rp.get("case")
    if rp.get("kind") != "input" or not case or "spec" not in case:
        print(f"replay names a {rp.get('kind')} that no longer checks: {rp.get('no_longer_checks')}")
        print(rp.get("detail", ""))
        return 1
    obs = core.run_driver(ctx, "c01", [case], workers=1)[0]
    print("case:", json.dumps(case))
    print("implementation now returns:", json.dumps(obs))
    if "crash" in obs or "driver_error" in obs:
        print("the implementation driver failed")
        return 1
    from translator import c01 as tr
    gen = ctx.build / "gen"
    gen.mkdir(parents=True, exist_ok=True)
    try:
        text = tr.translate(ctx.repo)
    except core.TranslationError:
        text = tr.FALLBACK
    (gen / "Gen_C01.v").write_text(text)
    core.ensure_lib(ctx, targets=core.lib_targets_of([emit_file([])]))
    core.coqc(ctx, gen / "Gen_C01.v", [(gen, "PyxelGen")])
    v = coq_violates(ctx, case, obs)
    bad = bool(v) or v is None or det_bad(case, obs)
    exp = expected_of(case)
    if exp is not None:
        print("specification expects:", json.dumps(exp))
    print("specification (evaluated in Coq):", "VIOLATED" if bad else "holds")
    return 1 if bad else 0


META = dict(
    level_text=(
        "Coq theorems, for all pipelines / step counts / debug flags / YAML key orders, over an executable model of "
        "DetectionPipeline construction (empty list = absent), Processor.run_pipeline, ModelGroup.run and the YAML "
        "loader: the trace is strictly sorted by (step, rank in the physical order written from the property text, "
        "position in the user's list); every enabled position executes exactly once per step and disabled models / "
        "absent groups never (position-based, so duplicate names are covered); every call carries exactly the configured "
        "arguments (for a model that changes its container arguments in place: including its own earlier changes, and the "
        "state-passing execution of the object is proved equal to that closed form, C01_execution_is_trace); permuting the "
        "YAML keys gives the same pipeline; YAML = Python construction; debug capture does not change the trace and every "
        "exposure completes with debug on or off (C01_debug_runs, full statement since the repair of C01-debug-empty-run). "
        "Configuration histories (Model/PipelineHist.v: runs in exposure / observation / calibration mode, switches, "
        "Processor.set on arguments incl. keys inside dict / list values, reordering / dropping / inserting models, deep "
        "copies and pickle round trips of pipeline objects), by induction over the operation list: every run is a run of "
        "the configuration its object has AT THAT TIME (C01_history_run, C01_history_each_run), an operation that does "
        "not write an object leaves it unchanged (frame), a changed switch is honoured by the next run, copies are "
        "isolated from their source, observation / calibration never change the user's object. The physical literal is "
        "proved equal to MODEL_GROUPS regenerated from the source on every run, together with the constructor wiring, "
        "what run_pipeline iterates and that it skips a group only when absent (no detector-dependent branch), what "
        "ModelGroup.run loops over, and the source side of the two repairs. That the Python code behaves as the model "
        "is established by correspondence (testing): generated pipelines on all four detector types, built from "
        "shuffled-key YAML through pyxel.load and from Python objects, run in exposure (debug on/off), observation "
        "(sequential, product, product under dask) and (thorough) calibration incl. time-domain targets, and generated "
        "histories of operations on live pipeline objects; the recorded calls are judged inside Coq against model and "
        "specification; plus the sweep of all 45 group pairs x 4 enabled patterns and (thorough) every history of <= 3 "
        "operations over a small alphabet."),
    level_note=(
        "Trusted: Coq kernel + vm_compute; translator/c01.py; the correspondence harness and the two probes. "
        "All theorems are closed under the global context (no axioms). Not carried by the theorems: that "
        "func(detector, **arguments) receives *the* processor's detector (checked by identity on the implementation "
        "side only), PyYAML, Python keyword binding, xarray DataTree child order, that deepcopy / pickle produce "
        "independent equal values (value semantics of pipeline objects is the specification; the implementation is "
        "compared against it by the history cases), which runs an observation's parameter mode requests (C05), "
        "pygmo's choice of evaluations (only per-evaluation sub-traces are compared), dask's task order / repetition "
        "(every block must be one requested run and every requested run must occur), dask with a threaded or "
        "distributed scheduler."),
    technique="Coq proof (induction over groups/steps and over operation lists, StronglySorted, Permutation, frame lemmas) + "
              "regenerated group-order/wiring/iteration tables + in-Coq correspondence/spec evaluation of recorded traces "
              "and histories",
    design_ref="DESIGN.md section 6, C01",
)
