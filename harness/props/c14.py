"""C14 — charge is accounted identically as arrays and as positioned clusters."""
from __future__ import annotations

import json
import math
import time

from .. import core
from ..core import Broken, Ctx, TranslationError, Violation

PROP_FILE = "Properties/C14.v"

TRUSTED = [
    "translator/c14.py (python-ast -> Gen_C14.v, fail closed): the two subscript expressions of the njit loop of "
    "convert_df_to_array, the mask applied before it, `+=` on the column `number`, the selection threshold of "
    "convert_array_to_df, the pixel-centre polynomials and layouts of geometry.get_*_pixel_center_pos",
    "correspondence harness: harness/props/c14.py generators, harness/drivers/c14.py (real detector.charge of a CCD; "
    "observables: every `.array` / `.to_xarray()` read, the (index, number, position_ver, position_hor) columns of "
    "`.frame` after every op, ValueError of add_charge_array); exact float -> Qmake literals",
    "out-of-bounds writes are OBSERVED through numba's own bounds check (NUMBA_BOUNDSCHECK=1) or plain numpy "
    "indexing (NUMBA_DISABLE_JIT=1): an IndexError there means the default build writes outside the buffer; "
    "a sample of cases also runs in numba's default configuration in isolated child processes",
    "modelled, not verified: numpy float64 arithmetic on the generated (exactly representable) charge values equals "
    "rational arithmetic; np.floor_divide = floor of the exact quotient of the two binary64 values; boolean-mask "
    "indexing of numpy arrays; pandas concat/query index semantics; numba wraparound indexing (index in [-n,-1] -> "
    "n+index, otherwise out of bounds)",
]

SIZES = [0.25, 0.5, 1.0, 2.0, 4.0, 8.0, 16.0, 10.0, 3.0, 1.5]
# pixel sizes whose multiples are NOT exact in binary64 (stream "inexact"): a border computed as k*s is rounded, and
# the pixel centres the implementation computes differ from the exact ones by an ulp or two
INEXACT_SIZES = [0.1, 0.3, 0.7, 1.1, 18.0, 0.0025, 1.0 / 3.0, 10.0 / 3.0, 15.0, 7.5, 0.9, 2.2, 12.3, 999.9, 0.015]


# ------------------------------------------------------------------------------------------ generators


def below(x: float) -> float:
    return math.nextafter(x, -math.inf)


def gen_pos(r, n: int, s: float, cls: str) -> float:
    """A coordinate along one axis with n pixels of size s."""
    k = r.randrange(n)
    if cls == "centre":
        return (k + 0.5) * s
    if cls == "border":
        return k * s
    if cls == "below_border":
        return below((k + 1) * s)
    if cls == "interior":
        return (k + r.choice([1, 2, 3, 5, 6, 7]) / 8.0) * s
    if cls == "fborder":  # a border as binary64 computes it (k*s rounded) and its two neighbours; k = n is outside
        b = r.randrange(n + 1) * s
        return r.choice([b, math.nextafter(b, math.inf), below(b)])
    if cls == "neg":  # index in [-n, -1]: wrapped to the opposite edge before the repair of C14-F4a
        return r.choice([-s / 2, -s, -(2.0 ** -20), -n * s, -(k + 0.25) * s, below(0.0) if False else -s / 4])
    if cls == "beyond1":  # exactly one pixel past the end (index n)
        return r.choice([n * s, (n + 0.5) * s, below((n + 1) * s)])
    if cls == "beyond_neg":  # index < -n
        return r.choice([below(-n * s), -(n + 0.5) * s, -(n + 3) * s])
    if cls == "far":
        return r.choice([(n + 1) * s, (n + 7.5) * s, (3 * n + 2) * s])
    raise ValueError(cls)


INSIDE = ["centre", "border", "below_border", "interior"]


def gen_cluster(r, g, flavour):
    """flavour: inside | neg | beyond1 | beyond | float (around binary64 borders; may fall outside)"""
    # 2^24 + 1 needs more than binary32's 24 bits: an accumulation in a narrower type than float64 shows
    n = r.choice([1, 1, 2, 3, 5, 0.25, 0.5, 7, 100, 0, 1, 2, 3, 5, 16777217]) * 1.0
    cv, ch = r.choice(INSIDE), r.choice(INSIDE)
    if flavour == "float":
        cv = r.choice(["fborder", "fborder", "centre", "interior", "neg"])
        ch = r.choice(["fborder", "fborder", "centre", "interior"])
        return [n, gen_pos(r, g["rows"], g["ph"], cv), gen_pos(r, g["cols"], g["pw"], ch)]
    if flavour != "inside":
        axis = r.choice(["v", "h", "both"])
        if flavour == "neg":
            out = "neg"
        elif flavour == "beyond1":
            out = "beyond1"
        else:
            out = r.choice(["beyond1", "beyond_neg", "far"])
        if axis in ("v", "both"):
            cv = out
        if axis in ("h", "both"):
            ch = out
    return [n, gen_pos(r, g["rows"], g["ph"], cv), gen_pos(r, g["cols"], g["pw"], ch)]


def gen_array(r, g, kind="ok"):
    rows, cols = g["rows"], g["cols"]
    if kind == "shape":
        rows, cols = r.choice([(cols, rows) if rows != cols else (rows + 1, cols), (rows + 1, cols), (rows, cols + 1),
                               (max(1, rows - 1), cols) if rows > 1 else (rows, cols + 2)])
    dens = r.choice([0.15, 0.3, 0.6, 1.0])
    cap = 8
    a = [[0.0] * cols for _ in range(rows)]
    cells = [(i, j) for i in range(rows) for j in range(cols)]
    r.shuffle(cells)
    k = 0
    for (i, j) in cells:
        if r.random() < dens and k < cap:
            a[i][j] = r.choice([1, 2, 3, 0.5, 0.25, 10, 64]) * 1.0
            k += 1
    if kind == "neg":
        i, j = cells[0]
        a[i][j] = -r.choice([1.0, 2.5, 0.5])
    return a


def gen_case(r, stream: str):
    """stream: clean (no removals, all inside) | removal | outside | malformed | unsafe1 (beyond by one only) |
    inexact (pixel sizes like 0.1: positions around the borders binary64 computes, removals, outside clusters)"""
    sizes = INEXACT_SIZES if stream == "inexact" else SIZES
    g = dict(rows=r.randrange(1, 7), cols=r.randrange(1, 7), ph=r.choice(sizes), pw=r.choice(sizes))
    g["reset_via"] = r.choice(["charge", "charge", "detector"])
    nops = r.randrange(1, 11)
    ops = []
    if stream == "clean":
        w = dict(arr=30, cl=30, read=22, frame=4, reset=8)
    elif stream == "removal":
        w = dict(arr=24, cl=26, read=20, frame=2, reset=6, rmall=10, rm=14)
    elif stream in ("outside", "unsafe1"):
        w = dict(arr=24, cl=36, read=24, frame=2, reset=6, rmall=3, rm=3)
    elif stream == "inexact":
        w = dict(arr=22, cl=36, read=24, frame=2, reset=5, rmall=4, rm=7)
    else:
        w = dict(arr=30, cl=24, read=22, frame=2, reset=6, rmall=6, rm=8)
    names, weights = list(w), list(w.values())
    # a small simulation of the container (labels of the live clusters, charge held as array), only to aim the
    # generator: removals that hit existing labels, partial removals right after a read, ...
    labels: list[int] = []
    held = [[0.0] * g["cols"] for _ in range(g["rows"])]
    just_read = False
    out_used = False

    def positives(m):
        return sum(1 for row in m for x in row if x > 0)

    for t in range(nops):
        k = r.choices(names, weights)[0]
        if "rm" in w and just_read and len(labels) >= 2 and r.random() < 0.4:
            k = "rm"                                  # read; partial removal: the cached array must follow
        just_read = False
        if k == "arr":
            kind = "ok"
            if stream == "malformed":
                kind = r.choice(["ok", "shape", "neg", "neg"])
            a = gen_array(r, g, kind)
            dt = r.choice(["f8", "f8", "f8", "f4", "f2"])
            if dt == "f8" and r.random() < 0.15:      # one entry that binary32 cannot hold (only where the input is float64)
                i, j = r.randrange(len(a)), r.randrange(len(a[0]))
                a[i][j] = 16777217.0 if a[i][j] >= 0 else a[i][j]
            ops.append(dict(op="arr", a=a, dt=dt))
            if len(a) == g["rows"] and all(len(row) == g["cols"] for row in a):
                if labels:
                    labels = list(range(len(labels) + positives(a)))
                else:
                    held = [[x + y for x, y in zip(ra, rb)] for ra, rb in zip(held, a)]
        elif k == "cl":
            m = r.choice([0, 1, 1, 2, 3, 4]) if t else r.choice([1, 2, 3])
            cs = []
            for _ in range(m):
                fl = "inside"
                if stream == "outside" and (not out_used or r.random() < 0.3):
                    fl = r.choice(["neg", "neg", "beyond1", "beyond"])
                    out_used = True
                elif stream == "unsafe1" and not out_used:
                    fl = "beyond1"
                    out_used = True
                elif stream == "inexact":
                    fl = "float"
                cs.append(gen_cluster(r, g, fl))
            ops.append(dict(op="cl", cs=cs))
            if labels:
                labels = list(range(len(labels) + m))
            else:
                n0 = positives(held) if any(x != 0 for row in held for x in row) else 0
                labels = list(range(n0 + m))
        elif k == "rm":
            u = r.random()
            if labels and u < 0.65:                   # some of the live labels (partial when possible)
                ids = sorted(r.sample(labels, r.randrange(1, max(2, min(len(labels), 4)))))
            elif labels and u < 0.75:                 # all of them, by label
                ids = list(labels)
            else:
                hi = max(2, min(len(labels) + 3, 12))
                ids = sorted(set(r.randrange(0, hi) for _ in range(r.choice([1, 1, 2, 3, hi]))))
            if r.random() < 0.08:
                ids = []
            ops.append(dict(op="rm", ids=ids))
            had = bool(labels)
            labels = [x for x in labels if x not in ids] if ids else []
            if had and not labels:
                held = [[0.0] * g["cols"] for _ in range(g["rows"])]
        elif k == "rmall":
            ops.append(dict(op="rmall"))
            if labels:
                held = [[0.0] * g["cols"] for _ in range(g["rows"])]
            labels = []
        elif k == "reset":
            ops.append(dict(op="reset"))
            labels = []
            held = [[0.0] * g["cols"] for _ in range(g["rows"])]
        elif k == "read":
            # the three ways the container reports its array: .array, .to_xarray(), numpy's array protocol
            ops.append(dict(op=r.choice(["read", "read", "read", "xr", "np"])))
            just_read = bool(labels)
        else:
            ops.append(dict(op=k))
    ops.append(dict(op="read"))
    return dict(g, ops=ops, stream=stream)


ENUM_ALPHABET = [
    dict(op="arr", a=[[1.0, 0.0]]),
    dict(op="cl", cs=[[4.0, 0.5, 0.5]]),      # pixel 0
    dict(op="cl", cs=[[8.0, 0.5, 1.0]]),      # on the border: pixel 1
    dict(op="cl", cs=[[16.0, 0.5, 2.0]]),     # on the far edge: outside
    dict(op="read"), dict(op="xr"), dict(op="np"), dict(op="rmall"), dict(op="rm", ids=[0]), dict(op="rm", ids=[1]),
    dict(op="reset"),
]


def enum_cases(max_len: int):
    """EVERY op sequence of length 1..max_len over ENUM_ALPHABET on a 1x2 detector (+ a final read): exhaustive
    small-scope coverage of the state machine (which representation holds the charge, cached array, labels).
    The charge values are distinct powers of two, so every mis-accounting shows in the sum."""
    import itertools

    out = []
    for n in range(1, max_len + 1):
        for seq in itertools.product(range(len(ENUM_ALPHABET)), repeat=n):
            ops = [dict(ENUM_ALPHABET[i]) for i in seq] + [dict(op="read")]
            out.append(dict(rows=1, cols=2, ph=1.0, pw=1.0, reset_via="charge", ops=ops, stream="enum"))
    return out


CORPUS = [
    # F4 negative position -> opposite edge
    dict(rows=2, cols=3, ph=2.0, pw=4.0, stream="outside",
         ops=[dict(op="cl", cs=[[5.0, -1.0, 1.0]]), dict(op="read")]),
    # F4 beyond range -> out-of-bounds write
    dict(rows=2, cols=3, ph=2.0, pw=4.0, stream="unsafe1",
         ops=[dict(op="cl", cs=[[5.0, 4.0, 0.0]]), dict(op="read")]),
    dict(rows=2, cols=3, ph=2.0, pw=4.0, stream="unsafe1",
         ops=[dict(op="cl", cs=[[5.0, 1.0, 12.0]]), dict(op="read")]),
    # F5 Read; RemoveAll; AddArray
    dict(rows=2, cols=2, ph=1.0, pw=1.0, stream="removal",
         ops=[dict(op="cl", cs=[[5.0, 0.5, 0.5]]), dict(op="read"), dict(op="rmall"),
              dict(op="arr", a=[[1.0, 0.0], [0.0, 0.0]]), dict(op="read")]),
    dict(rows=2, cols=2, ph=1.0, pw=1.0, stream="removal",
         ops=[dict(op="arr", a=[[1.0, 0.0], [0.0, 2.0]]), dict(op="cl", cs=[[5.0, 0.5, 0.5]]), dict(op="rmall"),
              dict(op="read")]),
    # F6 numpy's array protocol ignored the clusters
    dict(rows=1, cols=2, ph=1.0, pw=1.0, stream="clean",
         ops=[dict(op="cl", cs=[[4.0, 0.5, 0.5]]), dict(op="np")]),
    dict(rows=1, cols=2, ph=1.0, pw=1.0, stream="clean",
         ops=[dict(op="arr", a=[[1.0, 0.0]]), dict(op="cl", cs=[[4.0, 0.5, 1.5]]), dict(op="read"),
              dict(op="cl", cs=[[8.0, 0.5, 1.0]]), dict(op="np"), dict(op="xr")]),
    # mixed representations, borders
    dict(rows=3, cols=2, ph=2.0, pw=0.5, stream="clean",
         ops=[dict(op="arr", a=[[1.0, 0.0], [0.0, 2.0], [0.0, 0.0]]), dict(op="read"),
              dict(op="cl", cs=[[5.0, 2.0, 0.5], [3.0, 5.999999999999999, 0.0]]), dict(op="read"),
              dict(op="arr", a=[[0.0, 0.0], [1.0, 2.0], [0.0, 4.0]]), dict(op="read"), dict(op="reset"),
              dict(op="read"), dict(op="arr", a=[[0.0, 0.0], [1.0, 2.0], [0.0, 4.0]]), dict(op="read")]),
]


def load_corpus():
    d = core.VERIF / "harness" / "corpus" / "C14"
    out = [dict(c) for c in CORPUS]
    if d.exists():
        for f in sorted(d.glob("*.json")):
            try:
                out.append(json.loads(f.read_text()))
            except ValueError:
                pass
    return out


# ------------------------------------------------------------------------------------------ analysis (python side)


def fdiv(p: float, s: float) -> int:
    from fractions import Fraction
    return math.floor(Fraction(p) / Fraction(s))


def cluster_class(g, c) -> str:
    """inside | neg (wraps) | beyond (out of bounds)"""
    worst = "inside"
    for p, s, n in ((c[1], g["ph"], g["rows"]), (c[2], g["pw"], g["cols"])):
        k = fdiv(p, s)
        if k >= n or k < -n:
            return "beyond"
        if k < 0:
            worst = "neg"
    return worst


def case_features(c):
    f = dict(removal=False, neg=False, beyond=False, mixed=False, negarr=False, shape=False)
    seen_arr = seen_cl = False
    for o in c["ops"]:
        if o["op"] in ("rm", "rmall"):
            f["removal"] = True
        elif o["op"] == "cl":
            seen_cl = seen_cl or bool(o["cs"])
            for cl in o["cs"]:
                k = cluster_class(c, cl)
                if k == "neg":
                    f["neg"] = True
                if k == "beyond":
                    f["beyond"] = True
        elif o["op"] == "arr":
            a = o["a"]
            if len(a) != c["rows"] or any(len(row) != c["cols"] for row in a):
                f["shape"] = True
            else:
                seen_arr = seen_arr or any(x != 0 for row in a for x in row)
            if any(x < 0 for row in a for x in row):
                f["negarr"] = True
    f["mixed"] = seen_arr and seen_cl
    return f


def far_beyond(c) -> bool:
    """Does some cluster index lie more than one pixel past either end?"""
    for o in c["ops"]:
        if o["op"] == "cl":
            for cl in o["cs"]:
                for p, s, n in ((cl[1], c["ph"], c["rows"]), (cl[2], c["pw"], c["cols"])):
                    k = fdiv(p, s)
                    if k > n or k < -n - 1:
                        return True
    return False


def classify(c, res, k_bad: int):
    """Input class of the failing prefix ops[:k_bad] (since its last reset)."""
    ops = c["ops"][:k_bad]
    start = 0
    for i, o in enumerate(ops):
        if o["op"] == "reset":
            start = i + 1
    live = ops[start:]
    tr = res.get("trace", [])
    classes = set()
    for i, o in enumerate(live):
        if o["op"] == "cl":
            for cl in o["cs"]:
                k = cluster_class(c, cl)
                if k == "beyond":
                    classes.add("beyond_range")
                elif k == "neg":
                    classes.add("negative_wrap")
        if o["op"] in ("rm", "rmall"):
            j = start + i
            before = tr[j - 1]["f"] if 0 < j <= len(tr) else []
            after = tr[j]["f"] if j < len(tr) else []
            if before and not after:
                classes.add("stale_array_after_removal")
    for name in ("beyond_range", "negative_wrap", "stale_array_after_removal"):
        if name in classes:
            return name
    if ops and ops[-1]["op"] == "np":
        return "array_protocol"
    if ops and ops[-1]["op"] == "xr":
        return "to_xarray"
    return "accounting"


# ------------------------------------------------------------------------------------------ Coq emission


def q(x: float) -> str:
    return core.cq_of_float(x)


def cmat(a) -> str:
    return core.clist(core.clist(q(x) for x in row) for row in a)


def ccl(c) -> str:
    return f"(C {q(c[0])} {q(c[1])} {q(c[2])})"


def cop(o) -> str:
    k = o["op"]
    if k == "arr":
        return f"AddArray {cmat(o['a'])}"
    if k == "cl":
        return f"AddClusters {core.clist(ccl(c) for c in o['cs'])}"
    if k == "rm":
        return f"Remove {core.clist(core.cz(i) for i in o['ids'])}"
    return {"read": "Read", "xr": "Read", "np": "Read", "frame": "ReadFrame", "rmall": "RemoveAll", "reset": "Reset"}[k]


def cobs(rec, prev) -> str:
    """One observation; the frame is written as (length of the prefix shared with the previous frame, the rest)."""
    o = rec["o"]
    if o == "arr":
        ob = f"OArr {cmat(rec['m'])}"
    else:
        ob = {"unit": "OUnit", "raise": "ORaise", "corrupt": "OCorrupt"}[o]
    cur = rec.get("f", [])
    k = 0
    while k < len(prev) and k < len(cur) and prev[k] == cur[k]:
        k += 1
    fr = core.clist(f"({core.cz(f[0])}, C {q(f[1])} {q(f[2])} {q(f[3])})" for f in cur[k:])
    return f"({ob}, ({core.cnat(k)}, {fr}))"


def cobs_all(trace) -> str:
    out, prev = [], []
    for rec in trace:
        out.append(cobs(rec, prev))
        prev = rec.get("f", [])
    return core.clist(out)


def emit_case(c, res, checked: bool) -> str:
    g = (f"{{| g_rows := {core.cnat(c['rows'])}; g_cols := {core.cnat(c['cols'])}; g_ph := {q(c['ph'])}; "
         f"g_pw := {q(c['pw'])} |}}")
    return (f"{{| k_g := {g};\n     k_ops := {core.clist(cop(o) for o in c['ops'])};\n     k_checked := {core.cbool(checked)};\n"
            f"     k_loose := {core.cbool(is_loose(c))};\n"
            f"     k_obs_d := {cobs_all(res['trace'])} |}}")


def is_loose(c) -> bool:
    """Pixel sizes whose multiples binary64 rounds: frame positions are compared by the pixel they fall into."""
    return c.get("stream") == "inexact" or c["ph"] not in SIZES or c["pw"] not in SIZES


def emit_file(triples, selfcheck=False) -> str:
    """selfcheck (thorough tier): also evaluate ideal container vs accumulator on every removal-free case --
    proved (C14_ideal_is_accumulator), so the quick tier does not spend time on it."""
    body = ";\n  ".join(emit_case(c, r, ch) for c, r, ch in triples)
    return ("From Coq Require Import ZArith QArith List.\nFrom PyxelV Require Import Model.Charge.\n"
            "From PyxelGen Require Import Gen_C14.\n"
            "Import ListNotations.\nOpen Scope Q_scope.\nDefinition C := Build_cluster.\n"
            f"Definition cases : list ccase := [\n  {body}\n].\n"
            "Eval vm_compute in mismatches src cases.\n"
            "Eval vm_compute in violations cases.\n"
            "Eval vm_compute in first_bads cases.\n"
            + ("Eval vm_compute in selfcheck cases.\n" if selfcheck else ""))


# ------------------------------------------------------------------------------------------ legs


def run_impl(ctx: Ctx, cases, mode: str, workers=8, batch=None, per_child=1):
    """Returns one result per case (or {"crash": ...})."""
    if not cases:
        return []
    batch = batch or max(1, (len(cases) + workers - 1) // workers)
    payloads = [dict(mode=mode, per_child=per_child, cases=cases[i:i + batch]) for i in range(0, len(cases), batch)]
    outs = core.run_driver(ctx, "c14", payloads, workers=workers, chunk=1, timeout=1500)
    res = []
    for p, o in zip(payloads, outs):
        if "results" in o and len(o["results"]) == len(p["cases"]):
            res += o["results"]
        else:
            res += [dict(crash=str(o)[:600]) for _ in p["cases"]]
    return res


def evaluate(ctx: Ctx, items, tag: str):
    """items: [(case, result, mode)] -> (mismatch items, [(item, first_bad)] violations)."""
    triples = []
    kept = []
    for c, r, mode in items:
        if "crash" in r or "driver_error" in r or "trace" not in r:
            ctx.broken.append(Broken("correspondence", "implementation driver failed", str(r)[:500], c))
            continue
        triples.append((c, r, mode != "default"))
        kept.append((c, r, mode))
    per = 80 if ctx.quick else 160
    files = {f"{tag}_{k // per:03d}": emit_file(triples[k:k + per], selfcheck=not ctx.quick)
             for k in range(0, len(triples), per)}
    res = core.coq_eval_many(ctx, files, timeout=900, par=8)
    mism, viol = [], []
    for k, name in enumerate(sorted(files)):
        ok, evals, se = res[name]
        chunk = kept[k * per:(k + 1) * per]
        if not ok or len(evals) != (3 if ctx.quick else 4):
            ctx.broken.append(Broken("correspondence", f"case file {name}.v did not evaluate", core.tail(se, 15)))
            continue
        mi = set(core.parse_int_list(evals[0]))
        vi = core.parse_int_list(evals[1])
        fb = core.parse_int_list(evals[2])
        sc = core.parse_int_list(evals[3]) if len(evals) > 3 else []
        for i in sorted(mi):
            mism.append(chunk[i])
        for i in vi:
            viol.append((chunk[i], fb[i], i in mi))
        for i in sc:
            ctx.broken.append(Broken("correspondence", "specification self-check (ideal container vs accumulator)",
                                     "the two executable forms of the specification disagree", chunk[i][0]))
    return mism, viol, kept


def to_violation(item, k_bad: int, mismatching: bool) -> Violation:
    c, res, mode = item
    clause = classify(c, res, k_bad)
    tr = res.get("trace", [])
    short = dict(rows=c["rows"], cols=c["cols"], ph=c["ph"], pw=c["pw"], ops=c["ops"][:k_bad], mode=mode,
                 reset_via=c.get("reset_via", "charge"), stream=c.get("stream"))
    obs = tr[k_bad - 1] if 0 < k_bad <= len(tr) else dict(o="crash" if res.get("crashed") else "missing")
    observed = dict(o=obs.get("o"), m=obs.get("m"), crashed=res.get("crashed", False))
    sig = dict(clause=clause)
    what = (f"{c['rows']}x{c['cols']} pixels of {c['ph']}x{c['pw']}: the read after op {k_bad} returns "
            f"{observed['o']} {observed.get('m')} which is not the sum of the charge added since the last reset "
            f"(class {clause}, mode {mode})")
    return Violation(clause=clause, case=short, observed=observed,
                     expected="per-pixel sum of everything added since the last reset (minus removed clusters); "
                              "clusters outside the sensitive area credited nowhere, no out-of-bounds access",
                     what=what, sig=sig)


def first_bads_of(ctx: Ctx, triples, tag: str):
    """Side-effect-free judge: the `first_bads` list of a case file, or None if it does not evaluate."""
    if not triples:
        return []
    ok, evals, _ = core.coq_eval(ctx, tag, emit_file(triples), timeout=600)
    if not ok or len(evals) < 3:
        return None
    return core.parse_int_list(evals[2])


def shrink(ctx: Ctx, item, k_bad: int, rounds: int = 8):
    """Greedy one-at-a-time reduction of a failing case (ops truncated at the first bad read): drop an op, or one
    cluster of a cluster op, as long as some read is still judged wrong inside Coq.  Runs only when a violation was
    found; never for cases that may write out of bounds in the default numba configuration."""
    c, res, mode = item
    if mode == "default" or k_bad <= 0:
        return item, k_bad
    cur, cur_res = dict(c, ops=c["ops"][:k_bad]), res
    for rnd in range(rounds):
        ops = cur["ops"]
        cands = [dict(cur, ops=ops[:i] + ops[i + 1:]) for i in range(len(ops) - 1)]
        for i, o in enumerate(ops[:-1]):
            if o["op"] == "cl" and len(o["cs"]) > 1:
                cands += [dict(cur, ops=ops[:i] + [dict(o, cs=o["cs"][:j] + o["cs"][j + 1:])] + ops[i + 1:])
                          for j in range(len(o["cs"]))]
        if not cands:
            break
        rs = run_impl(ctx, cands, mode, workers=4)
        good = [(cd, r) for cd, r in zip(cands, rs) if "trace" in r]
        fb = first_bads_of(ctx, [(cd, r, mode != "default") for cd, r in good], f"shrink_{rnd}")
        if fb is None:
            break
        better = [(k, cd, r) for (cd, r), k in zip(good, fb) if k > 0]
        if not better:
            break
        k, cd, r = min(better, key=lambda t: (t[0], sum(len(o.get("cs", [])) for o in t[1]["ops"])))
        cur, cur_res = dict(cd, ops=cd["ops"][:k]), dict(r, trace=r["trace"][:k])
    return (cur, cur_res, mode), len(cur["ops"])


def report_violations(ctx: Ctx, viol):
    """One shrunk representative per failure class first (these become the replay files), then the rest."""
    by = {}
    for item, k_bad, mm in viol:
        by.setdefault(classify(item[0], item[1], k_bad), []).append((item, k_bad, mm))
    firsts = []
    for clause, lst in by.items():
        item, k_bad, mm = min(lst, key=lambda t: (t[0][2] == "default", t[1]))
        if len(firsts) < 6:
            try:
                item2, k2 = shrink(ctx, item, k_bad)
                v = to_violation(item2, k2, mm)     # classified again: the shrunk case names its class more precisely
            except Exception as ex:  # noqa: BLE001  -- shrinking is a convenience, never a reason to lose a violation
                ctx.log(f"shrink failed ({type(ex).__name__}: {ex}); reporting the unshrunk case")
                v = to_violation(item, k_bad, mm)
        else:
            v = to_violation(item, k_bad, mm)
        firsts.append(v)
    ctx.violations += firsts
    ctx.violations += [to_violation(item, k_bad, mm) for item, k_bad, mm in viol]


def trace_events(c, r) -> set:
    """Situations a sequence actually went through, read off the observed frames (which state the container was in
    when an op arrived) -- the conditions the state machine branches on."""
    ev = set()
    tr = r.get("trace", [])
    prev, dirty, fresh = [], False, True      # frame before the op; array mode holds charge; no read since the frame changed
    for o, t in zip(c["ops"], tr):
        cur, k = t.get("f", []), o["op"]
        if k == "arr" and t.get("o") == "unit":
            pos = any(x > 0 for row in o["a"] for x in row)
            ev.add("arr_on_frame" if prev else "arr_in_array_mode")
            if o.get("dt", "f8") != "f8":
                ev.add("arr_narrow_dtype")
            if not prev and pos:
                dirty = True
        elif k == "cl":
            if not prev and dirty and o["cs"]:
                ev.add("array_converted_to_clusters")
            if prev and o["cs"]:
                ev.add("clusters_appended")
            if not o["cs"]:
                ev.add("empty_cluster_list")
        elif k in ("rm", "rmall"):
            if prev and not cur:
                ev.add("removal_empties_frame" + ("" if fresh else "_after_read"))
            elif prev and len(cur) < len(prev):
                ev.add("removal_partial" + ("" if fresh else "_after_read"))
            elif prev:
                ev.add("removal_misses")
            else:
                ev.add("removal_in_array_mode" + ("_with_charge" if dirty else ""))
        elif k in ("read", "xr", "np"):
            if prev:
                ev.add(k + ("_first_on_frame" if fresh else "_repeated_on_frame"))
            elif k != "read":
                ev.add(k + "_in_array_mode")
        elif k == "reset":
            ev.add("reset_on_frame" + ("" if fresh else "_after_read") if prev else "reset_in_array_mode")
            dirty = False
        if k in ("read", "xr", "np") and prev:
            fresh = False
        if cur != prev:
            fresh = True
            if not cur:
                dirty = False
        prev = cur
    return ev


def account(ctx: Ctx, kept):
    seen = set()
    for c, r, mode in kept:
        f = case_features(c)
        for e in sorted(trace_events(c, r)):
            ctx.dist("situation", e)
        ctx.count("evaluations", len(r.get("trace", [])))
        ctx.count("sequences")
        ctx.dist("mode", mode)
        ctx.dist("stream", c.get("stream"))
        ctx.dist("n_ops", len(c["ops"]))
        ctx.dist("geometry", f"{c['rows']}x{c['cols']}")
        for o in c["ops"]:
            ctx.dist("op", o["op"])
        for k in ("removal", "neg", "beyond", "mixed", "negarr", "shape"):
            if f[k]:
                ctx.dist("feature", k)
        if f["mixed"] or f["removal"] or f["neg"] or f["beyond"]:
            seen.add(json.dumps({k: c[k] for k in ("rows", "cols", "ph", "pw", "ops")}, sort_keys=True))
    return seen


def correspondence(ctx: Ctx, plan, tag="c"):
    """plan: [(cases, mode, workers, batch, per_child)]"""
    items = []
    ph = ctx.cov.setdefault("phase_seconds", {})
    for cases, mode, workers, batch, per_child in plan:
        t = time.time()
        rs = run_impl(ctx, cases, mode, workers=workers, batch=batch, per_child=per_child)
        ph[f"{tag}:impl:{mode}"] = round(ph.get(f"{tag}:impl:{mode}", 0) + time.time() - t, 1)
        items += [(c, r, mode) for c, r in zip(cases, rs)]
    t = time.time()
    out = evaluate(ctx, items, tag)
    ph[f"{tag}:coq_eval"] = round(time.time() - t, 1)
    return out


def proof(ctx: Ctx):
    """Regenerate Gen_C14.v from the source under test, compile it and the property file.  Whatever happens,
    leave a compiled Gen_C14 behind (the FALLBACK if need be) so that the case files have a model."""
    from translator import c14 as tr

    try:
        text = tr.translate(ctx.repo)
    except TranslationError as ex:
        ctx.broken.append(Broken("translation", "translator/c14.py (charge.py, geometry.py -> Gen_C14.v)", str(ex)))
        ctx.log(f"translation failed: {ex}")
        text = tr.FALLBACK
    ctx.cov["generated_equals_fallback"] = text == tr.FALLBACK
    core.proof_leg(ctx, {"Gen_C14.v": text}, PROP_FILE)
    gen = ctx.build / "gen"
    if not (gen / "Gen_C14.vo").exists():
        (gen / "Gen_C14.v").write_text(tr.FALLBACK)
        core.coqc(ctx, gen / "Gen_C14.v", [(gen, "PyxelGen")], 300)


def run(ctx: Ctx):
    ctx.trusted += TRUSTED
    ctx.assumptions += [
        "array additions are non-negative (cases with negative entries are compared with the model but not judged)",
        "pixel sizes > 0; charge values are small dyadic numbers so that float sums are exact; positions and pixel "
        "sizes are arbitrary binary64 values taken as the exact rationals they are",
        "only Charge built by a Detector and clusters added through Charge.add_charge (RangeIndex frames)",
    ]
    t = time.time()
    proof(ctx)
    ctx.cov.setdefault("phase_seconds", {})["proof_leg"] = round(time.time() - t, 1)

    r = ctx.rng("cases")
    corpus = load_corpus()
    n_fast = ctx.budget(900, 6000)
    n_jit = ctx.budget(120, 900)
    n_def = ctx.budget(30, 300)
    n_unsafe = ctx.budget(8, 60)
    streams = ["clean"] * 8 + ["removal"] * 4 + ["outside"] * 4 + ["malformed"] * 2 + ["inexact"] * 3
    enum = enum_cases(ctx.budget(3, 4))
    ctx.cov["exhaustive_small_scope"] = dict(alphabet=len(ENUM_ALPHABET), max_len=ctx.budget(3, 4), sequences=len(enum))
    fast = corpus + enum + [gen_case(r, r.choice(streams)) for _ in range(n_fast)]
    jit = corpus + [gen_case(r, r.choice(streams)) for _ in range(n_jit)]
    # numba's default (unchecked) configuration: only cases the model says stay in bounds ...
    dflt = []
    while len(dflt) < n_def:
        c = gen_case(r, r.choice(["clean", "clean", "removal", "outside", "inexact"]))
        if not case_features(c)["beyond"]:
            dflt.append(c)
    # ... plus a few that write out of bounds, each in its own child; quick tier: one pixel past the end only
    unsafe = [c for c in corpus if case_features(c)["beyond"]]
    while len(unsafe) < n_unsafe:
        c = gen_case(r, "unsafe1" if ctx.quick else r.choice(["unsafe1", "outside"]))
        if case_features(c)["beyond"] and (not ctx.quick or not far_beyond(c)):
            unsafe.append(c)
    plan = [
        (fast, "nojit", 6, None, 1),
        (jit, "checked", 8, None, 1),
        (dflt, "default", 4, None, 20),
        (unsafe, "default", 6, 2, 1),
    ]
    mism, viol, kept = correspondence(ctx, plan)
    seen = account(ctx, kept)
    ctx.cov["distinct_nontrivial"] = len(seen)
    ctx.cov["rule"] = ("op sequences (1-10 ops + a final read) on a real detector.charge; non-trivial = mixes array and "
                       "cluster additions, or contains a removal, or a cluster outside the sensitive area; distinct = "
                       "distinct (geometry, op list)")
    ctx.cov["traces_validated_against_impl"] = len(kept)
    ctx.cov["disagreements_checked"] = len(mism)
    unsafe_seen = [(c, rr) for c, rr, m in kept if m == "default" and case_features(c)["beyond"]]
    ctx.cov["default_config_out_of_bounds_runs"] = dict(
        runs=len(unsafe_seen), process_crashed=sum(1 for _, rr in unsafe_seen if rr.get("crashed")))
    for c, rr, m in kept[:2] + kept[len(corpus) + len(enum):len(corpus) + len(enum) + 3]:
        ctx.sample(dict(geometry=[c["rows"], c["cols"], c["ph"], c["pw"]], ops=c["ops"][:4], n_ops=len(c["ops"]),
                        mode=m, last=rr["trace"][-1] if rr.get("trace") else None))
    report_violations(ctx, viol)
    (ctx.build / "mismatches.json").write_text(json.dumps(
        [dict(case=c, observed=rr, mode=m) for c, rr, m in mism[:20]], indent=1))
    for c, rr, m in mism:
        ctx.broken.append(Broken("correspondence", "Model/Charge.v vs implementation",
                                 f"model and implementation traces differ ({m}) on a {c['rows']}x{c['cols']} case "
                                 f"with {len(c['ops'])} ops", dict(case=c, mode=m)))
    if ctx.broken and not new_violations(ctx):
        search(ctx)


def new_violations(ctx: Ctx):
    fs = core.load_findings(ctx.prop)
    return [v for v in ctx.violations if not any(core.finding_matches(e, v) for e in fs)]


def search(ctx: Ctx):
    """The model no longer describes the code (or a proof broke): look harder for a concrete failing input
    among sequences the known defects cannot explain (all clusters inside, no removals)."""
    ctx.log("searching for a concrete failing input (clean sequences, bigger budget)")
    r = ctx.rng("search")
    cases = [gen_case(r, r.choice(["clean", "clean", "removal", "outside", "inexact"]))
             for _ in range(ctx.budget(2500, 8000))]
    mism, viol, kept = correspondence(ctx, [(cases, "nojit", 8, None, 1)], tag="s")
    report_violations(ctx, viol)
    ctx.cov["search_sequences"] = len(kept)


def replay(ctx: Ctx, rp: dict) -> int:
    case = rp.get("case")
    if rp.get("kind") != "input" or not case:
        print(f"replay names a {rp.get('kind')} that no longer checks: {rp.get('no_longer_checks')}")
        print(rp.get("detail", ""))
        return 1
    mode = case.get("mode", "nojit")
    c = {k: case[k] for k in ("rows", "cols", "ph", "pw", "ops")}
    c["reset_via"] = case.get("reset_via", "charge")
    c["stream"] = case.get("stream")
    if mode == "default" and case_features(c)["beyond"]:
        print("note: this case writes out of bounds in numba's default configuration; replaying with the bounds check on")
        mode = "checked"
    res = run_impl(ctx, [c], mode, workers=1)[0]
    print("case:", json.dumps(c))
    print("implementation now returns:", json.dumps([dict(o=t.get("o"), m=t.get("m")) for t in res.get("trace", [])]))
    core.ensure_lib(ctx, targets=["theories/Model/Charge.vo"])
    from translator import c14 as tr

    gen = ctx.build / "gen"
    gen.mkdir(parents=True, exist_ok=True)
    try:
        text = tr.translate(ctx.repo)
    except TranslationError:
        text = tr.FALLBACK
    (gen / "Gen_C14.v").write_text(text)
    okg, _, _ = core.coqc(ctx, gen / "Gen_C14.v", [(gen, "PyxelGen")], 300)
    if not okg:
        (gen / "Gen_C14.v").write_text(tr.FALLBACK)
        core.coqc(ctx, gen / "Gen_C14.v", [(gen, "PyxelGen")], 300)
    ok, evals, se = core.coq_eval(ctx, "replay", emit_file([(c, res, mode != "default")]))
    if not ok:
        print("case file did not evaluate:", core.tail(se, 10))
        return 1
    bad = core.parse_int_list(evals[1]) != []
    print("model vs implementation:", "DIFFER" if core.parse_int_list(evals[0]) else "agree")
    print("specification (evaluated in Coq):", "VIOLATED" if bad else "holds")
    return 1 if bad else 0


META = dict(
    level_text=(
        "Coq theorems, for ALL operation sequences (induction over op lists, no bound on sizes), about an executable "
        "model over Q of Charge as coded after the repairs of C14-F4a/F4b/F5 (array/frame state, conversion at pixel "
        "centres of entries > 0, floor binning, the mask 0 <= index < n in front of the njit loop whose indexing is "
        "still modelled as unchecked, the cached `.array`, the array zeroed when a removal empties the frame): reads "
        "equal the per-pixel accumulator for non-negative additions and clusters ANYWHERE whatever the interleaving; "
        "with removals they equal the ledger (a removal debits exactly the clusters it takes out) and the ideal "
        "cache-free container, whose `.frame` they share; the out-of-bounds outcome is unreachable for every "
        "sequence; reads are pure; clusters outside the sensitive area change no pixel; a reset gives zero; binning "
        "credits floor(v/ph), floor(h/pw) with borders and centre round trip. The theorems are stated about the "
        "machine built from Gen_C14.v -- the subscript expressions, mask, threshold and centre formulas the "
        "translator reads in charge.py / geometry.py on every run -- and C14_source_is_model re-proves that these are "
        "the model's. That the rest of the model describes the Python is established by correspondence (= testing): "
        "generated op sequences run on a real detector.charge and are compared with the model inside Coq after "
        "every op; the implementation's reads are judged inside Coq against the accumulator / ideal container."),
    level_note=(
        "Trusted: Coq kernel + vm_compute; the translator (fail closed), the correspondence harness and driver; numpy "
        "float sums are exact on the generated dyadic charge values; np.floor_divide is the floor of the exact "
        "quotient of the two binary64 values; pandas index semantics; out-of-bounds accesses are observed via numba's "
        "bounds check / plain numpy indexing (IndexError), with a sample in the default configuration in isolated "
        "processes. Not carried: negative array entries (outside the property's hypothesis: compared with the model, "
        "not judged); user-supplied DataFrames with arbitrary indexes; set_frame_values; Charge.__array__."),
    technique="Coq refinement + simulation proofs (state machine over Q vs accumulator / ledger / ideal container), "
              "translator-regenerated index arithmetic, in-Coq correspondence/spec evaluation",
    design_ref="DESIGN.md section 6, C14",
)
