"""C14 — charge is accounted identically as arrays and as positioned clusters."""
from __future__ import annotations

import json
import math
import time

from .. import core
from ..core import Broken, Ctx, TranslationError, Violation

PROP_FILE = "Properties/C14.v"

TRUSTED = [
    "translator/c14.py (python-ast -> Gen_C14.v, fail closed): the two subscript expressions of the njit loop of "
    "convert_df_to_array, the mask applied before it, `+=` on the column `number`, the selection threshold of "
    "convert_array_to_df, the pixel-centre polynomials and layouts of geometry.get_*_pixel_center_pos",
    "correspondence harness: harness/props/c14.py generators, harness/drivers/c14.py (real detector.charge of a CCD; "
    "observables: every `.array` / `.to_xarray()` read, the (index, number, position_ver, position_hor) columns of "
    "`.frame` after every op, ValueError of add_charge_array); exact float -> Qmake literals",
    "out-of-bounds writes are OBSERVED through numba's own bounds check (NUMBA_BOUNDSCHECK=1) or plain numpy "
    "indexing (NUMBA_DISABLE_JIT=1): an IndexError there means the default build writes outside the buffer; "
    "a sample of cases also runs in numba's default configuration in isolated child processes",
    "object identity (Model/ChargeHeap.v): numpy's reference semantics are modelled -- `x += y` writes into the object x "
    "is bound to, `x = ...` rebinds, basic indexing / .view() / np.asarray share memory, .copy() / np.array / arithmetic "
    "allocate; the translator classifies expressions with these rules (fail closed on anything it cannot classify); "
    "pandas >= 3 (copy-on-write): only the SAME DataFrame object is shared, DataFrame(dict of arrays) copies",
    "modelled, not verified: numpy float64 arithmetic on the generated (exactly representable) charge values equals "
    "rational arithmetic; np.floor_divide = floor of the exact quotient of the two binary64 values; boolean-mask "
    "indexing of numpy arrays; pandas concat/query index semantics; numba wraparound indexing (index in [-n,-1] -> "
    "n+index, otherwise out of bounds)",
]

SIZES = [0.25, 0.5, 1.0, 2.0, 4.0, 8.0, 16.0, 10.0, 3.0, 1.5]
# pixel sizes whose multiples are NOT exact in binary64 (stream "inexact"): a border computed as k*s is rounded, and
# the pixel centres the implementation computes differ from the exact ones by an ulp or two
INEXACT_SIZES = [0.1, 0.3, 0.7, 1.1, 18.0, 0.0025, 1.0 / 3.0, 10.0 / 3.0, 15.0, 7.5, 0.9, 2.2, 12.3, 999.9, 0.015]


# ------------------------------------------------------------------------------------------ generators


def below(x: float) -> float:
    return math.nextafter(x, -math.inf)


def gen_pos(r, n: int, s: float, cls: str) -> float:
    """A coordinate along one axis with n pixels of size s."""
    k = r.randrange(n)
    if cls == "centre":
        return (k + 0.5) * s
    if cls == "border":
        return k * s
    if cls == "below_border":
        return below((k + 1) * s)
    if cls == "interior":
        return (k + r.choice([1, 2, 3, 5, 6, 7]) / 8.0) * s
    if cls == "fborder":  # a border as binary64 computes it (k*s rounded) and its two neighbours; k = n is outside
        b = r.randrange(n + 1) * s
        return r.choice([b, math.nextafter(b, math.inf), below(b)])
    if cls == "neg":  # index in [-n, -1]: wrapped to the opposite edge before the repair of C14-F4a
        return r.choice([-s / 2, -s, -(2.0 ** -20), -n * s, -(k + 0.25) * s, below(0.0) if False else -s / 4])
    if cls == "beyond1":  # exactly one pixel past the end (index n)
        return r.choice([n * s, (n + 0.5) * s, below((n + 1) * s)])
    if cls == "beyond_neg":  # index < -n
        return r.choice([below(-n * s), -(n + 0.5) * s, -(n + 3) * s])
    if cls == "far":
        return r.choice([(n + 1) * s, (n + 7.5) * s, (3 * n + 2) * s])
    raise ValueError(cls)


INSIDE = ["centre", "border", "below_border", "interior"]


def gen_cluster(r, g, flavour):
    """flavour: inside | neg | beyond1 | beyond | float (around binary64 borders; may fall outside)"""
    # 2^24 + 1 needs more than binary32's 24 bits: an accumulation in a narrower type than float64 shows
    n = r.choice([1, 1, 2, 3, 5, 0.25, 0.5, 7, 100, 0, 1, 2, 3, 5, 16777217]) * 1.0
    cv, ch = r.choice(INSIDE), r.choice(INSIDE)
    if flavour == "float":
        cv = r.choice(["fborder", "fborder", "centre", "interior", "neg"])
        ch = r.choice(["fborder", "fborder", "centre", "interior"])
        return [n, gen_pos(r, g["rows"], g["ph"], cv), gen_pos(r, g["cols"], g["pw"], ch)]
    if flavour != "inside":
        axis = r.choice(["v", "h", "both"])
        if flavour == "neg":
            out = "neg"
        elif flavour == "beyond1":
            out = "beyond1"
        else:
            out = r.choice(["beyond1", "beyond_neg", "far"])
        if axis in ("v", "both"):
            cv = out
        if axis in ("h", "both"):
            ch = out
    return [n, gen_pos(r, g["rows"], g["ph"], cv), gen_pos(r, g["cols"], g["pw"], ch)]


def gen_array(r, g, kind="ok"):
    rows, cols = g["rows"], g["cols"]
    if kind == "shape":
        rows, cols = r.choice([(cols, rows) if rows != cols else (rows + 1, cols), (rows + 1, cols), (rows, cols + 1),
                               (max(1, rows - 1), cols) if rows > 1 else (rows, cols + 2)])
    dens = r.choice([0.15, 0.3, 0.6, 1.0])
    cap = 8
    a = [[0.0] * cols for _ in range(rows)]
    cells = [(i, j) for i in range(rows) for j in range(cols)]
    r.shuffle(cells)
    k = 0
    for (i, j) in cells:
        if r.random() < dens and k < cap:
            a[i][j] = r.choice([1, 2, 3, 0.5, 0.25, 10, 64]) * 1.0
            k += 1
    if kind == "neg":
        i, j = cells[0]
        a[i][j] = -r.choice([1.0, 2.5, 0.5])
    return a


def gen_case(r, stream: str):
    """stream: clean (no removals, all inside) | removal | outside | malformed | unsafe1 (beyond by one only) |
    inexact (pixel sizes like 0.1: positions around the borders binary64 computes, removals, outside clusters)"""
    sizes = INEXACT_SIZES if stream == "inexact" else SIZES
    g = dict(rows=r.randrange(1, 7), cols=r.randrange(1, 7), ph=r.choice(sizes), pw=r.choice(sizes))
    g["reset_via"] = r.choice(["charge", "charge", "detector"])
    nops = r.randrange(1, 11)
    ops = []
    if stream == "clean":
        w = dict(arr=30, cl=30, read=22, frame=4, reset=8)
    elif stream == "removal":
        w = dict(arr=24, cl=26, read=20, frame=2, reset=6, rmall=10, rm=14)
    elif stream in ("outside", "unsafe1"):
        w = dict(arr=24, cl=36, read=24, frame=2, reset=6, rmall=3, rm=3)
    elif stream == "inexact":
        w = dict(arr=22, cl=36, read=24, frame=2, reset=5, rmall=4, rm=7)
    else:
        w = dict(arr=30, cl=24, read=22, frame=2, reset=6, rmall=6, rm=8)
    names, weights = list(w), list(w.values())
    # a small simulation of the container (labels of the live clusters, charge held as array), only to aim the
    # generator: removals that hit existing labels, partial removals right after a read, ...
    labels: list[int] = []
    held = [[0.0] * g["cols"] for _ in range(g["rows"])]
    just_read = False
    out_used = False

    def positives(m):
        return sum(1 for row in m for x in row if x > 0)

    for t in range(nops):
        k = r.choices(names, weights)[0]
        if "rm" in w and just_read and len(labels) >= 2 and r.random() < 0.4:
            k = "rm"                                  # read; partial removal: the cached array must follow
        just_read = False
        if k == "arr":
            kind = "ok"
            if stream == "malformed":
                kind = r.choice(["ok", "shape", "neg", "neg"])
            a = gen_array(r, g, kind)
            dt = r.choice(["f8", "f8", "f8", "f4", "f2"])
            if dt == "f8" and r.random() < 0.15:      # one entry that binary32 cannot hold (only where the input is float64)
                i, j = r.randrange(len(a)), r.randrange(len(a[0]))
                a[i][j] = 16777217.0 if a[i][j] >= 0 else a[i][j]
            ops.append(dict(op="arr", a=a, dt=dt))
            if len(a) == g["rows"] and all(len(row) == g["cols"] for row in a):
                if labels:
                    labels = list(range(len(labels) + positives(a)))
                else:
                    held = [[x + y for x, y in zip(ra, rb)] for ra, rb in zip(held, a)]
        elif k == "cl":
            m = r.choice([0, 1, 1, 2, 3, 4]) if t else r.choice([1, 2, 3])
            cs = []
            for _ in range(m):
                fl = "inside"
                if stream == "outside" and (not out_used or r.random() < 0.3):
                    fl = r.choice(["neg", "neg", "beyond1", "beyond"])
                    out_used = True
                elif stream == "unsafe1" and not out_used:
                    fl = "beyond1"
                    out_used = True
                elif stream == "inexact":
                    fl = "float"
                cs.append(gen_cluster(r, g, fl))
            ops.append(dict(op="cl", cs=cs))
            if labels:
                labels = list(range(len(labels) + m))
            else:
                n0 = positives(held) if any(x != 0 for row in held for x in row) else 0
                labels = list(range(n0 + m))
        elif k == "rm":
            u = r.random()
            if labels and u < 0.65:                   # some of the live labels (partial when possible)
                ids = sorted(r.sample(labels, r.randrange(1, max(2, min(len(labels), 4)))))
            elif labels and u < 0.75:                 # all of them, by label
                ids = list(labels)
            else:
                hi = max(2, min(len(labels) + 3, 12))
                ids = sorted(set(r.randrange(0, hi) for _ in range(r.choice([1, 1, 2, 3, hi]))))
            if r.random() < 0.08:
                ids = []
            ops.append(dict(op="rm", ids=ids))
            had = bool(labels)
            labels = [x for x in labels if x not in ids] if ids else []
            if had and not labels:
                held = [[0.0] * g["cols"] for _ in range(g["rows"])]
        elif k == "rmall":
            ops.append(dict(op="rmall"))
            if labels:
                held = [[0.0] * g["cols"] for _ in range(g["rows"])]
            labels = []
        elif k == "reset":
            ops.append(dict(op="reset"))
            labels = []
            held = [[0.0] * g["cols"] for _ in range(g["rows"])]
        elif k == "read":
            # the three ways the container reports its array: .array, .to_xarray(), numpy's array protocol
            ops.append(dict(op=r.choice(["read", "read", "read", "xr", "np"])))
            just_read = bool(labels)
        else:
            ops.append(dict(op=k))
    ops.append(dict(op="read"))
    return dict(g, ops=ops, stream=stream)


ENUM_ALPHABET = [
    dict(op="arr", a=[[1.0, 0.0]]),
    dict(op="cl", cs=[[4.0, 0.5, 0.5]]),      # pixel 0
    dict(op="cl", cs=[[8.0, 0.5, 1.0]]),      # on the border: pixel 1
    dict(op="cl", cs=[[16.0, 0.5, 2.0]]),     # on the far edge: outside
    dict(op="read"), dict(op="xr"), dict(op="np"), dict(op="rmall"), dict(op="rm", ids=[0]), dict(op="rm", ids=[1]),
    dict(op="reset"),
]


def enum_cases(max_len: int):
    """EVERY op sequence of length 1..max_len over ENUM_ALPHABET on a 1x2 detector (+ a final read): exhaustive
    small-scope coverage of the state machine (which representation holds the charge, cached array, labels).
    The charge values are distinct powers of two, so every mis-accounting shows in the sum."""
    import itertools

    out = []
    for n in range(1, max_len + 1):
        for seq in itertools.product(range(len(ENUM_ALPHABET)), repeat=n):
            ops = [dict(ENUM_ALPHABET[i]) for i in seq] + [dict(op="read")]
            out.append(dict(rows=1, cols=2, ph=1.0, pw=1.0, reset_via="charge", ops=ops, stream="enum"))
    return out


CORPUS = [
    # F4 negative position -> opposite edge
    dict(rows=2, cols=3, ph=2.0, pw=4.0, stream="outside",
         ops=[dict(op="cl", cs=[[5.0, -1.0, 1.0]]), dict(op="read")]),
    # F4 beyond range -> out-of-bounds write
    dict(rows=2, cols=3, ph=2.0, pw=4.0, stream="unsafe1",
         ops=[dict(op="cl", cs=[[5.0, 4.0, 0.0]]), dict(op="read")]),
    dict(rows=2, cols=3, ph=2.0, pw=4.0, stream="unsafe1",
         ops=[dict(op="cl", cs=[[5.0, 1.0, 12.0]]), dict(op="read")]),
    # F5 Read; RemoveAll; AddArray
    dict(rows=2, cols=2, ph=1.0, pw=1.0, stream="removal",
         ops=[dict(op="cl", cs=[[5.0, 0.5, 0.5]]), dict(op="read"), dict(op="rmall"),
              dict(op="arr", a=[[1.0, 0.0], [0.0, 0.0]]), dict(op="read")]),
    dict(rows=2, cols=2, ph=1.0, pw=1.0, stream="removal",
         ops=[dict(op="arr", a=[[1.0, 0.0], [0.0, 2.0]]), dict(op="cl", cs=[[5.0, 0.5, 0.5]]), dict(op="rmall"),
              dict(op="read")]),
    # F6 numpy's array protocol ignored the clusters
    dict(rows=1, cols=2, ph=1.0, pw=1.0, stream="clean",
         ops=[dict(op="cl", cs=[[4.0, 0.5, 0.5]]), dict(op="np")]),
    dict(rows=1, cols=2, ph=1.0, pw=1.0, stream="clean",
         ops=[dict(op="arr", a=[[1.0, 0.0]]), dict(op="cl", cs=[[4.0, 0.5, 1.5]]), dict(op="read"),
              dict(op="cl", cs=[[8.0, 0.5, 1.0]]), dict(op="np"), dict(op="xr")]),
    # mixed representations, borders
    dict(rows=3, cols=2, ph=2.0, pw=0.5, stream="clean",
         ops=[dict(op="arr", a=[[1.0, 0.0], [0.0, 2.0], [0.0, 0.0]]), dict(op="read"),
              dict(op="cl", cs=[[5.0, 2.0, 0.5], [3.0, 5.999999999999999, 0.0]]), dict(op="read"),
              dict(op="arr", a=[[0.0, 0.0], [1.0, 2.0], [0.0, 4.0]]), dict(op="read"), dict(op="reset"),
              dict(op="read"), dict(op="arr", a=[[0.0, 0.0], [1.0, 2.0], [0.0, 4.0]]), dict(op="read")]),
]


def load_corpus(heap=False):
    d = core.VERIF / "harness" / "corpus" / "C14"
    out = [dict(c) for c in (HCORPUS if heap else CORPUS)]
    if d.exists():
        for f in sorted(d.glob("*.json")):
            try:
                c = json.loads(f.read_text())
            except ValueError:
                continue
            if bool(c.get("heap")) == heap:
                out.append(c)
    return out


# ------------------------------------------------------------------------------------------ analysis (python side)


def fdiv(p: float, s: float) -> int:
    from fractions import Fraction
    return math.floor(Fraction(p) / Fraction(s))


def cluster_class(g, c) -> str:
    """inside | neg (wraps) | beyond (out of bounds)"""
    worst = "inside"
    for p, s, n in ((c[1], g["ph"], g["rows"]), (c[2], g["pw"], g["cols"])):
        k = fdiv(p, s)
        if k >= n or k < -n:
            return "beyond"
        if k < 0:
            worst = "neg"
    return worst


def case_features(c):
    f = dict(removal=False, neg=False, beyond=False, mixed=False, negarr=False, shape=False)
    seen_arr = seen_cl = False
    for o in c["ops"]:
        if o["op"] in ("rm", "rmall"):
            f["removal"] = True
        elif o["op"] == "cl":
            seen_cl = seen_cl or bool(o["cs"])
            for cl in o["cs"]:
                k = cluster_class(c, cl)
                if k == "neg":
                    f["neg"] = True
                if k == "beyond":
                    f["beyond"] = True
        elif o["op"] == "arr":
            a = o["a"]
            if len(a) != c["rows"] or any(len(row) != c["cols"] for row in a):
                f["shape"] = True
            else:
                seen_arr = seen_arr or any(x != 0 for row in a for x in row)
            if any(x < 0 for row in a for x in row):
                f["negarr"] = True
    f["mixed"] = seen_arr and seen_cl
    return f


def far_beyond(c) -> bool:
    """Does some cluster index lie more than one pixel past either end?"""
    for o in c["ops"]:
        if o["op"] == "cl":
            for cl in o["cs"]:
                for p, s, n in ((cl[1], c["ph"], c["rows"]), (cl[2], c["pw"], c["cols"])):
                    k = fdiv(p, s)
                    if k > n or k < -n - 1:
                        return True
    return False


def classify(c, res, k_bad: int):
    """Input class of the failing prefix ops[:k_bad] (since its last reset)."""
    ops = c["ops"][:k_bad]
    start = 0
    for i, o in enumerate(ops):
        if o["op"] == "reset":
            start = i + 1
    live = ops[start:]
    tr = res.get("trace", [])
    classes = set()
    for i, o in enumerate(live):
        if o["op"] == "cl":
            for cl in o["cs"]:
                k = cluster_class(c, cl)
                if k == "beyond":
                    classes.add("beyond_range")
                elif k == "neg":
                    classes.add("negative_wrap")
        if o["op"] in ("rm", "rmall"):
            j = start + i
            before = tr[j - 1]["f"] if 0 < j <= len(tr) else []
            after = tr[j]["f"] if j < len(tr) else []
            if before and not after:
                classes.add("stale_array_after_removal")
    for name in ("beyond_range", "negative_wrap", "stale_array_after_removal"):
        if name in classes:
            return name
    if ops and ops[-1]["op"] == "np":
        return "array_protocol"
    if ops and ops[-1]["op"] == "xr":
        return "to_xarray"
    return "accounting"


# ------------------------------------------------------------------------------------------ Coq emission


def q(x: float) -> str:
    return core.cq_of_float(x)


def cmat(a) -> str:
    return core.clist(core.clist(q(x) for x in row) for row in a)


def ccl(c) -> str:
    return f"(C {q(c[0])} {q(c[1])} {q(c[2])})"


def cop(o) -> str:
    k = o["op"]
    if k == "arr":
        return f"AddArray {cmat(o['a'])}"
    if k == "cl":
        return f"AddClusters {core.clist(ccl(c) for c in o['cs'])}"
    if k == "rm":
        return f"Remove {core.clist(core.cz(i) for i in o['ids'])}"
    return {"read": "Read", "xr": "Read", "np": "Read", "frame": "ReadFrame", "rmall": "RemoveAll", "reset": "Reset"}[k]


def cobs(rec, prev) -> str:
    """One observation; the frame is written as (length of the prefix shared with the previous frame, the rest)."""
    o = rec["o"]
    if o == "arr":
        ob = f"OArr {cmat(rec['m'])}"
    else:
        ob = {"unit": "OUnit", "raise": "ORaise", "corrupt": "OCorrupt"}[o]
    cur = rec.get("f", [])
    k = 0
    while k < len(prev) and k < len(cur) and prev[k] == cur[k]:
        k += 1
    fr = core.clist(f"({core.cz(f[0])}, C {q(f[1])} {q(f[2])} {q(f[3])})" for f in cur[k:])
    return f"({ob}, ({core.cnat(k)}, {fr}))"


def cobs_all(trace) -> str:
    out, prev = [], []
    for rec in trace:
        out.append(cobs(rec, prev))
        prev = rec.get("f", [])
    return core.clist(out)


def emit_case(c, res, checked: bool) -> str:
    g = (f"{{| g_rows := {core.cnat(c['rows'])}; g_cols := {core.cnat(c['cols'])}; g_ph := {q(c['ph'])}; "
         f"g_pw := {q(c['pw'])} |}}")
    return (f"{{| k_g := {g};\n     k_ops := {core.clist(cop(o) for o in c['ops'])};\n     k_checked := {core.cbool(checked)};\n"
            f"     k_loose := {core.cbool(is_loose(c))};\n"
            f"     k_obs_d := {cobs_all(res['trace'])} |}}")


def is_loose(c) -> bool:
    """Pixel sizes whose multiples binary64 rounds: frame positions are compared by the pixel they fall into."""
    return c.get("stream") == "inexact" or c["ph"] not in SIZES or c["pw"] not in SIZES


def emit_file(triples, selfcheck=False) -> str:
    """selfcheck (thorough tier): also evaluate ideal container vs accumulator on every removal-free case --
    proved (C14_ideal_is_accumulator), so the quick tier does not spend time on it."""
    body = ";\n  ".join(emit_case(c, r, ch) for c, r, ch in triples)
    return ("From Coq Require Import ZArith QArith List.\nFrom PyxelV Require Import Model.Charge.\n"
            "From PyxelGen Require Import Gen_C14.\n"
            "Import ListNotations.\nOpen Scope Q_scope.\nDefinition C := Build_cluster.\n"
            f"Definition cases : list ccase := [\n  {body}\n].\n"
            "Eval vm_compute in mismatches src cases.\n"
            "Eval vm_compute in violations cases.\n"
            "Eval vm_compute in first_bads cases.\n"
            + ("Eval vm_compute in selfcheck cases.\n" if selfcheck else ""))



# ------------------------------------------------------------------------------------------ object identity (heap cases)

HEAP_SIZES = [0.5, 1.0, 2.0, 4.0]


def gen_hcase(r, disciplined=None):
    """Op sequences in which the caller KEEPS the objects it passes and receives and mutates them: the same array object
    added several times, overwritten between and after the additions, arrays returned by .array / np.asarray / to_xarray
    overwritten, DataFrames modified after they were added.  `disciplined`: the caller only writes into what it owns
    (its arrays, its DataFrames, to_xarray results) -- judged by the specification; otherwise it also writes through
    the views `.array` / `np.asarray` gave it and re-adds them (compared with the model only)."""
    if disciplined is None:
        disciplined = r.random() < 0.7
    g = dict(rows=r.randrange(1, 4), cols=r.randrange(1, 4), ph=r.choice(HEAP_SIZES), pw=r.choice(HEAP_SIZES))
    g["reset_via"] = r.choice(["charge", "charge", "detector"])
    ops = []
    n_args, kinds, df_len = [], [], []          # per arg: shape ok?; per read: kind; per DataFrame: rows
    added_args, added_dfs = [], []              # objects the container has seen since the last reset
    labels = 0
    nops = r.randrange(3, 13)

    def arr(ok=True):
        return gen_array(r, g, "ok" if ok else "shape")

    def clusters(n):
        return [gen_cluster(r, g, "inside") for _ in range(n)]

    for t in range(nops):
        choices = [("new", 10 if len(n_args) < 3 else 2), ("newdf", 6 if len(df_len) < 2 else 1), ("read", 16), ("cl", 5),
                   ("reset", 5), ("rmall", 2), ("frame", 1)]
        if n_args:
            choices += [("add", 26), ("write_arg", 10 + (14 if added_args else 0))]
        if df_len:
            choices += [("adddf", 12), ("writedf", 4 + (10 if added_dfs else 0))]
        if added_dfs or labels:
            choices += [("rm", 8)]
        if kinds:
            choices += [("write_res", 10)]
            if not disciplined:
                choices += [("add_res", 5)]
        k = r.choices([c[0] for c in choices], [c[1] for c in choices])[0]
        if k == "new":
            ok = r.random() > 0.06
            a = arr(ok)
            if r.random() < 0.03 and ok:
                a[0][0] = -1.0
            ops.append(dict(op="new", a=a, dt=r.choice(["f8", "f8", "f8", "f8", "f4", "f2"]), order=r.choice(["C", "C", "F"])))
            n_args.append((len(a), len(a[0])))
        elif k == "add":
            i = r.choice(added_args) if (added_args and r.random() < 0.6) else r.randrange(len(n_args))
            ops.append(dict(op="add", h=["arg", i], via=r.choice(["direct", "direct", "direct", "view", "ro"])))
            if n_args[i] == (g["rows"], g["cols"]):
                added_args.append(i)
        elif k == "write_arg":
            i = r.choice(added_args) if (added_args and r.random() < 0.8) else r.randrange(len(n_args))
            rows, cols = n_args[i]
            a = gen_array(r, dict(rows=rows, cols=cols), "ok")
            ops.append(dict(op="write", h=["arg", i], a=a))
        elif k == "write_res":
            own = [j for j, kk in enumerate(kinds) if kk == "xr"]
            if disciplined:
                if not own:
                    ops.append(dict(op="xr"))
                    kinds.append("xr")
                    continue
                j = r.choice(own)
            else:
                j = r.randrange(len(kinds))
            ops.append(dict(op="write", h=["res", j], a=arr()))
        elif k == "add_res":
            ops.append(dict(op="add", h=["res", r.randrange(len(kinds))], via="direct"))
        elif k == "newdf":
            n = r.choice([1, 1, 2, 3])
            ops.append(dict(op="newdf", cs=clusters(n)))
            df_len.append(n)
        elif k == "adddf":
            i = r.choice(added_dfs) if (added_dfs and r.random() < 0.5) else r.randrange(len(df_len))
            ops.append(dict(op="adddf", k=i))
            added_dfs.append(i)
            labels += df_len[i]
        elif k == "writedf":
            i = r.choice(added_dfs) if (added_dfs and r.random() < 0.8) else r.randrange(len(df_len))
            n = df_len[i] if r.random() < 0.7 else r.randrange(0, df_len[i] + 1)
            ops.append(dict(op="writedf", k=i, cs=clusters(n)))
            df_len[i] = n
        elif k == "cl":
            n = r.choice([1, 1, 2])
            ops.append(dict(op="cl", cs=clusters(n)))
            labels += n
        elif k == "rm":
            hi = max(2, min(labels + 2, 8))
            ids = sorted(set(r.randrange(0, hi) for _ in range(r.choice([1, 1, 2]))))
            ops.append(dict(op="rm", ids=ids))
        elif k == "read":
            kk = r.choice(["read", "read", "xr", "xr", "np"])
            ops.append(dict(op=kk))
            kinds.append(kk)
        elif k == "reset":
            ops.append(dict(op="reset"))
            added_args, added_dfs, labels = [], [], 0
        else:
            ops.append(dict(op=k))
            if k == "rmall":
                labels = 0
    ops.append(dict(op="read"))
    return dict(g, ops=ops, stream="alias", heap=True)


HENUM_PREFIX = [dict(op="new", a=[[1.0, 0.0]], dt="f8", order="C"), dict(op="newdf", cs=[[16.0, 0.5, 0.5]])]
HENUM_ALPHABET = [
    dict(op="add", h=["arg", 0], via="direct"),
    dict(op="write", h=["arg", 0], a=[[0.0, 2.0]]),
    dict(op="read"), dict(op="xr"),
    dict(op="write", h=["res", 0], a=[[4.0, 4.0]]),      # the first read's result: a view (.array) or a copy (to_xarray)
    dict(op="cl", cs=[[8.0, 0.5, 1.5]]),
    dict(op="adddf", k=0),
    dict(op="writedf", k=0, cs=[[32.0, 0.5, 1.5]]),
    dict(op="rm", ids=[0]),
    dict(op="reset"),
]


def henum_cases(max_len: int):
    """EVERY sequence of length 1..max_len over HENUM_ALPHABET on a 1x2 detector, after `new; newdf` and before a final
    read: exhaustive small-scope coverage of who shares memory with whom (one caller array, one caller DataFrame, the
    first read's result).  Distinct powers of two, so every mis-accounting and every foreign write shows."""
    import itertools

    out = []
    for n in range(1, max_len + 1):
        for seq in itertools.product(range(len(HENUM_ALPHABET)), repeat=n):
            ops = [dict(o) for o in HENUM_PREFIX] + [dict(HENUM_ALPHABET[i]) for i in seq] + [dict(op="read")]
            out.append(dict(rows=1, cols=2, ph=1.0, pw=1.0, reset_via="charge", ops=ops, stream="alias_enum", heap=True))
    return out


HCORPUS = [
    # the same array object three times (class of seeded C14-m4), then the caller recycles it
    dict(rows=1, cols=2, ph=1.0, pw=1.0, stream="alias", heap=True,
         ops=[dict(op="new", a=[[1.0, 2.0]], dt="f8", order="C"), dict(op="add", h=["arg", 0], via="direct"),
              dict(op="add", h=["arg", 0], via="direct"), dict(op="add", h=["arg", 0], via="direct"), dict(op="read"),
              dict(op="write", h=["arg", 0], a=[[64.0, 0.0]]), dict(op="read")]),
    dict(rows=2, cols=2, ph=1.0, pw=2.0, stream="alias", heap=True, reset_via="detector",
         ops=[dict(op="new", a=[[7.0, 7.0], [7.0, 7.0]], dt="f8", order="F"), dict(op="reset"),
              dict(op="add", h=["arg", 0], via="view"), dict(op="write", h=["arg", 0], a=[[64.0, 0.0], [0.0, 0.0]]),
              dict(op="read"), dict(op="cl", cs=[[4.0, 1.5, 2.5]]), dict(op="xr"),
              dict(op="write", h=["res", 1], a=[[9.0, 9.0], [9.0, 9.0]]), dict(op="np")]),
    # C14-F7: the DataFrame handed to an EMPTY container was adopted: the caller's later changes reached the charge ...
    dict(rows=1, cols=2, ph=1.0, pw=1.0, stream="alias", heap=True,
         ops=[dict(op="newdf", cs=[[5.0, 0.5, 0.5], [6.0, 0.5, 1.5]]), dict(op="adddf", k=0),
              dict(op="writedf", k=0, cs=[[50.0, 0.5, 0.5], [6.0, 0.5, 0.5]]), dict(op="read")]),
    # ... and a partial removal removed rows from the caller's DataFrame
    dict(rows=1, cols=2, ph=1.0, pw=1.0, stream="alias", heap=True,
         ops=[dict(op="newdf", cs=[[5.0, 0.5, 0.5], [6.0, 0.5, 1.5]]), dict(op="adddf", k=0), dict(op="rm", ids=[1]),
              dict(op="read"), dict(op="adddf", k=0), dict(op="read")]),
]


def hcl(cs) -> str:
    return core.clist(ccl(c) for c in cs)


def chandle(h) -> str:
    return f"({'HArg' if h[0] == 'arg' else 'HRes'} {core.cnat(h[1])})"


def chop(o) -> str:
    k = o["op"]
    if k == "new":
        return f"HNew {cmat(o['a'])}"
    if k == "write":
        return f"HWrite {chandle(o['h'])} {cmat(o['a'])}"
    if k == "add":
        return f"HAdd {chandle(o['h'])}"
    if k == "newdf":
        return f"HNewDf {hcl(o['cs'])}"
    if k == "writedf":
        return f"HWriteDf {core.cnat(o['k'])} {hcl(o['cs'])}"
    if k == "adddf":
        return f"HAddDf {core.cnat(o['k'])}"
    if k == "cl":
        return f"HCl {hcl(o['cs'])}"
    if k == "rm":
        return f"HRemove {core.clist(core.cz(i) for i in o['ids'])}"
    return {"read": "HRead RkArray", "xr": "HRead RkXr", "np": "HRead RkNp", "frame": "HFrame", "rmall": "HRemoveAll",
            "reset": "HReset"}[k]


def chobs_all(trace) -> str:
    out, prev = [], []
    for rec in trace:
        base = cobs(rec, prev)                 # "(obs, (k, tail))"
        prev = rec.get("f", [])
        mem = (f"({core.clist(cmat(a) for a in rec.get('args', []))}, {core.clist(cmat(a) for a in rec.get('xr', []))}, "
               f"{core.clist(core.clist(f'C {q(c[0])} {q(c[1])} {q(c[2])}' for c in df) for df in rec.get('dfs', []))})")
        out.append(f"({base[1:-1]}, {mem})")
    return core.clist(out)


def emit_hcase(c, res) -> str:
    g = (f"{{| g_rows := {core.cnat(c['rows'])}; g_cols := {core.cnat(c['cols'])}; g_ph := {q(c['ph'])}; "
         f"g_pw := {q(c['pw'])} |}}")
    return (f"{{| hk_g := {g};\n     hk_ops := {core.clist(chop(o) for o in c['ops'])};\n"
            f"     hk_obs_d := {chobs_all(res['trace'])} |}}")


def emit_hfile(pairs) -> str:
    body = ";\n  ".join(emit_hcase(c, r) for c, r in pairs)
    return ("From Coq Require Import ZArith QArith List.\nFrom PyxelV Require Import Model.Charge Model.ChargeHeap.\n"
            "From PyxelGen Require Import Gen_C14.\n"
            "Import ListNotations.\nOpen Scope Q_scope.\nDefinition C := Build_cluster.\n"
            f"Definition cases : list hcase := [\n  {body}\n].\n"
            "Eval vm_compute in hmismatches hsrc src cases.\n"
            "Eval vm_compute in hviolations cases.\n"
            "Eval vm_compute in hfirst_bad_reads cases.\n"
            "Eval vm_compute in hfirst_bad_mems cases.\n")


def caller_memory(ops, trace):
    """What the caller's own memory must hold after each op: (arrays, to_xarray results, DataFrames) -- the python twin
    of cm_step / xs_step of Model/ChargeHeap.v, used only to NAME the object a violation is about."""
    args, xr, dfs, kinds, out = [], [], [], [], []
    for o, t in zip(ops, trace):
        k = o["op"]
        if k == "new":
            args.append(o["a"])
        elif k == "write":
            kind, i = o["h"]
            if kind == "arg" and i < len(args):
                args[i] = o["a"]
            elif kind == "res" and i < len(kinds) and kinds[i] == "xr":
                xr[sum(1 for x in kinds[:i] if x == "xr")] = o["a"]
        elif k == "newdf":
            dfs.append(o["cs"])
        elif k == "writedf" and o["k"] < len(dfs):
            dfs[o["k"]] = o["cs"]
        elif k in ("read", "xr", "np"):
            kinds.append(k)
            if k == "xr" and t.get("o") == "arr":
                xr.append(t["m"])
        out.append(([list(map(list, a)) for a in args], [list(map(list, a)) for a in xr], [list(map(list, d)) for d in dfs]))
    return out


def hclassify(c, res, k_bad: int, mem: bool) -> str:
    """Which caller-owned object the container shares memory with, for the failing prefix ops[:k_bad]."""
    ops = c["ops"][:k_bad]
    tr = res.get("trace", [])[:k_bad]
    if mem and len(tr) == len(ops) and ops:
        want = caller_memory(ops, tr)[-1]
        got = tr[-1]
        if got.get("args") != want[0]:
            return "caller_array_aliased"
        if got.get("dfs") != want[2]:
            return "caller_dataframe_aliased"
        if got.get("xr") != want[1]:
            return "xarray_result_aliased"
    names = [o["op"] for o in ops]
    if any(o["op"] == "write" and o["h"][0] == "res" for o in ops):
        return "xarray_result_aliased"
    if "writedf" in names or ("adddf" in names and ("rm" in names or names.count("adddf") > 1)):
        return "caller_dataframe_aliased"
    if "add" in names and ("write" in names or names.count("add") > 1):
        return "caller_array_aliased"
    if "cl" in names:
        return "cluster_arrays_aliased"
    return "aliasing_other"


def hprepare(ctx: Ctx, items, tag: str):
    kept = []
    for c, r, mode in items:
        if "crash" in r or "driver_error" in r or "trace" not in r:
            ctx.broken.append(Broken("correspondence", "implementation driver failed", str(r)[:500], c))
            continue
        kept.append((c, r, mode))
    per = 120 if ctx.quick else 300
    files = {f"{tag}_{k // per:03d}": emit_hfile([(c, r) for c, r, _ in kept[k:k + per]]) for k in range(0, len(kept), per)}
    return files, kept, per


def hdigest(ctx: Ctx, res, files, kept, per):
    mism, viol = [], []
    for k, name in enumerate(sorted(files)):
        ok, evals, se = res[name]
        chunk = kept[k * per:(k + 1) * per]
        if not ok or len(evals) != 4:
            ctx.broken.append(Broken("correspondence", f"case file {name}.v did not evaluate", core.tail(se, 15)))
            continue
        mi = set(core.parse_int_list(evals[0]))
        vi = core.parse_int_list(evals[1])
        fr = core.parse_int_list(evals[2])
        fm = core.parse_int_list(evals[3])
        for i in sorted(mi):
            mism.append(chunk[i])
        for i in vi:
            viol.append((chunk[i], fr[i], fm[i]))
    return mism, viol


def evaluate_heap(ctx: Ctx, items, tag: str):
    """items: [(case, result, mode)] -> (mismatch items, [(item, first bad read, first bad mem)] violations, kept)."""
    files, kept, per = hprepare(ctx, items, tag)
    res = core.coq_eval_many(ctx, files, timeout=900, par=8)
    mism, viol = hdigest(ctx, res, files, kept, per)
    return mism, viol, kept


def h_bad(fr: int, fm: int):
    """(position, is it the memory clause?) of the first failure"""
    cands = [(x, m) for x, m in ((fr, False), (fm, True)) if x > 0]
    return min(cands) if cands else (0, False)


def to_hviolation(item, fr: int, fm: int, clause=None) -> Violation:
    c, res, mode = item
    k_bad, mem = h_bad(fr, fm)
    clause = clause or hclassify(c, res, k_bad, mem)
    tr = res.get("trace", [])
    short = dict(rows=c["rows"], cols=c["cols"], ph=c["ph"], pw=c["pw"], ops=c["ops"][:k_bad], mode=mode, heap=True,
                 reset_via=c.get("reset_via", "charge"), stream=c.get("stream"))
    obs = tr[k_bad - 1] if 0 < k_bad <= len(tr) else dict(o="missing")
    observed = dict(o=obs.get("o"), m=obs.get("m"), args=obs.get("args"), xr=obs.get("xr"), dfs=obs.get("dfs"))
    if mem:
        what = (f"{c['rows']}x{c['cols']} pixels: after op {k_bad} ({c['ops'][k_bad - 1]['op']}) the caller's own memory "
                f"(arrays {observed['args']}, to_xarray results {observed['xr']}, DataFrames {observed['dfs']}) is not what "
                f"the caller put there: the container wrote into an object it does not own (class {clause})")
    else:
        what = (f"{c['rows']}x{c['cols']} pixels: the read after op {k_bad} returns {observed['m']}, which is not the sum of "
                f"the values the added objects held at the time they were added: the container shares memory with an "
                f"object the caller owns and mutated (class {clause})")
    return Violation(clause=clause, case=short, observed=observed,
                     expected="an addition contributes the value its argument holds at the time of the call; the caller's "
                              "arrays / DataFrames / to_xarray results are never written by the container",
                     what=what, sig=dict(clause=clause))


def h_drop(ops, i):
    """ops without op i, handles renumbered; ops that referred to a dropped object are dropped too."""
    o = ops[i]
    k = o["op"]
    out = []
    arg_i = sum(1 for x in ops[:i] if x["op"] == "new") if k == "new" else None
    df_i = sum(1 for x in ops[:i] if x["op"] == "newdf") if k == "newdf" else None
    res_i = sum(1 for x in ops[:i] if x["op"] in ("read", "xr", "np")) if k in ("read", "xr", "np") else None
    for j, x in enumerate(ops):
        if j == i:
            continue
        x = dict(x)
        if "h" in x:
            kind, n = x["h"]
            if kind == "arg" and arg_i is not None:
                if n == arg_i:
                    continue
                x["h"] = [kind, n - 1 if n > arg_i else n]
            if kind == "res" and res_i is not None:
                if n == res_i:
                    continue
                x["h"] = [kind, n - 1 if n > res_i else n]
        if x["op"] in ("adddf", "writedf") and df_i is not None:
            if x["k"] == df_i:
                continue
            x["k"] = x["k"] - 1 if x["k"] > df_i else x["k"]
        out.append(x)
    return out


def hshrink(ctx: Ctx, item, fr: int, fm: int, rounds: int = 10):
    c, res, mode = item
    k_bad, _ = h_bad(fr, fm)
    if k_bad <= 0:
        return item, fr, fm
    cur, cur_res, cur_f = dict(c, ops=c["ops"][:k_bad]), dict(res, trace=res["trace"][:k_bad]), (fr, fm)
    for rnd in range(rounds):
        ops = cur["ops"]
        cands = [dict(cur, ops=h_drop(ops, i)) for i in range(len(ops) - 1)]
        cands = [cd for cd in cands if cd["ops"]]
        if not cands:
            break
        rs = run_impl(ctx, cands, mode, workers=4)
        good = [(cd, r) for cd, r in zip(cands, rs) if "trace" in r]
        if not good:
            break
        ok, evals, _ = core.coq_eval(ctx, f"hshrink_{rnd}", emit_hfile(good), timeout=600)
        if not ok or len(evals) != 4:
            break
        frs, fms = core.parse_int_list(evals[2]), core.parse_int_list(evals[3])
        better = [(h_bad(a, b)[0], cd, r, a, b) for (cd, r), a, b in zip(good, frs, fms) if h_bad(a, b)[0] > 0]
        if not better:
            break
        k, cd, r, a, b = min(better, key=lambda t: (t[0], len(json.dumps(t[1]["ops"]))))
        cur, cur_res, cur_f = dict(cd, ops=cd["ops"][:k]), dict(r, trace=r["trace"][:k]), (a, b)
    return (cur, cur_res, mode), cur_f[0], cur_f[1]


def report_hviolations(ctx: Ctx, viol):
    """One shrunk representative per class of shared object (classified again after shrinking: the minimal case names
    its object precisely), then the rest."""
    by = {}
    for item, fr, fm in viol:
        k_bad, mem = h_bad(fr, fm)
        by.setdefault(hclassify(item[0], item[1], k_bad, mem), []).append((item, fr, fm))
    firsts, final = {}, {}
    for n, (clause, lst) in enumerate(sorted(by.items(), key=lambda kv: min(h_bad(t[1], t[2])[0] for t in kv[1]))):
        item, fr, fm = min(lst, key=lambda t: (h_bad(t[1], t[2])[0], len(json.dumps(t[0][0]["ops"]))))
        if n < 5:
            try:
                item2, fr2, fm2 = hshrink(ctx, item, fr, fm)
                v = to_hviolation(item2, fr2, fm2)
            except Exception as ex:  # noqa: BLE001
                ctx.log(f"shrink failed ({type(ex).__name__}: {ex}); reporting the unshrunk case")
                v = to_hviolation(item, fr, fm)
        else:
            v = to_hviolation(item, fr, fm)
        final[clause] = v.clause
        old = firsts.get(v.clause)
        if old is None or len(json.dumps(v.case["ops"])) < len(json.dumps(old.case["ops"])):
            firsts[v.clause] = v
    ctx.violations += list(firsts.values())
    # the rest, filed under the class its (shrunk) representative turned out to belong to
    for item, fr, fm in viol:
        k_bad, mem = h_bad(fr, fm)
        ctx.violations.append(to_hviolation(item, fr, fm, clause=final.get(hclassify(item[0], item[1], k_bad, mem))))


def h_disciplined(c) -> bool:
    kinds = []
    for o in c["ops"]:
        if o["op"] in ("write", "add") and o["h"][0] == "res":
            j = o["h"][1]
            if o["op"] == "add" or j >= len(kinds) or kinds[j] != "xr":
                return False
        if o["op"] in ("read", "xr", "np"):
            kinds.append(o["op"])
    return True


def h_events(c) -> set:
    """Aliasing situations a heap sequence goes through (read off the op list)."""
    ev = set()
    adds, live_adds, df_added, kinds, since_reset_arr = {}, set(), set(), [], 0
    for o in c["ops"]:
        k = o["op"]
        if k == "add" and o["h"][0] == "arg":
            i = o["h"][1]
            adds[i] = adds.get(i, 0) + 1
            live_adds.add(i)
            if adds[i] >= 3:
                ev.add("same_array_added_3_times")
            elif adds[i] == 2:
                ev.add("same_array_added_twice")
            if since_reset_arr == 0:
                ev.add("first_array_addition_since_reset")
            since_reset_arr += 1
            if o.get("via") != "direct":
                ev.add("array_passed_as_" + o.get("via", "direct"))
        elif k == "add":
            ev.add("read_result_added_back")
        elif k == "write" and o["h"][0] == "arg":
            ev.add("caller_array_overwritten_after_add" if o["h"][1] in live_adds else "caller_array_overwritten_before_add")
        elif k == "write":
            j = o["h"][1]
            kk = kinds[j] if j < len(kinds) else None
            ev.add({"xr": "xarray_result_overwritten", "read": "array_view_overwritten", "np": "asarray_view_overwritten"}
                   .get(kk, "write_to_unknown_result"))
        elif k == "adddf":
            ev.add("dataframe_added_again" if o["k"] in df_added else "dataframe_added")
            df_added.add(o["k"])
        elif k == "writedf":
            ev.add("dataframe_modified_after_add" if o["k"] in df_added else "dataframe_modified_before_add")
        elif k == "rm" and df_added:
            ev.add("removal_after_dataframe_added")
        elif k in ("read", "xr", "np"):
            kinds.append(k)
        elif k == "reset":
            adds, live_adds, since_reset_arr = {}, set(), 0
            ev.add("reset")
    return ev


# ------------------------------------------------------------------------------------------ legs


def run_impl(ctx: Ctx, cases, mode: str, workers=8, batch=None, per_child=1):
    """Returns one result per case (or {"crash": ...})."""
    if not cases:
        return []
    batch = batch or max(1, (len(cases) + workers - 1) // workers)
    payloads = [dict(mode=mode, per_child=per_child, cases=cases[i:i + batch]) for i in range(0, len(cases), batch)]
    outs = core.run_driver(ctx, "c14", payloads, workers=workers, chunk=1, timeout=1500)
    res = []
    for p, o in zip(payloads, outs):
        if "results" in o and len(o["results"]) == len(p["cases"]):
            res += o["results"]
        else:
            res += [dict(crash=str(o)[:600]) for _ in p["cases"]]
    return res


def prepare(ctx: Ctx, items, tag: str):
    """items: [(case, result, mode)] -> (case files, kept items, cases per file)."""
    triples = []
    kept = []
    for c, r, mode in items:
        if "crash" in r or "driver_error" in r or "trace" not in r:
            ctx.broken.append(Broken("correspondence", "implementation driver failed", str(r)[:500], c))
            continue
        triples.append((c, r, mode != "default"))
        kept.append((c, r, mode))
    per = 80 if ctx.quick else 160
    files = {f"{tag}_{k // per:03d}": emit_file(triples[k:k + per], selfcheck=not ctx.quick)
             for k in range(0, len(triples), per)}
    return files, kept, per


def digest(ctx: Ctx, res, files, kept, per):
    """-> (mismatch items, [(item, first_bad, mismatching)] violations)."""
    mism, viol = [], []
    for k, name in enumerate(sorted(files)):
        ok, evals, se = res[name]
        chunk = kept[k * per:(k + 1) * per]
        if not ok or len(evals) != (3 if ctx.quick else 4):
            ctx.broken.append(Broken("correspondence", f"case file {name}.v did not evaluate", core.tail(se, 15)))
            continue
        mi = set(core.parse_int_list(evals[0]))
        vi = core.parse_int_list(evals[1])
        fb = core.parse_int_list(evals[2])
        sc = core.parse_int_list(evals[3]) if len(evals) > 3 else []
        for i in sorted(mi):
            mism.append(chunk[i])
        for i in vi:
            viol.append((chunk[i], fb[i], i in mi))
        for i in sc:
            ctx.broken.append(Broken("correspondence", "specification self-check (ideal container vs accumulator)",
                                     "the two executable forms of the specification disagree", chunk[i][0]))
    return mism, viol


def evaluate(ctx: Ctx, items, tag: str):
    """items: [(case, result, mode)] -> (mismatch items, [(item, first_bad)] violations)."""
    files, kept, per = prepare(ctx, items, tag)
    res = core.coq_eval_many(ctx, files, timeout=900, par=8)
    mism, viol = digest(ctx, res, files, kept, per)
    return mism, viol, kept


def to_violation(item, k_bad: int, mismatching: bool) -> Violation:
    c, res, mode = item
    clause = classify(c, res, k_bad)
    tr = res.get("trace", [])
    short = dict(rows=c["rows"], cols=c["cols"], ph=c["ph"], pw=c["pw"], ops=c["ops"][:k_bad], mode=mode,
                 reset_via=c.get("reset_via", "charge"), stream=c.get("stream"))
    obs = tr[k_bad - 1] if 0 < k_bad <= len(tr) else dict(o="crash" if res.get("crashed") else "missing")
    observed = dict(o=obs.get("o"), m=obs.get("m"), crashed=res.get("crashed", False))
    sig = dict(clause=clause)
    what = (f"{c['rows']}x{c['cols']} pixels of {c['ph']}x{c['pw']}: the read after op {k_bad} returns "
            f"{observed['o']} {observed.get('m')} which is not the sum of the charge added since the last reset "
            f"(class {clause}, mode {mode})")
    return Violation(clause=clause, case=short, observed=observed,
                     expected="per-pixel sum of everything added since the last reset (minus removed clusters); "
                              "clusters outside the sensitive area credited nowhere, no out-of-bounds access",
                     what=what, sig=sig)


def first_bads_of(ctx: Ctx, triples, tag: str):
    """Side-effect-free judge: the `first_bads` list of a case file, or None if it does not evaluate."""
    if not triples:
        return []
    ok, evals, _ = core.coq_eval(ctx, tag, emit_file(triples), timeout=600)
    if not ok or len(evals) < 3:
        return None
    return core.parse_int_list(evals[2])


def shrink(ctx: Ctx, item, k_bad: int, rounds: int = 8):
    """Greedy one-at-a-time reduction of a failing case (ops truncated at the first bad read): drop an op, or one
    cluster of a cluster op, as long as some read is still judged wrong inside Coq.  Runs only when a violation was
    found; never for cases that may write out of bounds in the default numba configuration."""
    c, res, mode = item
    if mode == "default" or k_bad <= 0:
        return item, k_bad
    cur, cur_res = dict(c, ops=c["ops"][:k_bad]), res
    for rnd in range(rounds):
        ops = cur["ops"]
        cands = [dict(cur, ops=ops[:i] + ops[i + 1:]) for i in range(len(ops) - 1)]
        for i, o in enumerate(ops[:-1]):
            if o["op"] == "cl" and len(o["cs"]) > 1:
                cands += [dict(cur, ops=ops[:i] + [dict(o, cs=o["cs"][:j] + o["cs"][j + 1:])] + ops[i + 1:])
                          for j in range(len(o["cs"]))]
        if not cands:
            break
        rs = run_impl(ctx, cands, mode, workers=4)
        good = [(cd, r) for cd, r in zip(cands, rs) if "trace" in r]
        fb = first_bads_of(ctx, [(cd, r, mode != "default") for cd, r in good], f"shrink_{rnd}")
        if fb is None:
            break
        better = [(k, cd, r) for (cd, r), k in zip(good, fb) if k > 0]
        if not better:
            break
        k, cd, r = min(better, key=lambda t: (t[0], sum(len(o.get("cs", [])) for o in t[1]["ops"])))
        cur, cur_res = dict(cd, ops=cd["ops"][:k]), dict(r, trace=r["trace"][:k])
    return (cur, cur_res, mode), len(cur["ops"])


def report_violations(ctx: Ctx, viol):
    """One shrunk representative per failure class first (these become the replay files), then the rest."""
    by = {}
    for item, k_bad, mm in viol:
        by.setdefault(classify(item[0], item[1], k_bad), []).append((item, k_bad, mm))
    firsts = []
    for clause, lst in by.items():
        item, k_bad, mm = min(lst, key=lambda t: (t[0][2] == "default", t[1]))
        if len(firsts) < 6:
            try:
                item2, k2 = shrink(ctx, item, k_bad)
                v = to_violation(item2, k2, mm)     # classified again: the shrunk case names its class more precisely
            except Exception as ex:  # noqa: BLE001  -- shrinking is a convenience, never a reason to lose a violation
                ctx.log(f"shrink failed ({type(ex).__name__}: {ex}); reporting the unshrunk case")
                v = to_violation(item, k_bad, mm)
        else:
            v = to_violation(item, k_bad, mm)
        firsts.append(v)
    ctx.violations += firsts
    ctx.violations += [to_violation(item, k_bad, mm) for item, k_bad, mm in viol]


def trace_events(c, r) -> set:
    """Situations a sequence actually went through, read off the observed frames (which state the container was in
    when an op arrived) -- the conditions the state machine branches on."""
    ev = set()
    tr = r.get("trace", [])
    prev, dirty, fresh = [], False, True      # frame before the op; array mode holds charge; no read since the frame changed
    for o, t in zip(c["ops"], tr):
        cur, k = t.get("f", []), o["op"]
        if k == "arr" and t.get("o") == "unit":
            pos = any(x > 0 for row in o["a"] for x in row)
            ev.add("arr_on_frame" if prev else "arr_in_array_mode")
            if o.get("dt", "f8") != "f8":
                ev.add("arr_narrow_dtype")
            if not prev and pos:
                dirty = True
        elif k == "cl":
            if not prev and dirty and o["cs"]:
                ev.add("array_converted_to_clusters")
            if prev and o["cs"]:
                ev.add("clusters_appended")
            if not o["cs"]:
                ev.add("empty_cluster_list")
        elif k in ("rm", "rmall"):
            if prev and not cur:
                ev.add("removal_empties_frame" + ("" if fresh else "_after_read"))
            elif prev and len(cur) < len(prev):
                ev.add("removal_partial" + ("" if fresh else "_after_read"))
            elif prev:
                ev.add("removal_misses")
            else:
                ev.add("removal_in_array_mode" + ("_with_charge" if dirty else ""))
        elif k in ("read", "xr", "np"):
            if prev:
                ev.add(k + ("_first_on_frame" if fresh else "_repeated_on_frame"))
            elif k != "read":
                ev.add(k + "_in_array_mode")
        elif k == "reset":
            ev.add("reset_on_frame" + ("" if fresh else "_after_read") if prev else "reset_in_array_mode")
            dirty = False
        if k in ("read", "xr", "np") and prev:
            fresh = False
        if cur != prev:
            fresh = True
            if not cur:
                dirty = False
        prev = cur
    return ev


def account(ctx: Ctx, kept):
    seen = set()
    for c, r, mode in kept:
        f = case_features(c)
        for e in sorted(trace_events(c, r)):
            ctx.dist("situation", e)
        ctx.count("evaluations", len(r.get("trace", [])))
        ctx.count("sequences")
        ctx.dist("mode", mode)
        ctx.dist("stream", c.get("stream"))
        ctx.dist("n_ops", len(c["ops"]))
        ctx.dist("geometry", f"{c['rows']}x{c['cols']}")
        for o in c["ops"]:
            ctx.dist("op", o["op"])
        for k in ("removal", "neg", "beyond", "mixed", "negarr", "shape"):
            if f[k]:
                ctx.dist("feature", k)
        if f["mixed"] or f["removal"] or f["neg"] or f["beyond"]:
            seen.add(json.dumps({k: c[k] for k in ("rows", "cols", "ph", "pw", "ops")}, sort_keys=True))
    return seen


def correspondence(ctx: Ctx, plan, tag="c"):
    """plan: [(cases, mode, workers, batch, per_child)]"""
    items = []
    ph = ctx.cov.setdefault("phase_seconds", {})
    for cases, mode, workers, batch, per_child in plan:
        t = time.time()
        rs = run_impl(ctx, cases, mode, workers=workers, batch=batch, per_child=per_child)
        ph[f"{tag}:impl:{mode}"] = round(ph.get(f"{tag}:impl:{mode}", 0) + time.time() - t, 1)
        items += [(c, r, mode) for c, r in zip(cases, rs)]
    t = time.time()
    out = evaluate(ctx, items, tag)
    ph[f"{tag}:coq_eval"] = round(time.time() - t, 1)
    return out


def hcorrespondence(ctx: Ctx, plan, tag="h"):
    """plan: [(heap cases, mode, workers)]"""
    items = []
    ph = ctx.cov.setdefault("phase_seconds", {})
    for cases, mode, workers in plan:
        t = time.time()
        rs = run_impl(ctx, cases, mode, workers=workers)
        ph[f"{tag}:impl:{mode}"] = round(ph.get(f"{tag}:impl:{mode}", 0) + time.time() - t, 1)
        items += [(c, r, mode) for c, r in zip(cases, rs)]
    t = time.time()
    out = evaluate_heap(ctx, items, tag)
    ph[f"{tag}:coq_eval"] = round(time.time() - t, 1)
    return out


H_NONTRIVIAL = {"same_array_added_twice", "same_array_added_3_times", "caller_array_overwritten_after_add",
                "xarray_result_overwritten", "array_view_overwritten", "asarray_view_overwritten",
                "dataframe_added_again", "dataframe_modified_after_add", "removal_after_dataframe_added",
                "read_result_added_back"}


def haccount(ctx: Ctx, kept):
    seen = set()
    for c, r, mode in kept:
        ev = h_events(c)
        for e in sorted(ev):
            ctx.dist("aliasing_situation", e)
        ctx.count("evaluations", len(r.get("trace", [])))
        ctx.count("sequences")
        ctx.count("heap_sequences")
        ctx.dist("mode", mode)
        ctx.dist("stream", c.get("stream"))
        ctx.dist("heap_caller", "disciplined (judged)" if h_disciplined(c) else "writes through views (compared only)")
        for o in c["ops"]:
            ctx.dist("heap_op", o["op"])
            if o["op"] == "new":
                ctx.dist("heap_array_dtype", o.get("dt", "f8") + "/" + o.get("order", "C"))
        if ev & H_NONTRIVIAL:
            seen.add(json.dumps({k: c[k] for k in ("rows", "cols", "ph", "pw", "ops")}, sort_keys=True))
    return seen


def proof(ctx: Ctx):
    """Regenerate Gen_C14.v from the source under test, compile it and the property file.  Whatever happens,
    leave a compiled Gen_C14 behind (the FALLBACK if need be) so that the case files have a model."""
    from translator import c14 as tr

    try:
        text = tr.translate(ctx.repo)
    except TranslationError as ex:
        ctx.broken.append(Broken("translation", "translator/c14.py (charge.py, geometry.py -> Gen_C14.v)", str(ex)))
        ctx.log(f"translation failed: {ex}")
        text = tr.FALLBACK
    ctx.cov["generated_equals_fallback"] = text == tr.FALLBACK
    ctx.cov["translator_followed_helpers"] = list(tr.NORMALISED)     # helpers inlined by the symbolic reading
    core.proof_leg(ctx, {"Gen_C14.v": text}, PROP_FILE)
    gen = ctx.build / "gen"
    if not (gen / "Gen_C14.vo").exists():
        (gen / "Gen_C14.v").write_text(tr.FALLBACK)
        core.coqc(ctx, gen / "Gen_C14.v", [(gen, "PyxelGen")], 300)


def run(ctx: Ctx):
    ctx.trusted += TRUSTED
    ctx.assumptions += [
        "array additions are non-negative (cases with negative entries are compared with the model but not judged)",
        "pixel sizes > 0; charge values are small dyadic numbers so that float sums are exact; positions and pixel "
        "sizes are arbitrary binary64 values taken as the exact rationals they are",
        "only Charge built by a Detector and clusters added through Charge.add_charge / add_charge_dataframe with "
        "DataFrames built by Charge.create_charges (RangeIndex frames)",
        "heap sequences: the theorems and the judge cover callers that write only into objects they own (their arrays "
        "and DataFrames, to_xarray results); sequences that also write through the views `.array` / np.asarray hand out "
        "(the container's own buffer, as coded) are compared with the model but not judged",
    ]
    t = time.time()
    proof(ctx)
    ctx.cov.setdefault("phase_seconds", {})["proof_leg"] = round(time.time() - t, 1)

    r = ctx.rng("cases")
    corpus = load_corpus()
    n_fast = ctx.budget(900, 6000)
    n_jit = ctx.budget(120, 900)
    n_def = ctx.budget(30, 300)
    n_unsafe = ctx.budget(8, 60)
    streams = ["clean"] * 8 + ["removal"] * 4 + ["outside"] * 4 + ["malformed"] * 2 + ["inexact"] * 3
    enum = enum_cases(ctx.budget(3, 4))
    ctx.cov["exhaustive_small_scope"] = dict(alphabet=len(ENUM_ALPHABET), max_len=ctx.budget(3, 4), sequences=len(enum))
    fast = corpus + enum + [gen_case(r, r.choice(streams)) for _ in range(n_fast)]
    jit = corpus + [gen_case(r, r.choice(streams)) for _ in range(n_jit)]
    # numba's default (unchecked) configuration: only cases the model says stay in bounds ...
    dflt = []
    while len(dflt) < n_def:
        c = gen_case(r, r.choice(["clean", "clean", "removal", "outside", "inexact"]))
        if not case_features(c)["beyond"]:
            dflt.append(c)
    # ... plus a few that write out of bounds, each in its own child; quick tier: one pixel past the end only
    unsafe = [c for c in corpus if case_features(c)["beyond"]]
    while len(unsafe) < n_unsafe:
        c = gen_case(r, "unsafe1" if ctx.quick else r.choice(["unsafe1", "outside"]))
        if case_features(c)["beyond"] and (not ctx.quick or not far_beyond(c)):
            unsafe.append(c)
    plan = [
        (fast, "nojit", 6, None, 1),
        (jit, "checked", 8, None, 1),
        (dflt, "default", 4, None, 20),
        (unsafe, "default", 6, 2, 1),
    ]
    # object identity: the caller keeps and mutates what it passes to / receives from the container
    rh = ctx.rng("heap")
    hcorpus = load_corpus(heap=True)
    henum = henum_cases(ctx.budget(3, 4))
    ctx.cov["exhaustive_small_scope_heap"] = dict(alphabet=len(HENUM_ALPHABET), max_len=ctx.budget(3, 4),
                                                  sequences=len(henum))
    hfast = hcorpus + henum + [gen_hcase(rh) for _ in range(ctx.budget(320, 3000))]
    hjit = hcorpus + [gen_hcase(rh) for _ in range(ctx.budget(24, 300))]
    # all implementation runs first, then ONE parallel evaluation of every case file inside Coq
    ph = ctx.cov.setdefault("phase_seconds", {})
    items, hitems = [], []
    for cases, mode, workers, batch, per_child in plan:
        t = time.time()
        rs = run_impl(ctx, cases, mode, workers=workers, batch=batch, per_child=per_child)
        ph[f"c:impl:{mode}"] = round(ph.get(f"c:impl:{mode}", 0) + time.time() - t, 1)
        items += [(c, rr, mode) for c, rr in zip(cases, rs)]
    for cases, mode, workers in [(hfast, "nojit", 6), (hjit, "checked", 4)]:
        t = time.time()
        rs = run_impl(ctx, cases, mode, workers=workers)
        ph[f"h:impl:{mode}"] = round(time.time() - t, 1)
        hitems += [(c, rr, mode) for c, rr in zip(cases, rs)]
    t = time.time()
    files, kept, per = prepare(ctx, items, "c")
    hfiles, hkept, hper = hprepare(ctx, hitems, "h")
    res = core.coq_eval_many(ctx, {**files, **hfiles}, timeout=900, par=8)
    mism, viol = digest(ctx, res, files, kept, per)
    hmism, hviol = hdigest(ctx, res, hfiles, hkept, hper)
    ph["coq_eval"] = round(time.time() - t, 1)
    seen = account(ctx, kept)
    ctx.cov["distinct_nontrivial"] = len(seen)
    ctx.cov["rule"] = ("op sequences (1-10 ops + a final read) on a real detector.charge; non-trivial = mixes array and "
                       "cluster additions, or contains a removal, or a cluster outside the sensitive area, or (heap "
                       "sequences) re-adds an object / overwrites an object the container has seen or handed out; "
                       "distinct = distinct (geometry, op list)")
    ctx.cov["traces_validated_against_impl"] = len(kept)
    ctx.cov["disagreements_checked"] = len(mism)
    unsafe_seen = [(c, rr) for c, rr, m in kept if m == "default" and case_features(c)["beyond"]]
    ctx.cov["default_config_out_of_bounds_runs"] = dict(
        runs=len(unsafe_seen), process_crashed=sum(1 for _, rr in unsafe_seen if rr.get("crashed")))
    for c, rr, m in kept[:2] + kept[len(corpus) + len(enum):len(corpus) + len(enum) + 3]:
        ctx.sample(dict(geometry=[c["rows"], c["cols"], c["ph"], c["pw"]], ops=c["ops"][:4], n_ops=len(c["ops"]),
                        mode=m, last=rr["trace"][-1] if rr.get("trace") else None))
    report_violations(ctx, viol)
    seen |= haccount(ctx, hkept)
    ctx.cov["distinct_nontrivial"] = len(seen)
    ctx.cov["traces_validated_against_impl"] = len(kept) + len(hkept)
    ctx.cov["disagreements_checked"] = len(mism) + len(hmism)
    for c, rr, m in hkept[len(hcorpus) + len(henum):len(hcorpus) + len(henum) + 2]:
        ctx.sample(dict(geometry=[c["rows"], c["cols"], c["ph"], c["pw"]], heap_ops=c["ops"][:6], n_ops=len(c["ops"]),
                        mode=m, last={k: v for k, v in rr["trace"][-1].items() if k != "f"} if rr.get("trace") else None))
    report_hviolations(ctx, hviol)
    mism = mism + hmism
    (ctx.build / "mismatches.json").write_text(json.dumps(
        [dict(case=c, observed=rr, mode=m) for c, rr, m in mism[:20]], indent=1))
    for c, rr, m in mism:
        ctx.broken.append(Broken("correspondence", "Model/Charge.v vs implementation",
                                 f"model and implementation traces differ ({m}) on a {c['rows']}x{c['cols']} case "
                                 f"with {len(c['ops'])} ops", dict(case=c, mode=m)))
    if ctx.broken and not new_violations(ctx):
        search(ctx)


def new_violations(ctx: Ctx):
    fs = core.load_findings(ctx.prop)
    return [v for v in ctx.violations if not any(core.finding_matches(e, v) for e in fs)]


def search(ctx: Ctx):
    """The model no longer describes the code (or a proof broke): look harder for a concrete failing input
    among sequences the known defects cannot explain (all clusters inside, no removals)."""
    ctx.log("searching for a concrete failing input (clean sequences, bigger budget)")
    r = ctx.rng("search")
    cases = [gen_case(r, r.choice(["clean", "clean", "removal", "outside", "inexact"]))
             for _ in range(ctx.budget(2500, 8000))]
    mism, viol, kept = correspondence(ctx, [(cases, "nojit", 8, None, 1)], tag="s")
    report_violations(ctx, viol)
    hcases = [gen_hcase(r, disciplined=True) for _ in range(ctx.budget(1500, 6000))]
    hmism, hviol, hkept = hcorrespondence(ctx, [(hcases, "nojit", 8)], tag="sh")
    report_hviolations(ctx, hviol)
    ctx.cov["search_sequences"] = len(kept) + len(hkept)


def replay(ctx: Ctx, rp: dict) -> int:
    case = rp.get("case")
    if rp.get("kind") != "input" or not case:
        print(f"replay names a {rp.get('kind')} that no longer checks: {rp.get('no_longer_checks')}")
        print(rp.get("detail", ""))
        return 1
    mode = case.get("mode", "nojit")
    if case.get("heap"):
        return replay_heap(ctx, case, mode)
    c = {k: case[k] for k in ("rows", "cols", "ph", "pw", "ops")}
    c["reset_via"] = case.get("reset_via", "charge")
    c["stream"] = case.get("stream")
    if mode == "default" and case_features(c)["beyond"]:
        print("note: this case writes out of bounds in numba's default configuration; replaying with the bounds check on")
        mode = "checked"
    res = run_impl(ctx, [c], mode, workers=1)[0]
    print("case:", json.dumps(c))
    print("implementation now returns:", json.dumps([dict(o=t.get("o"), m=t.get("m")) for t in res.get("trace", [])]))
    core.ensure_lib(ctx, targets=["theories/Model/Charge.vo", "theories/Model/ChargeHeap.vo"])
    from translator import c14 as tr

    gen = ctx.build / "gen"
    gen.mkdir(parents=True, exist_ok=True)
    try:
        text = tr.translate(ctx.repo)
    except TranslationError:
        text = tr.FALLBACK
    (gen / "Gen_C14.v").write_text(text)
    okg, _, _ = core.coqc(ctx, gen / "Gen_C14.v", [(gen, "PyxelGen")], 300)
    if not okg:
        (gen / "Gen_C14.v").write_text(tr.FALLBACK)
        core.coqc(ctx, gen / "Gen_C14.v", [(gen, "PyxelGen")], 300)
    ok, evals, se = core.coq_eval(ctx, "replay", emit_file([(c, res, mode != "default")]))
    if not ok:
        print("case file did not evaluate:", core.tail(se, 10))
        return 1
    bad = core.parse_int_list(evals[1]) != []
    print("model vs implementation:", "DIFFER" if core.parse_int_list(evals[0]) else "agree")
    print("specification (evaluated in Coq):", "VIOLATED" if bad else "holds")
    return 1 if bad else 0


def compile_gen(ctx: Ctx):
    core.ensure_lib(ctx, targets=["theories/Model/Charge.vo", "theories/Model/ChargeHeap.vo"])
    from translator import c14 as tr

    gen = ctx.build / "gen"
    gen.mkdir(parents=True, exist_ok=True)
    try:
        text = tr.translate(ctx.repo)
    except TranslationError:
        text = tr.FALLBACK
    (gen / "Gen_C14.v").write_text(text)
    okg, _, _ = core.coqc(ctx, gen / "Gen_C14.v", [(gen, "PyxelGen")], 300)
    if not okg:
        (gen / "Gen_C14.v").write_text(tr.FALLBACK)
        core.coqc(ctx, gen / "Gen_C14.v", [(gen, "PyxelGen")], 300)


def replay_heap(ctx: Ctx, case: dict, mode: str) -> int:
    c = {k: case[k] for k in ("rows", "cols", "ph", "pw", "ops")}
    c.update(heap=True, reset_via=case.get("reset_via", "charge"), stream=case.get("stream"))
    res = run_impl(ctx, [c], mode if mode in ("nojit", "checked") else "nojit", workers=1)[0]
    print("case:", json.dumps(c))
    print("implementation now returns:", json.dumps([{k: v for k, v in t.items() if k in ("o", "m", "args", "xr", "dfs")}
                                                     for t in res.get("trace", [])]))
    compile_gen(ctx)
    ok, evals, se = core.coq_eval(ctx, "replay", emit_hfile([(c, res)]))
    if not ok or len(evals) != 4:
        print("case file did not evaluate:", core.tail(se, 10))
        return 1
    bad = core.parse_int_list(evals[1]) != []
    print("model vs implementation:", "DIFFER" if core.parse_int_list(evals[0]) else "agree")
    print("specification (evaluated in Coq):", "VIOLATED" if bad else "holds",
          f"(first bad read {core.parse_int_list(evals[2])}, first foreign write {core.parse_int_list(evals[3])})")
    return 1 if bad else 0


META = dict(
    level_text=(
        "Coq theorems, for ALL operation sequences (induction over op lists, no bound on sizes), about an executable "
        "model over Q of Charge as coded after the repairs of C14-F4a/F4b/F5 (array/frame state, conversion at pixel "
        "centres of entries > 0, floor binning, the mask 0 <= index < n in front of the njit loop whose indexing is "
        "still modelled as unchecked, the cached `.array`, the array zeroed when a removal empties the frame): reads "
        "equal the per-pixel accumulator for non-negative additions and clusters ANYWHERE whatever the interleaving; "
        "with removals they equal the ledger (a removal debits exactly the clusters it takes out) and the ideal "
        "cache-free container, whose `.frame` they share; the out-of-bounds outcome is unreachable for every "
        "sequence; reads are pure; clusters outside the sensitive area change no pixel; a reset gives zero; binning "
        "credits floor(v/ph), floor(h/pw) with borders and centre round trip. The theorems are stated about the "
        "machine built from Gen_C14.v -- the subscript expressions, mask, threshold and centre formulas the "
        "translator reads in charge.py / geometry.py on every run -- and C14_source_is_model re-proves that these are "
        "the model's. That the rest of the model describes the Python is established by correspondence (= testing): "
        "generated op sequences run on a real detector.charge and are compared with the model inside Coq after "
        "every op; the implementation's reads are judged inside Coq against the accumulator / ideal container. "
        "Object identity: a second machine (Model/ChargeHeap.v) runs the same container on a small heap -- Charge._array "
        "is a reference, add_charge_array receives the caller's array OBJECT, reads hand out objects, and the caller may "
        "overwrite any object it holds, re-add it, modify an added DataFrame; theorems for ALL such sequences by a caller "
        "that writes only into what it owns: every observation equals that of the by-value history (an addition "
        "contributes the value its argument held at the time of the call), hence the accumulator / ledger; the caller's "
        "arrays and DataFrames hold exactly what the caller put there; a to_xarray result is a snapshot. What the source "
        "shares (in-place `+=` vs rebinding to the argument, what .array / __array__ / to_xarray return, any binding of "
        "self._array / self._frame to a parameter) is regenerated by the translator (hsrc) and C14_heap_source_is_model "
        "re-proves on every run that nothing the caller owns is kept or written."),
    level_note=(
        "Trusted: Coq kernel + vm_compute; the translator (fail closed), the correspondence harness and driver; numpy "
        "float sums are exact on the generated dyadic charge values; np.floor_divide is the floor of the exact "
        "quotient of the two binary64 values; pandas index semantics; out-of-bounds accesses are observed via numba's "
        "bounds check / plain numpy indexing (IndexError), with a sample in the default configuration in isolated "
        "processes. Not carried: negative array entries (outside the property's hypothesis: compared with the model, "
        "not judged); user-supplied DataFrames with arbitrary indexes; set_frame_values; writes through the views "
        "`.array` / np.asarray expose (modelled and compared, not judged)."),
    technique="Coq refinement + simulation proofs (state machine over Q vs accumulator / ledger / ideal container; heap "
              "machine with object identity vs the by-value machine), translator-regenerated index arithmetic and "
              "sharing audit, in-Coq correspondence/spec evaluation",
    design_ref="DESIGN.md section 6, C14",
)
