"""Implementation side of C19: directory creation (sequential, forced interleavings, truly concurrent
threads/processes), the writers called directly, and complete exposure / observation flows — always with
the timestamp source of create_output_directory frozen from outside."""
from __future__ import annotations

import itertools
import os
import pathlib
import shutil
import threading
import time
from datetime import datetime as _real_datetime
from pathlib import Path

import numpy as np

_COUNTER = itertools.count()
BUCKETS = ("photon", "charge", "pixel", "signal", "image")
ROWS, COLS = 3, 4


class _GiveUp(BaseException):
    """Raised from the mkdir wrapper when the retry loop exceeds its attempt budget."""


def _scratch(tag: str) -> Path:
    p = Path.cwd() / f"{tag}_{os.getpid()}_{next(_COUNTER)}"
    if p.exists():
        shutil.rmtree(p)
    p.mkdir(parents=True)
    return p


def _freeze(ts: str):
    """Freeze the clock seen by pyxel's output code.  However the code under test spells it - `from datetime import
    datetime`, `import datetime`, `import datetime as dt`, an alias of the class, in outputs.py or in another module
    of pyxel.outputs it was moved to - every module-level name of `pyxel.outputs*` bound to the datetime class or the
    datetime module is rebound to a frozen subclass / a proxy module (the import style is not a property-relevant
    observable)."""
    import datetime as _dtmod
    import sys
    import types

    import pyxel.outputs.outputs as po

    frozen = _real_datetime.strptime(ts, "%Y%m%d_%H%M%S")

    class FrozenDateTime(_real_datetime):
        @classmethod
        def now(cls, tz=None):
            return frozen if tz is None else frozen.replace(tzinfo=tz)

        @classmethod
        def today(cls):
            return frozen

        @classmethod
        def utcnow(cls):
            return frozen

    proxy = types.ModuleType("datetime")
    proxy.__dict__.update({k: v for k, v in vars(_dtmod).items() if not k.startswith("__")})
    proxy.datetime = FrozenDateTime
    for name, mod in list(sys.modules.items()):
        if mod is None or not (name == "pyxel.outputs" or name.startswith("pyxel.outputs.")):
            continue
        for k, v in list(vars(mod).items()):
            if v is _real_datetime or (isinstance(v, type) and issubclass(v, _real_datetime)
                                       and v.__name__ == "FrozenDateTime"):
                setattr(mod, k, FrozenDateTime)
            elif v is _dtmod or (isinstance(v, types.ModuleType) and v.__name__ == "datetime" and v is not _dtmod
                                 and hasattr(v, "datetime")):
                setattr(mod, k, proxy)
    return po


def _populate(parent: Path, pre):
    for k, name in enumerate(pre):
        if k % 3 == 2:
            (parent / name).write_bytes(b"a plain file with a colliding name")
        else:
            (parent / name).mkdir()


def _new_outputs(parent: Path, prefix: str):
    from pyxel.outputs import Outputs

    return Outputs(output_folder=parent, custom_dir_name=prefix)


# ------------------------------------------------------------------------------------------ directories


def dirs_seq(p):
    _freeze(p["ts"])
    parent = _scratch("dseq")
    _populate(parent, p["pre"])
    limit = len(p["pre"]) + len(p["prefixes"]) + 6
    orig = pathlib.Path.mkdir
    state = {"n": 0, "depth": 0}

    def counting(self, *a, **k):
        if state["depth"] or self.parent != parent:
            return orig(self, *a, **k)
        state["n"] += 1
        if state["n"] > limit:
            raise _GiveUp()
        state["depth"] = 1
        try:
            return orig(self, *a, **k)
        finally:
            state["depth"] = 0

    obs = []
    pathlib.Path.mkdir = counting
    try:
        for prefix in p["prefixes"]:
            state["n"] = 0
            before = set(os.listdir(parent))
            try:
                o = _new_outputs(parent, prefix)
                o.create_output_folder()
                d = Path(o.current_output_folder)
                obs.append(dict(name=d.name if d.parent == parent else str(d), failed=state["n"] - 1,
                                existed=d.name in before, is_dir=d.is_dir()))
            except _GiveUp:
                obs.append(None)
    finally:
        pathlib.Path.mkdir = orig
    return dict(obs=obs, listing=sorted(os.listdir(parent)))


def dirs_sched(p):
    """N threads; every mkdir attempt is one step released by the driver in the order of p['sched']."""
    _freeze(p["ts"])
    parent = _scratch("dsch")
    _populate(parent, p["pre"])
    n = len(p["prefixes"])
    turn = [threading.Semaphore(0) for _ in range(n)]
    done = threading.Semaphore(0)
    waiting = [threading.Event() for _ in range(n)]
    fin = [threading.Event() for _ in range(n)]
    tl = threading.local()
    orig = pathlib.Path.mkdir
    give_up = threading.Event()
    res = [None] * n

    def gated(self, *a, **k):
        i = getattr(tl, "idx", None)
        if i is None or getattr(tl, "depth", 0) or self.parent != parent:
            return orig(self, *a, **k)
        waiting[i].set()
        turn[i].acquire()
        waiting[i].clear()
        if give_up.is_set():
            raise _GiveUp()
        tl.depth = 1
        try:
            return orig(self, *a, **k)
        finally:
            tl.depth = 0
            done.release()

    def worker(i):
        tl.idx = i
        try:
            o = _new_outputs(parent, p["prefixes"][i])
            o.create_output_folder()
            d = Path(o.current_output_folder)
            res[i] = d.name if d.parent == parent else str(d)
        except _GiveUp:
            res[i] = None
        except BaseException as ex:  # noqa: BLE001
            res[i] = f"!{type(ex).__name__}"
        finally:
            fin[i].set()

    def settle(i):
        t0 = time.time()
        while not (fin[i].is_set() or waiting[i].is_set()):
            time.sleep(0.0005)
            if time.time() - t0 > 20:
                raise RuntimeError("creator neither blocked nor finished")

    pathlib.Path.mkdir = gated
    executed = []
    # C19_creators_bounded: no creator fails more than |fs0| + N times (+1 successful attempt)
    per_creator = len(p["pre"]) + n + 1
    attempts = [0] * n
    try:
        ths = [threading.Thread(target=worker, args=(i,), daemon=True) for i in range(n)]
        for t in ths:
            t.start()
        for i in range(n):
            settle(i)
        plan = list(p["sched"])
        k = 0
        while True:
            if k < len(plan):
                i = plan[k]
                k += 1
            else:
                rest = [j for j in range(n) if not fin[j].is_set()]
                if not rest:
                    break
                i = rest[0]
            if i >= n or fin[i].is_set():
                continue
            attempts[i] += 1
            if attempts[i] > per_creator:
                give_up.set()
                for j in range(n):
                    turn[j].release()
                break
            executed.append(i)
            turn[i].release()
            done.acquire()
            settle(i)
        for t in ths:
            t.join(20)
    finally:
        pathlib.Path.mkdir = orig
    return dict(executed=executed, obs=res, listing=sorted(os.listdir(parent)))


def _limit_attempts(parent: Path, limit: int):
    """Patch Path.mkdir so that one thread gives up after `limit` attempts inside `parent`."""
    orig = pathlib.Path.mkdir
    tl = threading.local()

    def limited(self, *a, **k):
        if getattr(tl, "depth", 0) or self.parent != parent:
            return orig(self, *a, **k)
        tl.n = getattr(tl, "n", 0) + 1
        if tl.n > limit:
            raise _GiveUp()
        tl.depth = 1
        try:
            return orig(self, *a, **k)
        finally:
            tl.depth = 0

    pathlib.Path.mkdir = limited
    return orig


def _proc_child(parent, prefix, ts, barrier, q, i, limit):
    try:
        _freeze(ts)
        _limit_attempts(Path(parent), limit)
        o = _new_outputs(Path(parent), prefix)
        barrier.wait(20)
        o.create_output_folder()
        d = Path(o.current_output_folder)
        q.put((i, d.name if str(d.parent) == str(parent) else str(d)))
    except BaseException as ex:  # noqa: BLE001
        q.put((i, f"!{type(ex).__name__}"))


def dirs_conc(p):
    """N unsynchronised creators (threads or forked processes) released by a barrier."""
    _freeze(p["ts"])
    parent = _scratch("dcon")
    _populate(parent, p["pre"])
    n = len(p["prefixes"])
    res = [None] * n
    limit = len(p["pre"]) + n + 6
    if p["how"] == "threads":
        bar = threading.Barrier(n)
        orig = _limit_attempts(parent, limit)

        def worker(i):
            try:
                o = _new_outputs(parent, p["prefixes"][i])
                bar.wait(20)
                o.create_output_folder()
                d = Path(o.current_output_folder)
                res[i] = d.name if d.parent == parent else str(d)
            except BaseException as ex:  # noqa: BLE001
                res[i] = f"!{type(ex).__name__}"

        ths = [threading.Thread(target=worker, args=(i,)) for i in range(n)]
        try:
            for t in ths:
                t.start()
            for t in ths:
                t.join(30)
        finally:
            pathlib.Path.mkdir = orig
    else:
        import multiprocessing as mp

        ctx = mp.get_context("fork")
        bar = ctx.Barrier(n)
        q = ctx.Queue()
        ps = [ctx.Process(target=_proc_child, args=(str(parent), p["prefixes"][i], p["ts"], bar, q, i, limit))
              for i in range(n)]
        for x in ps:
            x.start()
        for _ in range(n):
            try:
                i, name = q.get(timeout=30)
                res[i] = name
            except Exception:  # noqa: BLE001
                break
        for x in ps:
            x.join(10)
    return dict(obs=res, listing=sorted(os.listdir(parent)))


# ------------------------------------------------------------------------------------------ writers


def writer(p):
    import pyxel.outputs.utils as u

    w = p["writer"]
    folder = _scratch("wr")
    f64 = np.full((ROWS, COLS), 2.0)
    u8 = np.full((ROWS, COLS), 2, dtype=np.uint8)
    fn = getattr(u, w)
    if w.startswith("write_to_"):
        ext = w.removeprefix("write_to_")
        target = folder / f"detector_image.{ext}"
        kw = dict(filename=target, data=f64, overwrite=False)
        if w == "write_to_fits":
            kw["header"] = None
        call = lambda: fn(**kw)  # noqa: E731
    else:
        ext = p["ext"]
        target = folder / f"detector_image_array_1.{ext}"
        data = f64
        if w in ("to_png", "to_jpg"):
            data = u8
        elif w == "to_csv":
            import pandas as pd

            data = pd.DataFrame({"a": [2.0, 2.0]})
        elif w == "to_hdf":
            try:
                import h5py  # noqa: F401
            except ImportError:
                return dict(skip="h5py is not installed")
            from harness import pyx

            data = pyx.make_detector()
        call = lambda: fn(current_output_folder=folder, data=data, name="detector.image.array",  # noqa: E731
                          run_number=0)
    marker = b"PRE-EXISTING CONTENT THAT MUST SURVIVE\n"
    if p["exists"]:
        target.write_bytes(marker)
    raised = None
    try:
        call()
    except OSError as ex:           # FileExistsError, astropy's OSError for an existing file
        raised = type(ex).__name__
    except Exception as ex:  # noqa: BLE001
        return dict(error=f"{type(ex).__name__}: {ex}"[:300])
    files = sorted(os.listdir(folder))
    if files != [target.name] and not (files == [] and raised):
        return dict(error=f"unexpected files {files}, expected {target.name}")
    now = target.read_bytes() if target.exists() else None
    changed = bool(p["exists"]) and now != marker
    if raised:
        out = "Raised"
    elif (p["exists"] and not changed) or now is None:
        out = "Skipped"
    else:
        out = "Wrote"
    return dict(out=out, changed=changed, raised=raised)


# ------------------------------------------------------------------------------------------ flows


def _token(path: Path, pre_bytes: dict):
    """Integer token of a file: its pre-population token if untouched, the uniform value of a lossless
    array file (right shape and dtype only), -2 for lossy image formats, -1000 undecodable/mixed."""
    name = path.name
    raw = path.read_bytes()
    if name in pre_bytes and raw == pre_bytes[name][0]:
        return pre_bytes[name][1]
    ext = path.suffix.lower()
    try:
        if ext == ".npy":
            a = np.load(path)
        elif ext == ".fits":
            from astropy.io import fits

            a = np.asarray(fits.getdata(path))
        elif ext == ".txt":
            a = np.loadtxt(path, delimiter="|")
        elif ext in (".jpg", ".jpeg", ".png"):
            from PIL import Image

            Image.open(path).verify()
            return -2
        else:
            return -3
    except Exception:  # noqa: BLE001
        return -1000
    if a.shape != (ROWS, COLS) or a.size == 0:
        return -1000
    v = a.reshape(-1)[0]
    if not np.all(a == v) or float(v) != int(v):
        return -1000
    v = int(v)
    # bit-identical to the bucket it claims to be: the dtype must be the bucket's dtype
    want = np.dtype("uint16") if v % 16 == 4 else np.dtype("float64")
    if ext != ".txt" and (a.dtype.kind, a.dtype.itemsize) != (want.kind, want.itemsize):
        return -1000          # (FITS stores big-endian: the byte order is not part of the comparison)
    return v


ERR = {"NotImplementedError": "ENotImplemented", "FileExistsError": "EFileExists"}


def _classify(ex: BaseException) -> str:
    seen = set()
    cur = ex
    while cur is not None and id(cur) not in seen:
        seen.add(id(cur))
        nm = type(cur).__name__
        if nm in ERR:
            return ERR[nm]
        if isinstance(cur, OSError) and ("Failed to write" in str(cur) or "already exists" in str(cur)):
            return "EFileExists"
        cur = cur.__cause__ or cur.__context__
    return "EOther"


def _parse_output(loaded, mode, folder):
    """The /output node -> [[run, bucket, format, name]] (names relative to `folder` when inside it)."""
    rep = []
    for b, (da, vals) in loaded.items():
        dims = list(da.dims)
        fdim = "extension" if "extension" in dims else "data_format"
        if fdim not in dims:
            return dict(error=f"/output/{b}: no format dimension in {dims}")
        fmts = [str(x) for x in da.coords[fdim].values]
        rdims = [d for d in dims if d != fdim]
        if mode == "exposure":
            if rdims:
                return dict(error=f"/output/{b}: unexpected dims {dims}")
            runs = [None]
        else:
            if len(rdims) != 1:
                return dict(error=f"/output/{b}: unexpected dims {dims}")
            runs = [int(x) for x in da.coords[rdims[0]].values]
        arr = np.asarray(vals, dtype=object)
        arr = np.moveaxis(arr, dims.index(fdim), -1) if arr.ndim > 1 else arr
        by_ext = arr.size != len(runs) * len(fmts)
        if by_ext and (arr.size == 0 or arr.size % len(runs)):
            return dict(error=f"/output/{b}: {arr.size} names for {len(runs)} runs x formats {fmts}")
        # more (or fewer) names than the format coordinate announces: the node is ill-formed; report every
        # name under the format its extension says, so that the specification judges what is there
        arr = arr.reshape(len(runs), -1)
        for i, r in enumerate(runs):
            for j in range(arr.shape[1]):
                nm = str(arr[i, j])
                q = Path(nm)
                f = q.suffix.removeprefix(".") if by_ext else fmts[j]
                if q.is_absolute() and folder is not None:
                    nm = q.name if q.parent == folder else nm
                rep.append([0 if r is None else r, b, f, nm])
    return rep


def _settle(folder: Path, quiet: float = 0.3, limit: float = 6.0):
    """After a parallel computation failed, tasks of other runs may still be writing: wait until the
    directory has not changed for `quiet` seconds."""
    def snap():
        return sorted((q.name, q.stat().st_size) for q in folder.iterdir())

    t0 = time.time()
    last, since = snap(), time.time()
    while time.time() - t0 < limit:
        time.sleep(0.05)
        now = snap()
        if now != last:
            last, since = now, time.time()
        elif time.time() - since >= quiet:
            return


def _listing(folder: Path, pre_bytes: dict):
    files = []
    for q in sorted(folder.iterdir()):
        if q.is_file():
            files.append([q.name, _token(q, pre_bytes)])
        else:
            files.append([q.name + "/", -4])
    return files


def flow(p):
    import pyxel
    from harness import pyx
    from pyxel.outputs import ExposureOutputs, ObservationOutputs, Outputs

    _freeze(p.get("ts", "20240102_030405"))
    parent = _scratch("fl")
    req = [{f"detector.{b}.array": list(fmts) for b, fmts in dct} for dct in p["req"]]
    pre = p.get("pre", [])
    pre_bytes = {name: (f"PRE-EXISTING {k} {name}\n".encode() * 3, -10 - k) for k, name in enumerate(pre)}
    mode = p["mode"]
    nruns = int(p.get("nruns", 1))
    cls = ExposureOutputs if mode == "exposure" else ObservationOutputs
    outputs = cls(output_folder=parent, save_data_to_file=req)

    orig_create = Outputs.create_output_folder

    def create_and_populate(self):
        orig_create(self)
        if self is outputs:
            for name, (raw, _) in pre_bytes.items():
                (Path(self.current_output_folder) / name).write_bytes(raw)

    pipeline = pyx.make_pipeline({"charge_collection": [
        {"func": "verif_probes_c19.fill", "name": "fill", "arguments": {"run": 0}}]})
    detector = pyx.make_detector(rows=ROWS, cols=COLS)
    readout = pyx.make_readout(times=p.get("times", [1.0]))
    err, rep, crash = None, [], None
    Outputs.create_output_folder = create_and_populate
    try:
        if mode == "exposure":
            from pyxel.exposure import Exposure

            m = Exposure(readout=readout, outputs=outputs)
        else:
            from pyxel.observation import Observation, ParameterValues

            m = Observation(
                parameters=[ParameterValues(key="pipeline.charge_collection.fill.arguments.run",
                                            values=list(range(nruns)))],
                mode="sequential" if p.get("pmode") == "sequential" else "product",
                readout=readout, outputs=outputs, with_dask=(mode == "dask"))
        try:
            if mode == "dask":
                import dask

                with dask.config.set(scheduler=p.get("scheduler", "threads")):
                    dt = pyxel.run_mode(mode=m, detector=detector, pipeline=pipeline, with_inherited_coords=True)
                    out_node = dt["/output"] if "output" in dt.children else None
                    loaded = {}
                    if out_node is not None:
                        names = list(out_node.children)
                        arrs = dask.compute(*[out_node[b]["filename"].data for b in names])
                        for b, a in zip(names, arrs):
                            loaded[b] = (out_node[b]["filename"], np.asarray(a))
            else:
                dt = pyxel.run_mode(mode=m, detector=detector, pipeline=pipeline, with_inherited_coords=True)
                out_node = dt["/output"] if "output" in dt.children else None
                loaded = {}
                if out_node is not None:
                    for b in out_node.children:
                        da = out_node[b]["filename"]
                        loaded[b] = (da, np.asarray(da.values))
        except Exception as ex:  # noqa: BLE001
            err = _classify(ex)
            crash = f"{type(ex).__name__}: {ex}"[:300]
            loaded = {}
    finally:
        Outputs.create_output_folder = orig_create

    try:
        folder = Path(outputs.current_output_folder)
    except Exception:  # noqa: BLE001
        return dict(error="no output folder was created", detail=crash)
    rep = _parse_output(loaded, mode, folder)
    if isinstance(rep, dict):
        return rep
    if err is not None and mode == "dask":
        _settle(folder)
    files = _listing(folder, pre_bytes)
    return dict(err=err, rep=sorted(rep), files=files, detail=crash, folder_is_new=True)


# ------------------------------------------------------------------------------------------ histories


def _py_req(req):
    return [{f"detector.{b}.array": list(fmts) for b, fmts in dct} for dct in req]


def _apply_edit(outputs, parent: Path, e: dict):
    """One edit of the ONE outputs object: in place, or by assigning a modified deep copy."""
    import copy

    k = e["op"]
    if k == "folder":
        outputs.output_folder = parent / e["name"]
        return
    if k == "prefix":
        outputs.custom_dir_name = e["name"]
        return
    if k == "set":
        outputs.save_data_to_file = _py_req(e["req"])
        return
    inplace = bool(e.get("inplace", True))
    req = outputs.save_data_to_file if inplace else copy.deepcopy(outputs.save_data_to_file)
    key = f"detector.{e['b']}.array" if "b" in e else None
    if k == "append_dict":
        req.append(_py_req([e["dict"]])[0])
    elif k == "remove_dict":
        del req[e["i"]]
    elif k == "set_bucket":
        req[e["i"]][key] = list(e["fmts"])
    elif k == "remove_bucket":
        del req[e["i"]][key]
    elif k == "append_fmt":
        req[e["i"]][key].append(e["f"])
    elif k == "remove_fmt":
        req[e["i"]][key].remove(e["f"])
    else:
        raise ValueError(k)
    if not inplace:
        outputs.save_data_to_file = req


def hist(p):
    """Several simulations on ONE running-mode / Outputs object, with edits of the outputs in between."""
    import dask
    import pyxel
    from harness import pyx
    from pyxel.outputs import ExposureOutputs, ObservationOutputs, Outputs

    _freeze(p.get("ts", "20240102_030405"))
    parent = _scratch("hi")
    mode = p["mode"]
    nruns = int(p.get("nruns", 1))
    pre_by_dir: dict[str, dict] = {}          # relative directory -> {name: (bytes, token)}
    for d, names in p.get("world", []):
        (parent / d).mkdir(parents=True)
        pb = {}
        for k, name in enumerate(names):
            raw = f"FOREIGN {d} {k} {name}\n".encode() * 3
            (parent / d / name).write_bytes(raw)
            pb[name] = (raw, -10 - k)
        pre_by_dir[d] = pb
    cfg = p["cfg"]
    cls = ExposureOutputs if mode == "exposure" else ObservationOutputs
    outputs = cls(output_folder=parent / cfg["folder"], custom_dir_name=cfg["prefix"],
                  save_data_to_file=_py_req(cfg["req"]))
    readout = pyx.make_readout(times=[1.0])
    if mode == "exposure":
        from pyxel.exposure import Exposure

        m = Exposure(readout=readout, outputs=outputs)
    else:
        from pyxel.observation import Observation, ParameterValues

        m = Observation(
            parameters=[ParameterValues(key="pipeline.charge_collection.fill.arguments.run",
                                        values=list(range(nruns)))],
            mode="product", readout=readout, outputs=outputs, with_dask=(mode == "dask"))

    def rel(d: Path) -> str:
        try:
            return str(Path(d).relative_to(parent))
        except ValueError:
            return str(d)

    pending_pre = {"names": []}
    orig_create = Outputs.create_output_folder

    def create_and_populate(self):
        orig_create(self)
        if self is outputs:
            d = Path(self.current_output_folder)
            pb = {}
            for k, name in enumerate(pending_pre["names"]):
                raw = f"PRE-EXISTING {k} {name}\n".encode() * 3
                (d / name).write_bytes(raw)
                pb[name] = (raw, -10 - k)
            pre_by_dir[rel(d)] = pb

    def start(ep, pre):
        """run_mode once; returns (dir, data tree or None, err, detail)."""
        pending_pre["names"] = list(pre)
        pipeline = pyx.make_pipeline({"charge_collection": [
            {"func": "verif_probes_c19.fill", "name": "fill", "arguments": {"run": 0, "epoch": ep}}]})
        detector = pyx.make_detector(rows=ROWS, cols=COLS)
        try:
            dt = pyxel.run_mode(mode=m, detector=detector, pipeline=pipeline, with_inherited_coords=True)
            err, detail = None, None
        except Exception as ex:  # noqa: BLE001
            dt, err, detail = None, _classify(ex), f"{type(ex).__name__}: {ex}"[:300]
        # the directory this simulation works in is what the outputs object says after run_mode — also when it
        # is the one of the previous simulation (the specification then rejects it: not pairwise distinct)
        try:
            after = outputs.current_output_folder
        except Exception:  # noqa: BLE001
            return None, dt, err, detail or "no output folder"
        return Path(after), dt, err, detail

    def load(dt, lazy):
        out_node = dt["/output"] if "output" in dt.children else None
        loaded = {}
        if out_node is not None:
            names = list(out_node.children)
            if lazy:
                arrs = dask.compute(*[out_node[b]["filename"].data for b in names])
            else:
                arrs = [out_node[b]["filename"].values for b in names]
            for b, a in zip(names, arrs):
                loaded[b] = (out_node[b]["filename"], np.asarray(a))
        return loaded

    def record(ep, d, at, loaded, err, detail):
        rep = []
        if err is None:
            rep = _parse_output(loaded, mode, at)
            if isinstance(rep, dict):
                return rep
        elif mode == "dask":
            _settle(at)
        return dict(ep=ep, dir=rel(d), at=rel(at), err=err, rep=sorted(rep),
                    files=_listing(at, pre_by_dir.get(rel(at), {})), detail=detail)

    def written_to(loaded, default: Path) -> Path:
        parents = set()
        for _, (_, vals) in loaded.items():
            for nm in np.asarray(vals, dtype=object).reshape(-1):
                q = Path(str(nm))
                if q.is_absolute():
                    parents.add(q.parent)
        return parents.pop() if len(parents) == 1 else default

    recs, started, ep = [], [], 0
    Outputs.create_output_folder = create_and_populate
    try:
        with dask.config.set(scheduler=p.get("scheduler", "threads")):
            for o in p["ops"]:
                k = o[0]
                if k == "edit":
                    _apply_edit(outputs, parent, o[1])
                elif k in ("run", "start"):
                    d, dt, err, detail = start(ep, o[2])
                    if d is None:
                        return dict(error=f"simulation {ep}: {detail}")
                    lazy = mode == "dask"
                    if err is not None:
                        recs.append(record(ep, d, d, {}, err, detail))
                        started.append(None)
                    elif k == "run" or not lazy:
                        try:
                            loaded = load(dt, lazy)
                        except Exception as ex:  # noqa: BLE001
                            recs.append(record(ep, d, d, {}, _classify(ex), f"{type(ex).__name__}: {ex}"[:300]))
                        else:
                            recs.append(record(ep, d, written_to(loaded, d), loaded, None, None))
                        started.append(None)
                    else:
                        started.append((ep, d, dt))
                    ep += 1
                elif k == "compute":
                    i = o[1]
                    if i >= len(started) or started[i] is None:
                        continue
                    e0, d, dt = started[i]
                    started[i] = None
                    try:
                        loaded = load(dt, True)
                    except Exception as ex:  # noqa: BLE001
                        recs.append(record(e0, d, d, {}, _classify(ex), f"{type(ex).__name__}: {ex}"[:300]))
                    else:
                        recs.append(record(e0, d, written_to(loaded, d), loaded, None, None))
                else:
                    raise ValueError(k)
                if recs and "error" in recs[-1]:
                    return recs[-1]
    finally:
        Outputs.create_output_folder = orig_create
    # a parallel observation that failed: tasks of its other runs may have gone on writing into ITS directory
    # after the exception surfaced — what it left is what is there at the end
    loose = [x for x in recs if x["err"] is not None and mode == "dask"]
    for x in loose:
        _settle(parent / x["at"], quiet=0.2, limit=3.0)
        x["files"] = _listing(parent / x["at"], pre_by_dir.get(x["at"], {}))
    final = []
    for top in sorted(parent.iterdir()):
        if top.is_dir():
            for d in sorted(top.iterdir()):
                if d.is_dir():
                    final.append([rel(d), _listing(d, pre_by_dir.get(rel(d), {}))])
    return dict(recs=recs, final=final)


# ------------------------------------------------------------------------------------------ automatic numbering


def auto(p):
    """A to_* writer called with run_number=None (apply_run_number globs for the next free number)."""
    import pyxel.outputs.utils as u

    w, ext = p["writer"], p["ext"]
    folder = _scratch("au")
    prefix = "detector_image_array_"
    pre = {}
    for k, mid in enumerate(p["mids"]):
        raw = f"NUMBERED {k} {mid}\n".encode() * 2
        (folder / f"{prefix}{mid}.{ext}").write_bytes(raw)
        pre[f"{prefix}{mid}.{ext}"] = raw
    data = np.full((ROWS, COLS), 2.0)
    if w in ("to_png", "to_jpg"):
        data = np.full((ROWS, COLS), 2, dtype=np.uint8)
    elif w == "to_csv":
        import pandas as pd

        data = pd.DataFrame({"a": [2.0, 2.0]})
    try:
        ret = getattr(u, w)(current_output_folder=folder, data=data, name="detector.image.array",
                            with_auto_suffix=True, run_number=None)
    except OSError as ex:           # refused (FileExistsError): no file was produced
        now = {q.name: q.read_bytes() for q in folder.iterdir()}
        return dict(new="!" + type(ex).__name__, intact=all(now.get(n) == raw for n, raw in pre.items()),
                    created=len(set(now) - set(pre)))
    except Exception as ex:  # noqa: BLE001
        return dict(error=f"{type(ex).__name__}: {ex}"[:300])
    name = Path(ret).name
    if not (name.startswith(prefix) and name.endswith("." + ext)):
        return dict(error=f"unexpected returned name {name}")
    now = {q.name: q.read_bytes() for q in folder.iterdir()}
    intact = all(now.get(n) == raw for n, raw in pre.items())
    return dict(new=name[len(prefix):-len(ext) - 1], intact=intact, created=len(set(now) - set(pre)))


def handle(p):
    kind = p["kind"]
    if kind == "dirs_seq":
        return dirs_seq(p)
    if kind == "dirs_sched":
        return dirs_sched(p)
    if kind == "dirs_conc":
        return dirs_conc(p)
    if kind == "writer":
        return writer(p)
    if kind == "flow":
        return flow(p)
    if kind == "hist":
        return hist(p)
    if kind == "auto":
        return auto(p)
    raise ValueError(kind)
