"""Implementation side of C20: the real fit_into_array / load_cropped_and_aligned_image / loading
models (called directly and through a whole Exposure run) / load_image / load_table / load_datacube on
files written by independent writers (numpy.save, numpy.savetxt, astropy writeto, PIL, plain text join).

Values: a case may carry `scale` (1 or 4): the arrays handed to the implementation are data / scale
(quarter values are exact in binary) and the canonical output is output * scale as integers, so that the
Coq side only sees integers while the implementation sees non-integral floats."""
import itertools
import os
import time

import numpy as np

_counter = itertools.count()
DELIM = {"tab": "\t", "space": " ", "comma": ",", "bar": "|", "semicolon": ";"}
# modification times given to the files of a history: T0 + dt milliseconds (T0 = a whole second, two hours ago)
T0_NS = (int(time.time()) - 7200) * 10**9


def _canon(arr, scale=1):
    a = np.asarray(arr)
    if a.ndim != 2:
        return {"raise": f"ndim:{a.ndim}"}
    if a.dtype.kind not in "fiub":
        return {"raise": f"dtype:{a.dtype}"}
    a = a.astype(float) * scale
    if not np.all(np.isfinite(a)) or not np.all(a == np.round(a)):
        return {"raise": "nonint"}
    return {"out": [[int(v) for v in row] for row in a], "shape": [int(a.shape[0]), int(a.shape[1])]}


def _exc(ex):
    n = type(ex).__name__
    if isinstance(ex, FileNotFoundError):
        n = "FileNotFoundError"
    elif isinstance(ex, ValueError):
        n = "ValueError"
    return {"raise": n, "msg": str(ex)[:160]}


def _unique(stem, ext):
    return os.path.abspath(f"c20_{os.getpid()}_{next(_counter)}_{stem}{ext}")


def _arr(p):
    a = np.array(p["data"], dtype=float).reshape(p["ay"], p["ax"]) / p.get("scale", 1)
    dt = p.get("dtype")
    if dt:
        a = a.astype(dt)
    return a


def _detector(rows, cols, time_step=1.0):
    from harness.pyx import make_detector

    det = make_detector("ccd", rows=rows, cols=cols)
    det.set_readout(times=[1.0], start_time=0.0)
    det.time_step = float(time_step)
    return det


def _exposure(shape, models, times):
    """One whole Exposure run (pyxel.run_mode) of a pipeline holding the loading model(s)."""
    from harness.pyx import make_detector, make_pipeline, make_readout, run_exposure

    det = make_detector("ccd", rows=shape[0], cols=shape[1])
    return run_exposure(det, make_pipeline(models), make_readout(times=times))["bucket"]


def _call_loader(via, fn, shape, py, px, align, allow, tm=(1, 1, 1), as_path=False):
    """One load through the requested entry point; returns the placed array.
    tm = (time_step, time_scale, multiplier): the loading models scale by time_step / time_scale (* multiplier)."""
    from pyxel.util import load_cropped_and_aligned_image

    if as_path:
        from pathlib import Path

        fn = Path(fn)
    step, tscale, mult = tm
    if via == "lcai":
        return load_cropped_and_aligned_image(shape=tuple(shape), filename=fn, position_x=px, position_y=py,
                                              align=align, allow_smaller_array=allow)
    if via == "lcai_pos":      # positional call, defaults left out (another lru_cache key for the same request)
        if align is None and allow:
            return load_cropped_and_aligned_image(tuple(shape), fn, px, py)
        return load_cropped_and_aligned_image(tuple(shape), fn, px, py, align, allow)
    if via == "photon":
        from pyxel.models.photon_collection import load_image as model_load_image

        det = _detector(shape[0], shape[1], step)
        model_load_image(det, image_file=fn, position=(py, px), align=align, multiplier=float(mult),
                         time_scale=float(tscale))
        return det.photon.array
    if via == "charge":
        from pyxel.models.charge_generation import load_charge

        det = _detector(shape[0], shape[1], step)
        load_charge(det, filename=fn, position=(py, px), align=align, time_scale=float(tscale))
        return det.charge.array
    if via in ("pipe_photon", "pipe_charge"):
        # a whole run: readout time = step, so that time_step = step in the single readout
        if via == "pipe_photon":
            models = {"photon_collection": [dict(
                func="pyxel.models.photon_collection.load_image", name="load_image",
                arguments=dict(image_file=str(fn), position=[py, px], align=align, multiplier=float(mult),
                               time_scale=float(tscale)))]}
            return _exposure(shape, models, [float(step)])["photon"].isel(time=0).to_numpy()
        models = {"charge_generation": [dict(
            func="pyxel.models.charge_generation.load_charge", name="load_charge",
            arguments=dict(filename=str(fn), position=[py, px], align=align, time_scale=float(tscale)))]}
        return _exposure(shape, models, [float(step)])["charge"].isel(time=0).to_numpy()
    raise ValueError(via)


def _write_image(fn, a, dt_ms=None):
    """Write array `a` to fn in the format its extension names; optionally force the modification time."""
    ext = os.path.splitext(fn)[1].lower()
    if ext == ".npy":
        with open(fn, "wb") as fh:          # (np.save(name) would append ".npy" to a name ending in ".NPY")
            np.save(fh, a)
    elif ext == ".fits":
        from astropy.io import fits

        fits.writeto(fn, a, overwrite=True)
    elif ext in (".txt", ".data", ".csv"):
        np.savetxt(fn, a, delimiter={".txt": ",", ".data": " ", ".csv": ";"}[ext])
    elif ext in (".png", ".bmp", ".tiff", ".tif"):
        from PIL import Image

        Image.fromarray(np.asarray(a).astype(np.uint8), mode="L").save(fn)      # 8-bit grey levels, lossless
    else:
        raise ValueError(ext)
    if dt_ms is not None:
        t = T0_NS + int(dt_ms) * 10**6
        os.utime(fn, ns=(t, t))


def handle_fit(p):
    a = _arr(p)
    py, px = p["pos"]
    via = p.get("path", "fit")
    sc = p.get("scale", 1)
    try:
        if via == "fit":
            from pyxel.util import fit_into_array

            out = fit_into_array(array=a, output_shape=(p["oy"], p["ox"]), relative_position=(py, px),
                                 align=p["align"], allow_smaller_array=p["allow"])
        else:
            fn = _unique("img", p.get("ext", ".npy"))
            _write_image(fn, a)
            try:
                out = _call_loader(via, fn, (p["oy"], p["ox"]), py, px, p["align"], p["allow"],
                                   tuple(p.get("tm", (1, 1, p.get("mult", 1)))), p.get("as_path", False))
            finally:
                os.unlink(fn)
        return _canon(out, sc)
    except Exception as ex:  # noqa: BLE001
        return _exc(ex)


def handle_steps(p):
    """One Exposure run with several readout times: the loading model runs once per readout with that readout's
    time_step; the photon / charge bucket of every readout is returned (charge accumulates over the steps)."""
    a = _arr(p)
    py, px = p["pos"]
    fn = _unique("img", p.get("ext", ".npy"))
    try:
        _write_image(fn, a)
        tscale = float(p["tscale"])
        if p["path"] == "pipe_photon":
            models = {"photon_collection": [dict(
                func="pyxel.models.photon_collection.load_image", name="load_image",
                arguments=dict(image_file=fn, position=[py, px], align=p["align"], multiplier=float(p["mult"]),
                               time_scale=tscale))]}
            var = "photon"
        else:
            models = {"charge_generation": [dict(
                func="pyxel.models.charge_generation.load_charge", name="load_charge",
                arguments=dict(filename=fn, position=[py, px], align=p["align"], time_scale=tscale))]}
            var = "charge"
        bucket = _exposure((p["oy"], p["ox"]), models, [float(t) for t in p["times"]])
        arr = bucket[var].to_numpy()
        return {"steps": [_canon(arr[k], p.get("scale", 1)) for k in range(arr.shape[0])]}
    except Exception as ex:  # noqa: BLE001
        return {"steps": [_exc(ex)] * len(p["times"])}
    finally:
        if os.path.exists(fn):
            os.unlink(fn)


def _raw_load(via, fn, as_path=False):
    if as_path:
        from pathlib import Path

        fn = Path(fn)
    if via == "image":
        from pyxel.inputs import load_image

        return load_image(fn)
    if via == "table":
        from pyxel.inputs import load_table

        return load_table(fn).to_numpy()
    if via == "psf":
        # the model photon_collection.load_psf reads its kernel anew at every run: a 1x1 scene holding 1 photon
        # convolved ('same' mode) with a kernel of odd shape returns the kernel's central value; instead of
        # decoding a convolution the kernel is observed where the model reads it
        from pyxel.models.photon_collection import point_spread_function as psf_mod

        seen = {}
        orig = psf_mod.apply_psf

        def spy(array, psf, normalize_kernel=True):
            seen["psf"] = np.array(psf)
            return orig(array=array, psf=psf, normalize_kernel=normalize_kernel)

        psf_mod.apply_psf = spy
        try:
            det = _detector(3, 3)
            det.photon.array = np.ones((3, 3))
            psf_mod.load_psf(det, filename=fn, normalize_kernel=False)
        finally:
            psf_mod.apply_psf = orig
        return seen["psf"]
    raise ValueError(via)


def handle_memo(p):
    """A history of writes and loads in this one process."""
    from pyxel.util import load_cropped_and_aligned_image

    if hasattr(load_cropped_and_aligned_image, "cache_clear"):
        load_cropped_and_aligned_image.cache_clear()      # = a fresh process (mstate0)
    tag = f"{os.getpid()}_{next(_counter)}"
    real = {}
    res = []
    sc = p.get("scale", 1)
    name_of = lambda n: real.setdefault(n, os.path.abspath(f"c20m_{tag}_{n}"))
    try:
        for ev in p["events"]:
            if "w" in ev:
                _write_image(name_of(ev["w"]), _arr(dict(ev, scale=sc)), ev.get("dt"))
            elif "r" in ev:
                try:
                    res.append(_canon(_raw_load(ev["via"], name_of(ev["r"]), ev.get("as_path", False)), sc))
                except Exception as ex:  # noqa: BLE001
                    res.append(_exc(ex))
            else:
                q = ev["l"]
                try:
                    out = _call_loader(p.get("via", "lcai"), name_of(q["file"]), q["shape"], q["py"], q["px"],
                                       q["align"], q["allow"], as_path=q.get("as_path", False))
                    res.append(_canon(out, sc))
                except Exception as ex:  # noqa: BLE001
                    res.append(_exc(ex))
    finally:
        for fn in real.values():
            if os.path.exists(fn):
                os.unlink(fn)
    return {"results": res}


def _write(fmt, delim, table, fn, p):
    sc = p.get("scale", 1)
    a = np.array(table, dtype=float) / sc
    if p.get("dtype"):
        a = a.astype(p["dtype"])
    if fmt == "npy":
        with open(fn, "wb") as fh:
            np.save(fh, a)
    elif fmt == "fits":
        from astropy.io import fits

        hdus = p.get("hdus", "primary")
        if hdus == "primary":
            fits.writeto(fn, a, overwrite=True)
        elif hdus == "ext1":          # empty primary HDU, the image in the first extension
            fits.HDUList([fits.PrimaryHDU(), fits.ImageHDU(a, name="RAW")]).writeto(fn, overwrite=True)
        elif hdus == "two":           # image in the primary HDU, another image behind it
            fits.HDUList([fits.PrimaryHDU(a), fits.ImageHDU(a[::-1, ::-1] + 1, name="OTHER")]).writeto(fn, overwrite=True)
        else:
            raise ValueError(hdus)
    elif fmt == "fitstable":
        from astropy.table import Table

        Table(rows=[[float(v) / sc for v in row] for row in table]).write(fn, format="fits", overwrite=True)
    elif fmt in ("png", "bmp", "tiff", "tif"):
        from PIL import Image

        Image.fromarray(a.astype(np.uint8), mode="L").save(fn)
    elif fmt in ("jpg", "jpeg"):          # lossy: only uniform grey pictures come back exactly
        from PIL import Image

        Image.fromarray(a.astype(np.uint8), mode="L").save(fn, quality=100)
    elif fmt == "xlsx":
        import pandas as pd

        pd.DataFrame(a).to_excel(fn, header=bool(p.get("header")), index=False)
    else:
        sep = DELIM[delim]
        style = p.get("style", "int")
        with open(fn, "w") as fh:
            if p.get("header"):
                fh.write(sep.join(f"c{k}" for k in range(len(table[0]))) + "\n")
            for row in a.tolist():
                if style == "int":
                    cells = [str(int(v)) for v in row]
                elif style == "repr":
                    cells = [repr(float(v)) for v in row]
                elif style == "sci":      # numpy.savetxt's default format
                    cells = ["%.18e" % v for v in row]
                else:
                    raise ValueError(style)
                fh.write(sep.join(cells) + ("\n" if not p.get("crlf") else "\r\n"))


def handle_roundtrip(p):
    ext = {"npy": ".npy", "fits": ".fits", "fitstable": ".fits", "txt": ".txt", "data": ".data", "csv": ".csv",
           "png": ".png", "bmp": ".bmp", "tiff": ".tiff", "tif": ".tif", "xlsx": ".xlsx", "jpg": ".jpg", "jpeg": ".jpeg"}[p["fmt"]]
    if p.get("upper"):
        ext = ext.upper()
    fn = _unique("rt", ext)
    try:
        _write(p["fmt"], p.get("delim"), p["table"], fn, p)
        arg = fn
        if p.get("as_path"):
            from pathlib import Path

            arg = Path(fn)
        if p["loader"] == "image":
            from pyxel.inputs import load_image

            out = load_image(arg)
        elif p["loader"] == "table":
            from pyxel.inputs import load_table

            out = load_table(arg, header=bool(p.get("header"))).to_numpy()
        else:
            raise ValueError(p["loader"])
        return _canon(out, p.get("scale", 1))
    except Exception as ex:  # noqa: BLE001
        return _exc(ex)
    finally:
        if os.path.exists(fn):
            os.unlink(fn)


def handle_cube(p):
    """3-D .npy through load_datacube (accepted, returned whole) and through load_image (returned as stored)."""
    fn = _unique("cube", ".npy")
    try:
        a = np.array(p["cube"], dtype=float)
        with open(fn, "wb") as fh:
            np.save(fh, a)
        if p["loader"] == "datacube":
            from pyxel.inputs import load_datacube

            out = np.asarray(load_datacube(fn))
        else:
            from pyxel.inputs import load_image

            out = np.asarray(load_image(fn))
        if out.ndim != 3:
            return {"raise": f"ndim:{out.ndim}"}
        # planes stacked row-wise: the Coq side compares a (planes*rows) x cols table + the shape
        flat = out.reshape(out.shape[0] * out.shape[1], out.shape[2])
        r = _canon(flat)
        r["shape3"] = [int(s) for s in out.shape]
        return r
    except Exception as ex:  # noqa: BLE001
        return _exc(ex)
    finally:
        if os.path.exists(fn):
            os.unlink(fn)


def handle_text(p):
    fn = _unique("txt", p.get("ext", ".txt"))
    try:
        with open(fn, "w") as fh:
            fh.write(p["text"])
        if p.get("loader", "image") == "image":
            from pyxel.inputs import load_image

            return _canon(load_image(fn), p.get("scale", 1))
        from pyxel.inputs import load_table

        return _canon(load_table(fn).to_numpy(), p.get("scale", 1))
    except Exception as ex:  # noqa: BLE001
        return _exc(ex)
    finally:
        if os.path.exists(fn):
            os.unlink(fn)


def handle(p):
    import warnings

    warnings.filterwarnings("ignore")
    k = p["kind"]
    if k == "fit":
        return handle_fit(p)
    if k == "steps":
        return handle_steps(p)
    if k == "memo":
        return handle_memo(p)
    if k == "roundtrip":
        return handle_roundtrip(p)
    if k == "cube":
        return handle_cube(p)
    if k == "text":
        return handle_text(p)
    raise ValueError(k)
