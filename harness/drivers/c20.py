"""Implementation side of C20: the real fit_into_array / load_cropped_and_aligned_image / loading
models / load_image / load_table on files written by independent writers (numpy.save, astropy
writeto, plain text join)."""
import itertools
import os

import numpy as np

_counter = itertools.count()
DELIM = {"tab": "\t", "space": " ", "comma": ",", "bar": "|", "semicolon": ";"}


def _canon(arr):
    a = np.asarray(arr)
    if a.ndim != 2:
        return {"raise": f"ndim:{a.ndim}"}
    if a.dtype.kind not in "fiub":
        return {"raise": f"dtype:{a.dtype}"}
    if not np.all(np.isfinite(a)) or not np.all(a == np.round(a)):
        return {"raise": "nonint"}
    return {"out": [[int(v) for v in row] for row in a], "shape": [int(a.shape[0]), int(a.shape[1])]}


def _exc(ex):
    n = type(ex).__name__
    if isinstance(ex, FileNotFoundError):
        n = "FileNotFoundError"
    elif isinstance(ex, ValueError):
        n = "ValueError"
    return {"raise": n, "msg": str(ex)[:160]}


def _unique(stem, ext):
    return os.path.abspath(f"c20_{os.getpid()}_{next(_counter)}_{stem}{ext}")


def _arr(p):
    return np.array(p["data"], dtype=float).reshape(p["ay"], p["ax"])


def _detector(rows, cols):
    from harness.pyx import make_detector

    det = make_detector("ccd", rows=rows, cols=cols)
    det.set_readout(times=[1.0], start_time=0.0)
    det.time_step = 1.0
    return det


def _call_loader(via, fn, shape, py, px, align, allow, mult=1):
    """One load through the requested entry point; returns the placed array."""
    from pyxel.util import load_cropped_and_aligned_image

    if via == "lcai":
        return load_cropped_and_aligned_image(shape=tuple(shape), filename=fn, position_x=px, position_y=py,
                                              align=align, allow_smaller_array=allow)
    det = _detector(shape[0], shape[1])
    if via == "photon":
        from pyxel.models.photon_collection import load_image as model_load_image

        model_load_image(det, image_file=fn, position=(py, px), align=align, multiplier=float(mult))
        return det.photon.array
    if via == "charge":
        from pyxel.models.charge_generation import load_charge

        load_charge(det, filename=fn, position=(py, px), align=align, time_scale=1.0 / mult)
        return det.charge.array
    raise ValueError(via)


def handle_fit(p):
    a = _arr(p)
    py, px = p["pos"]
    via = p.get("path", "fit")
    try:
        if via == "fit":
            from pyxel.util import fit_into_array

            out = fit_into_array(array=a, output_shape=(p["oy"], p["ox"]), relative_position=(py, px),
                                 align=p["align"], allow_smaller_array=p["allow"])
        else:
            fn = _unique("img", ".npy")
            np.save(fn, a)
            try:
                out = _call_loader(via, fn, (p["oy"], p["ox"]), py, px, p["align"], p["allow"], p.get("mult", 1))
            finally:
                os.unlink(fn)
        return _canon(out)
    except Exception as ex:  # noqa: BLE001
        return _exc(ex)


def handle_memo(p):
    """A history of writes and loads in this one process."""
    from pyxel.util import load_cropped_and_aligned_image

    if hasattr(load_cropped_and_aligned_image, "cache_clear"):
        load_cropped_and_aligned_image.cache_clear()      # = a fresh process (mstate0)
    tag = f"{os.getpid()}_{next(_counter)}"
    real = {}
    res = []
    try:
        for ev in p["events"]:
            if "w" in ev:
                fn = real.setdefault(ev["w"], os.path.abspath(f"c20m_{tag}_{ev['w']}"))
                np.save(fn, _arr(ev))
            else:
                q = ev["l"]
                fn = real.get(q["file"], os.path.abspath(f"c20m_{tag}_{q['file']}"))
                try:
                    out = _call_loader(p.get("via", "lcai"), fn, q["shape"], q["py"], q["px"], q["align"], q["allow"])
                    res.append(_canon(out))
                except Exception as ex:  # noqa: BLE001
                    res.append(_exc(ex))
    finally:
        for fn in real.values():
            if os.path.exists(fn):
                os.unlink(fn)
    return {"results": res}


def _write(fmt, delim, table, fn):
    a = np.array(table, dtype=float)
    if fmt == "npy":
        np.save(fn, a)
    elif fmt == "fits":
        from astropy.io import fits

        fits.writeto(fn, a, overwrite=True)
    elif fmt == "fitstable":
        from astropy.table import Table

        Table(rows=[[float(v) for v in row] for row in table]).write(fn, format="fits", overwrite=True)
    else:
        sep = DELIM[delim]
        with open(fn, "w") as fh:
            for row in table:
                fh.write(sep.join(str(int(v)) for v in row) + "\n")


def handle_roundtrip(p):
    ext = {"npy": ".npy", "fits": ".fits", "fitstable": ".fits", "txt": ".txt", "data": ".data", "csv": ".csv"}[p["fmt"]]
    fn = _unique("rt", ext)
    try:
        _write(p["fmt"], p.get("delim"), p["table"], fn)
        if p["loader"] == "image":
            from pyxel.inputs import load_image

            out = load_image(fn)
        else:
            from pyxel.inputs import load_table

            out = load_table(fn).to_numpy()
        return _canon(out)
    except Exception as ex:  # noqa: BLE001
        return _exc(ex)
    finally:
        if os.path.exists(fn):
            os.unlink(fn)


def handle_text(p):
    fn = _unique("txt", p.get("ext", ".txt"))
    try:
        with open(fn, "w") as fh:
            fh.write(p["text"])
        from pyxel.inputs import load_image

        return _canon(load_image(fn))
    except Exception as ex:  # noqa: BLE001
        return _exc(ex)
    finally:
        if os.path.exists(fn):
            os.unlink(fn)


def handle(p):
    import warnings

    warnings.filterwarnings("ignore")
    k = p["kind"]
    if k == "fit":
        return handle_fit(p)
    if k == "memo":
        return handle_memo(p)
    if k == "roundtrip":
        return handle_roundtrip(p)
    if k == "text":
        return handle_text(p)
    raise ValueError(k)
