"""Implementation side of C05: build a real Observation from Python objects, run it through pyxel.run_mode
-- sequentially (with_dask=False) or, for cases with "dask": true, on the dask path (with_dask=True under the
synchronous scheduler, so that the probe trace of one pipeline run is contiguous) -- and report (a) the values every run actually received
(recorded by the probe model verif_probes_c05.observe) and (b) the complete label -> data map read
back from the returned DataTree with .isel/.sel.  All numbers are exact multiples of 1/8 and are
reported as integer numerators in eighths."""
import itertools
import os

import numpy as np

RESERVED = ("time", "y", "x")


UNIT = dict(off=0.0, scale=8.0)      # value = off + n / scale; set per case by handle()


def _val(e, as_int):
    """n -> python value"""
    if isinstance(e, list):
        return [_val(x, as_int) for x in e]
    if as_int and UNIT["off"] == 0.0 and e % 8 == 0:
        return e // 8
    return UNIT["off"] + e / UNIT["scale"]


def _eighths(x):
    from verif_probes_c05 import _eighths as f

    if isinstance(x, (list, tuple, np.ndarray)):
        return [_eighths(y) for y in x]
    if isinstance(x, np.generic):
        x = x.item()
    r = f(x, UNIT["off"], UNIT["scale"])
    return -1 if r is None else r


def _set_det(detector, path, value):
    obj = detector
    parts = path.split(".")
    for p in parts[:-1]:
        obj = getattr(obj, p)
    setattr(obj, parts[-1], value)


def build(case):
    from harness import pyx
    from pyxel.observation import ParameterValues

    det = pyx.make_detector(rows=1, cols=2)
    spec = {}
    for pr in case["probes"]:
        args = {k: _val(v, False) for k, v in pr["args"].items()}
        args.update(slots=list(pr["slots"]), base=pr["base"], off=UNIT["off"], scale=UNIT["scale"])
        spec.setdefault(pr["group"], []).append(dict(func="verif_probes_c05.observe", name=pr["name"], arguments=args))
    pipe = pyx.make_pipeline(spec)
    for s in case["slots"]:
        if s["key"].startswith("detector."):
            v = _val(s["default"], False)
            _set_det(det, s["key"][len("detector."):], tuple(v) if isinstance(v, list) else v)
    params = []
    for p in case["params"]:
        if p["kind"] == "under":
            values = "_"
        elif p["kind"] == "unders":
            values = ["_"] * p["n"]
        elif p.get("expr"):
            values = p["expr"]
        else:
            values = [_val(v, p.get("ints", False)) for v in p["values"]]
        params.append(ParameterValues(key=p["key"], values=values, enabled=p["enabled"]))
    return det, pipe, params


def dump_result(dt):
    """Every entry of the result: all parameter coordinates (labels) and the pixel data under them."""
    # with_inherited_coords=False keeps the buckets in the root group
    ds = (dt["/bucket"] if "bucket" in dt.children else dt).to_dataset()
    pixel = ds["pixel"]
    pdims = [d for d in pixel.dims if d not in RESERVED]
    names = [c for c in ds.coords if c not in RESERVED and not str(c).startswith("dim_")]
    entries = []
    for pos in itertools.product(*[range(ds.sizes[d]) for d in pdims]):
        sub = ds.isel(dict(zip(pdims, pos)))
        label = []
        for c in names:
            co = sub.coords[c]
            if not set(co.dims) <= {d for d in co.dims if str(d).startswith("dim_")}:
                # a coordinate that still spans a parameter dimension does not label this entry
                continue
            v = co.values
            is_index = (c in pdims) and (c == "id" or str(c).endswith("_id"))
            if is_index:
                label.append([str(c), "i", int(v)])
            else:
                label.append([str(c), "v", _eighths(v.tolist())])
        arr = np.asarray(sub["pixel"].values, dtype=float).reshape(-1)
        if arr.size == 0 or np.isnan(arr).any() or not np.all(arr == arr[0]) or arr[0] != int(arr[0]):
            data = -999
        else:
            data = int(arr[0])
        # the same entry addressed by label (.sel) on the dimension coordinates must be the same data
        try:
            sel = ds["pixel"].sel({d: ds[d].values[i] for d, i in zip(pdims, pos) if d in ds.coords})
            a2 = np.asarray(sel.values, dtype=float).reshape(-1)
            if a2.shape != arr.shape or not np.array_equal(a2, arr):
                data = -777
        except Exception:  # noqa: BLE001
            data = -778
        entries.append(dict(label=sorted(label), data=data))
    return entries


def _param_values(p):
    from pyxel.observation import ParameterValues

    if p["kind"] == "under":
        values = "_"
    elif p["kind"] == "unders":
        values = ["_"] * p["n"]
    elif p.get("expr"):
        values = p["expr"]
    else:
        values = [_val(v, p.get("ints", False)) for v in p["values"]]
    return ParameterValues(key=p["key"], values=values, enabled=p["enabled"])


def _write_table(case, tag=""):
    tab = UNIT["off"] + np.array(case["table"], dtype=float) / UNIT["scale"]
    if case.get("file", "npy") == "npy":
        fname = os.path.abspath(f"c05_table{tag}.npy")
        np.save(fname, tab)
    else:
        fname = os.path.abspath(f"c05_table{tag}.txt")
        with open(fname, "w") as fh:
            for row in tab:
                fh.write(" ".join(repr(float(x)) for x in row) + "\n")
    return fname


def _run_once(obs, det, pipe, case):
    """One pyxel.run_mode of the (possibly already used) Observation object -> what it executed and returned."""
    import pyxel
    import verif_probes_c05 as vp

    vp.reset()
    raised = None
    entries = []
    msg = ""
    try:
        if bool(obs.with_dask):
            import dask

            with dask.config.set(scheduler="synchronous"):
                dt = pyxel.run_mode(mode=obs, detector=det, pipeline=pipe, with_inherited_coords=True)
                dt = dt.compute() if hasattr(dt, "compute") else dt
                entries = dump_result(dt)
        else:
            dt = pyxel.run_mode(mode=obs, detector=det, pipeline=pipe,
                                with_inherited_coords=bool(case.get("inherit", True)))
            entries = dump_result(dt)
    except Exception as ex:  # noqa: BLE001
        raised = type(ex).__name__
        msg = str(ex)[:200]
    nprobe = max(1, len(case["probes"]))
    runs = []
    tr = list(vp.TRACE)
    for k in range(0, len(tr) - nprobe + 1, nprobe):
        rec = []
        for e in tr[k:k + nprobe]:
            for r in e["received"]:
                fl = [(-1 if x is None else x) for x in r["eighths"]]
                rec.append(fl if r["vec"] else (fl[0] if fl else -1))
        runs.append(rec)
    out = dict(raised=raised, runs=runs, result=entries, ncalls=len(tr))
    if raised:
        out["msg"] = msg
    return out


def _pkey(p):
    return {k: p.get(k) for k in ("key", "kind", "n", "values", "expr", "ints", "enabled")}


def _edit(obs, det, pipe, prev, step, k):
    """Edit the SAME objects in place, through their public attributes, from configuration `prev` to `step`;
    only what differs is touched (everything else keeps its identity)."""
    from pyxel.observation import CustomMode
    from pyxel.observation.observation import build_parameter_mode

    # configured values (detector fields, model arguments)
    pd = {s["key"]: s["default"] for s in prev["slots"]}
    for s in step["slots"]:
        if pd.get(s["key"]) == s["default"]:
            continue
        v = _val(s["default"], False)
        if s["key"].startswith("detector."):
            _set_det(det, s["key"][len("detector."):], tuple(v) if isinstance(v, list) else v)
        else:
            _, group, model, _, arg = s["key"].split(".")
            getattr(getattr(pipe, group), model).arguments[arg] = v
    style = step.get("edit_style", "replace")
    pm = obs.parameter_mode
    new_params = None
    if [_pkey(p) for p in prev["params"]] != [_pkey(p) for p in step["params"]]:
        new_params = [_param_values(p) for p in step["params"]]
    if step["mode"] != prev["mode"] or style == "rebuild":
        # a new parameter-mode object on the same Observation
        params = new_params if new_params is not None else list(pm.parameters)
        kw = {}
        if step["mode"] == "custom":
            kw = dict(custom_filename=_write_table(step, f"_{k}"),
                      column_range=tuple(step["range"]) if step.get("range") else None)
        obs.parameter_mode = build_parameter_mode(mode=step["mode"], parameters=params, **kw)
    else:
        if new_params is not None:
            if style == "inplace" and isinstance(pm.parameters, list):
                if len(new_params) == len(pm.parameters):
                    for j, (a, b) in enumerate(zip(prev["params"], step["params"])):
                        if _pkey(a) != _pkey(b):
                            pm.parameters[j] = new_params[j]
                else:
                    pm.parameters[:] = new_params
            else:
                pm.parameters = new_params
        if step["mode"] == "custom" and (prev["table"] != step["table"] or prev.get("range") != step.get("range")
                                         or prev.get("file") != step.get("file")):
            fresh = CustomMode.build(list(pm.parameters), custom_file=_write_table(step, f"_{k}"),
                                     custom_columns=slice(*step["range"]) if step.get("range") else None)
            pm.custom_data = fresh.custom_data
    if bool(step.get("dask")) != bool(prev.get("dask")):
        obs.with_dask = bool(step.get("dask"))


def handle_history(case):
    """A history on ONE Observation object: build it for the first step, run; for every further step edit the same
    objects in place to that step's configuration and run again."""
    from harness import pyx
    from pyxel.observation import Observation

    steps = case["history"]
    UNIT.update(off=0.5, scale=float(2 ** 30)) if steps[0].get("fine") else UNIT.update(off=0.0, scale=8.0)
    outs = []
    first = steps[0]
    obs = det = pipe = None
    try:
        det, pipe, params = build(first)
        kw = {}
        if first["mode"] == "custom":
            kw = dict(from_file=_write_table(first, "_0"),
                      column_range=tuple(first["range"]) if first.get("range") else None)
        obs = Observation(parameters=params, mode=first["mode"], readout=pyx.make_readout(times=[1.0]),
                          with_dask=bool(first.get("dask")), **kw)
    except Exception as ex:  # noqa: BLE001 -- a request refused at construction: the history ends here
        return dict(history=[dict(raised=type(ex).__name__, msg=str(ex)[:200], runs=[], result=[], ncalls=0)],
                    aborted="construction")
    outs.append(_run_once(obs, det, pipe, first))
    for k in range(1, len(steps)):
        try:
            if steps[k].get("objects") == "new":
                # the same Observation is given ANOTHER detector and pipeline, configured like the edited ones would be
                det, pipe, _ = build(steps[k])
            _edit(obs, det, pipe, steps[k - 1], steps[k], k)
        except Exception as ex:  # noqa: BLE001 -- the edit itself was refused (e.g. CustomMode.build): not a run
            outs.append(dict(raised=type(ex).__name__, msg="edit: " + str(ex)[:180], runs=[], result=[], ncalls=0,
                             edit_failed=True))
            break
        outs.append(_run_once(obs, det, pipe, steps[k]))
    return dict(history=outs)


def handle(case):
    if "history" in case:
        return handle_history(case)
    import pyxel
    import verif_probes_c05 as vp
    from harness import pyx
    from pyxel.observation import Observation

    vp.reset()
    raised = None
    entries = []
    UNIT.update(off=0.5, scale=float(2 ** 30)) if case.get("fine") else UNIT.update(off=0.0, scale=8.0)
    try:
        det, pipe, params = build(case)
        kw = {}
        if case["mode"] == "custom":
            tab = UNIT["off"] + np.array(case["table"], dtype=float) / UNIT["scale"]
            if case.get("file", "npy") == "npy":
                fname = os.path.abspath("c05_table.npy")
                np.save(fname, tab)
            else:
                fname = os.path.abspath("c05_table.txt")
                with open(fname, "w") as fh:
                    for row in tab:
                        fh.write(" ".join(repr(float(x)) for x in row) + "\n")
            kw = dict(from_file=fname, column_range=tuple(case["range"]) if case.get("range") else None)
        use_dask = bool(case.get("dask"))
        obs = Observation(parameters=params, mode=case["mode"], readout=pyx.make_readout(times=[1.0]),
                          with_dask=use_dask, **kw)
        if use_dask:
            import dask

            with dask.config.set(scheduler="synchronous"):
                dt = pyxel.run_mode(mode=obs, detector=det, pipeline=pipe, with_inherited_coords=True)
                dt = dt.compute() if hasattr(dt, "compute") else dt
                entries = dump_result(dt)
        else:
            dt = pyxel.run_mode(mode=obs, detector=det, pipeline=pipe,
                                with_inherited_coords=bool(case.get("inherit", True)))
            entries = dump_result(dt)
    except Exception as ex:  # noqa: BLE001
        raised = type(ex).__name__
        msg = str(ex)[:200]
    nprobe = max(1, len(case["probes"]))
    runs = []
    tr = list(vp.TRACE)
    for k in range(0, len(tr) - nprobe + 1, nprobe):
        rec = []
        for e in tr[k:k + nprobe]:
            for r in e["received"]:
                fl = [(-1 if x is None else x) for x in r["eighths"]]
                rec.append(fl if r["vec"] else (fl[0] if fl else -1))
        runs.append(rec)
    out = dict(raised=raised, runs=runs, result=entries, ncalls=len(tr))
    if raised:
        out["msg"] = msg
    return out
