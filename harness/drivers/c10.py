"""Implementation side of C10: drive the real ModelFittingDataTree (and, in `calib` mode, a real tiny
calibration through ArchipelagoDataTree) and report what it does with the decision vector.

payload = {mode: "direct"|"calib", vars: [{key, model, arg, n, log, bnd[, kind]}], xs: [[hex, ...], ...], [via: "yaml"] ...}
  n    : None for values="_", else the number of placeholders
  kind : the container the n placeholders are handed over in: "list" (default) | "tuple" | "str" ("_" * n) |
         "ndarray" (numpy array of "_" strings) | "userlist" (collections.UserList) | "gen" (a generator)
  via  : "yaml" = the ParameterValues objects, the detector and the pipeline come from pyxel.configuration.loads of a
         YAML text (containers: "_", list, str), else they are built through the Python API
  bnd  : None | ["shared", lo, hi] | ["per", [[lo, hi], ...]]       (floats as hex strings)
result = {"refused": <class>[, "vals": ...]} | {"lb": [...], "ub": [...], "vals": [[kind, n], ...], "npar": int | None,
          "probes": [ {tag, x, x_after, conv, applied}, ... ]}
  vals    : what ParameterValues.values is after construction (kind of the object, number of elements)
  npar    : the number of parameters the problem counted (champion_x_list.shape[1]); None if it keeps no such count
  applied : None (no evaluation observed) | [[key, "s"|"v"|..., [hex, ...]], ...] in declaration order of
            the variables, then the bystander arguments
"""
from __future__ import annotations

from pathlib import Path

import numpy as np

GROUPS = ["photon_collection", "charge_generation"]
BYSTANDER = 7.0

# Every processor the driver builds (and every run of calib2) gets its own TOKEN in the `tag` argument of the probe
# models ("m0@17"): a pipeline run started lazily by an EARLIER payload or run (the load of /simulated stops at its
# first error, the other islands' tasks may still be running in dask's threads) is then never mistaken for a run of
# the current one.
TOKEN = [0]


def new_token():
    TOKEN[0] += 1
    return TOKEN[0]


def tag_of(m, tok):
    return f"m{m}@{tok}"


def set_token(processor, tok):
    for m, g in enumerate(GROUPS):
        getattr(processor.pipeline, g).models[0].arguments["tag"] = tag_of(m, tok)


def untag(rec, tok=None):
    """{"m0@17.p0": ...} -> {"m0.p0": ...}; with tok: only the records of that token (None if it is another's)"""
    out = {}
    for k, v in rec.items():
        head, _, arg = k.partition(".")
        name, _, t = head.partition("@")
        if tok is not None and t != str(tok):
            return None
        out[f"{name}.{arg}"] = v
    return out


def _f(h):
    return float.fromhex(h)


def _hx(a):
    return [float(v).hex() for v in np.asarray(a, dtype=float).reshape(-1)]


def spec_n(v):
    """None: the declaration means a scalar parameter ("_", or the one-element array that equals it); else the
    number of components of the vector parameter"""
    return None if v["n"] is None or v.get("kind") == "ndarray" else v["n"]


def container(v):
    """The object handed to ParameterValues(values=...)."""
    import collections

    n, kind = v["n"], v.get("kind", "list")
    if n is None:
        return "_"
    if kind == "list":
        return ["_"] * n
    if kind == "tuple":
        return ("_",) * n
    if kind == "str":
        return "_" * n
    if kind == "ndarray":
        return np.array(["_"] * n, dtype=str)
    if kind == "userlist":
        return collections.UserList(["_"] * n)
    if kind == "gen":
        return ("_" for _ in range(n))
    raise ValueError(f"unknown container kind {kind}")


def kind_of(vals):
    """[kind, number of elements] of what a ParameterValues keeps as .values"""
    import collections

    if isinstance(vals, str):
        return ["und", 1] if vals == "_" else (["str", len(vals)] if set(vals) <= {"_"} else ["other", 0])
    for cls, name in ((list, "list"), (tuple, "tuple"), (collections.UserList, "userlist")):
        if type(vals) is cls:
            return [name, len(vals)] if all(isinstance(e, str) and e == "_" for e in vals) else ["other", 0]
    if isinstance(vals, np.ndarray) and vals.ndim == 1 and all(str(e) == "_" for e in vals):
        return ["ndarray", int(vals.size)]
    return ["other", 0]


def key_of(v):
    return f"pipeline.{GROUPS[v['model']]}.cap{v['model']}.arguments.{v['arg']}"


def bnd_of(v):
    b = v["bnd"]
    if b is None:
        return None
    if b[0] == "shared":
        return (_f(b[1]), _f(b[2]))
    return [(_f(lo), _f(hi)) for lo, hi in b[1]]


def yaml_objects(p):
    """The same declaration written as a YAML configuration and loaded by pyxel.configuration.loads."""
    import yaml
    from pyxel.configuration import loads
    from pyxel.pipelines import Processor

    tok = new_token()
    args = [dict(tag=tag_of(0, tok), fixed=BYSTANDER), dict(tag=tag_of(1, tok), fixed=BYSTANDER)]
    for v in p["vars"]:
        args[v["model"]][v["arg"]] = 0.0 if spec_n(v) is None else [0.0] * v["n"]
    params = []
    for v in p["vars"]:
        if v.get("kind", "list") not in ("list", "str"):
            raise ValueError("container cannot be written in YAML")
        d = dict(key=key_of(v), values=container(v), logarithmic=bool(v["log"]))
        b = bnd_of(v)
        if b is not None:
            d["boundaries"] = list(b) if v["bnd"][0] == "shared" else [list(x) for x in b]
        params.append(d)
    target_file()
    cfg = dict(
        calibration=dict(result_type="pixel", result_fit_range=[0, 2, 0, 2], target_data_path=["target_c10.npy"],
                         target_fit_range=[0, 2, 0, 2],
                         fitness_function=dict(func="pyxel.calibration.fitness.sum_of_abs_residuals"),
                         algorithm=dict(type="sade", generations=1, population_size=5), parameters=params),
        ccd_detector=dict(geometry=dict(row=2, col=2, total_thickness=40.0, pixel_vert_size=10.0, pixel_horz_size=10.0),
                          environment=dict(temperature=200.0), characteristics=dict(full_well_capacity=100000)),
        pipeline={g: [dict(name=f"cap{m}", func="verif_probes_c10.capture", enabled=True, arguments=args[m])]
                  for m, g in enumerate(GROUPS)},
    )
    conf = loads(yaml.safe_dump(cfg))
    return list(conf.calibration.parameters), Processor(detector=conf.ccd_detector, pipeline=conf.pipeline)


def make_objects(p):
    """-> (variables, processor): the ParameterValues objects and the processor of the caller.
    Raises whatever the implementation raises."""
    from pyxel.detectors import CCD, CCDGeometry, Characteristics, Environment
    from pyxel.observation import ParameterValues
    from pyxel.pipelines import DetectionPipeline, ModelFunction, Processor

    if p.get("via") == "yaml":
        return yaml_objects(p)
    args = [dict(fixed=BYSTANDER), dict(fixed=BYSTANDER)]
    for v in p["vars"]:
        args[v["model"]][v["arg"]] = 0.0 if spec_n(v) is None else [0.0] * v["n"]
    kw = {}
    tok = new_token()
    for m, g in enumerate(GROUPS):
        kw[g] = [ModelFunction(func="verif_probes_c10.capture", name=f"cap{m}",
                               arguments=dict(tag=tag_of(m, tok), **args[m]))]
    det = CCD(geometry=CCDGeometry(row=2, col=2, total_thickness=40.0, pixel_vert_size=10.0, pixel_horz_size=10.0),
              environment=Environment(temperature=200.0),
              characteristics=Characteristics(full_well_capacity=100000))
    processor = Processor(detector=det, pipeline=DetectionPipeline(**kw))

    variables = []
    for v in p["vars"]:
        variables.append(ParameterValues(key=key_of(v), values=container(v), logarithmic=bool(v["log"]),
                                         boundaries=bnd_of(v)))

    return variables, processor


def target_file():
    target = Path("target_c10.npy")
    if not target.exists():
        np.save(target, np.zeros((2, 2)))
    return target


def make_problem(p, variables, processor):
    """One problem construction from the GIVEN objects (as Calibration.run_calibration does every time)."""
    from pyxel.calibration import FitRange2D, FitRange3D
    from pyxel.calibration.fitness import sum_of_abs_residuals
    from pyxel.calibration.fitting_datatree import ModelFittingDataTree
    from pyxel.exposure import Readout

    target = target_file()
    return ModelFittingDataTree(
        processor=processor, variables=variables, readout=Readout(), simulation_output="pixel",
        generations=p.get("generations", 1), population_size=p.get("pop", 5),
        fitness_func=sum_of_abs_residuals, file_path=None,
        target_fit_range=FitRange2D(row=slice(0, 2), col=slice(0, 2)),
        out_fit_range=FitRange3D(time=slice(None, None), row=slice(0, 2), col=slice(0, 2)),
        target_filenames=[target],
    )


def build(p):
    """-> (problem, processor) from fresh objects."""
    variables, processor = make_objects(p)
    return make_problem(p, variables, processor), processor


def ordered(p, rec):
    """The captured kwargs in declaration order of the variables, then the two bystanders."""
    out = []
    for v in p["vars"]:
        k = f"m{v['model']}.{v['arg']}"
        kind, vals = rec.get(k, ["missing", []])
        out.append([v["key"], kind, vals])
    for m in range(len(GROUPS)):
        kind, vals = rec.get(f"m{m}.fixed", ["missing", []])
        out.append([f"m{m}.fixed", kind, vals])
    return out


def merged(sink):
    rec = {}
    for r in sink:
        rec.update(untag(r))
    return rec


def read_processor(p, proc):
    """Arguments of the probe models of a processor, encoded like the probe does."""
    from verif_probes_c10 import _enc

    rec = {}
    for m, g in enumerate(GROUPS):
        mf = getattr(proc.pipeline, g).models[0]
        for k, val in dict(mf.arguments).items():
            if k != "tag":
                rec[f"m{m}.{k}"] = _enc(val)
    return rec


def direct(p, problem, processor):
    import verif_probes_c10 as pr
    import xarray as xr

    probes = []
    xs = [np.array([_f(h) for h in x], dtype=float) for x in p["xs"]]
    fit = set(p.get("evaluate", range(len(xs))))
    for i, x in enumerate(xs):
        # (a) convert_to_parameters on the 1-D vector
        arr = x.copy()
        try:
            conv = problem.convert_to_parameters(arr)
            conv_h = _hx(conv) if np.asarray(conv).shape == x.shape else None
        except Exception as ex:  # noqa: BLE001
            conv, conv_h = None, None
        base = dict(x=_hx(x), x_after=_hx(arr), conv=conv_h)
        probes.append(dict(tag="convert", applied=None, **base))
        if i not in fit:
            continue
        # (b) fitness(x): what the probe models receive
        arr = x.copy()
        pr.TLS.sink = []
        err = None
        try:
            problem.fitness(arr)
            applied = ordered(p, merged(pr.TLS.sink))
        except Exception as ex:  # noqa: BLE001
            applied, err = [], f"{type(ex).__name__}: {str(ex)[:160]}"
        finally:
            sink, pr.TLS.sink = pr.TLS.sink, None
        probes.append(dict(tag="fitness", x=_hx(x), x_after=_hx(arr), conv=conv_h, applied=applied, error=err))
        # (c) update_processor(convert_to_parameters(x)) read back without running
        if conv is not None:
            try:
                newp = problem.update_processor(parameter=np.array(conv), processor=processor)
                applied = ordered(p, read_processor(p, newp))
                untouched = ordered(p, read_processor(p, processor))
                err = None
            except Exception as ex:  # noqa: BLE001
                applied, err = [], f"{type(ex).__name__}: {str(ex)[:160]}"
            probes.append(dict(tag="update", x=_hx(x), x_after=_hx(x), conv=conv_h, applied=applied, error=err))
    # (d) the 2-D call used by get_best_individuals, and the DataArray call used by _get_champions
    if xs:
        for tag, arg in (("conv2d", np.array(xs)), ("convDA", xr.DataArray(np.array(xs), dims=["island", "param_id"]))):
            before = np.array(arg).copy()
            try:
                out = np.asarray(problem.convert_to_parameters(arg))
                rows = [_hx(r) for r in out] if out.shape == before.shape else [None] * len(xs)
            except Exception:  # noqa: BLE001
                rows = [None] * len(xs)
            after = np.array(arg)
            for r0, r1, c in zip(before, after, rows):
                probes.append(dict(tag=tag, x=_hx(r0), x_after=_hx(r1), conv=c, applied=None))
    return probes


def calib(p, problem, processor):
    """A real (tiny) calibration; every evaluation is logged through a wrapper installed from outside."""
    import pygmo as pg
    import verif_probes_c10 as pr
    from pyxel.calibration import Algorithm, ArchipelagoDataTree, DaskBFE, DaskIsland
    from pyxel.calibration.fitting_datatree import ModelFittingDataTree

    import threading

    log, lock = [], threading.Lock()
    orig = ModelFittingDataTree.fitness

    def wrapped(self, decision_vector_1d):
        x0 = np.array(decision_vector_1d, dtype=float).copy()
        prev = getattr(pr.TLS, "sink", None)
        pr.TLS.sink = []
        try:
            f = orig(self, decision_vector_1d)
            rec, err = merged(pr.TLS.sink), None
        except Exception as ex:  # noqa: BLE001
            f, rec, err = None, None, f"{type(ex).__name__}: {str(ex)[:160]}"
            raise
        finally:
            with lock:
                log.append(dict(x=x0, x_after=np.array(decision_vector_1d, dtype=float).copy(),
                                rec=rec if err is None else None, f=None if f is None else float(f[0]), err=err))
            pr.TLS.sink = prev
        return f

    seed = int(p.get("seed", 1))
    algo_kw = dict(type=p.get("algo", "sade"), generations=p.get("generations", 2), population_size=p.get("pop", 8))
    if algo_kw["type"] == "nlopt":
        algo_kw.update(nlopt_solver="neldermead", maxeval=20)
    algorithm = Algorithm(**algo_kw)
    ModelFittingDataTree.fitness = wrapped
    pr.GLOBAL = []
    try:
        pg.set_global_rng_seed(seed=seed)
        islands = int(p.get("islands", 1))
        topo = pg.ring() if islands > 1 else pg.unconnected()
        archi = ArchipelagoDataTree(num_islands=islands, udi=DaskIsland(), algorithm=algorithm, problem=problem,
                                    pop_size=algorithm.population_size, bfe=DaskBFE(), topology=topo,
                                    pygmo_seed=seed, with_bar=False)
        from pyxel.exposure import Readout
        dt = archi.run_evolve(readout=problem.readout, num_rows=2, num_cols=2,
                              num_evolutions=int(p.get("evolutions", 2)),
                              num_best_decisions=p.get("num_best", 3))
        load_err = load_simulated(dt)
    finally:
        ModelFittingDataTree.fitness = orig
        final, pr.GLOBAL = pr.GLOBAL, None

    return collect(p, problem, log, dt, final, load_err)


def load_simulated(dt):
    """The simulated outputs of the result are lazy: loading one runs the pipeline once per island with the last
    champions' parameters (that run is what C10 observes).  In the unchanged tree the load itself then fails
    (`_apply_parameters` asks for with_inherited_coords=True, `extract_data_3d` reads data_tree["pixel"]): that
    is not a statement of C10, so that error is ignored; the probe models have run by then.  Returned: the
    error text, so that a load that fails BEFORE any pipeline ran (update_processor raising) can be told apart."""
    try:
        _ = dt["/simulated/pixel"].to_numpy()
    except Exception as ex:  # noqa: BLE001
        return f"{type(ex).__name__}: {str(ex)[:160]}"
    return None


def final_runs(final):
    """Pipeline runs outside fitness: per thread the records come as (model 0, model 1) of one run."""
    by_thread = {}
    for tid, rec in final or []:
        rec = untag(rec, TOKEN[0])
        if rec is not None:           # else: a straggler of an earlier payload / run
            by_thread.setdefault(tid, []).append(rec)
    runs = []
    for recs in by_thread.values():
        cur = {}
        for rec in recs:
            if any(k in cur for k in rec):
                runs.append(cur)
                cur = {}
            cur.update(rec)
        if cur:
            runs.append(cur)
    # a run that was still going on in another thread when the load gave up is incomplete: not judged
    return [r for r in runs if all(f"m{m}.fixed" in r for m in range(len(GROUPS)))]


def collect(p, problem, log, dt, final=None, load_err=None):
    """Probes of one calibration run: every logged evaluation, every champion and best individual, and the
    final application of the last champions' parameters (whose simulated outputs the result reports)."""

    def conv_of(x):
        try:
            return _hx(problem.convert_to_parameters(np.array(x, dtype=float)))
        except Exception:  # noqa: BLE001
            return None

    probes = []
    by_x = {}
    for e in log:
        applied = ordered(p, e["rec"]) if e["rec"] is not None else []
        by_x.setdefault(e["x"].tobytes(), (applied, e["f"]))
        probes.append(dict(tag="evaluation", x=_hx(e["x"]), x_after=_hx(e["x_after"]), conv=conv_of(e["x"]),
                           applied=applied, error=e["err"]))

    def reported(node, tag):
        dec = np.asarray(dt[f"/{node}/decision"].to_numpy(), dtype=float)
        par = np.asarray(dt[f"/{node}/parameters"].to_numpy(), dtype=float)
        fitn = np.asarray(dt[f"/{node}/fitness"].to_numpy(), dtype=float)
        nx = dec.shape[-1]
        d2, p2, f1 = dec.reshape(-1, nx), par.reshape(-1, nx), fitn.reshape(-1)
        for d, q, f in zip(d2, p2, f1):
            if not np.all(np.isfinite(d)):
                continue
            hit = by_x.get(np.ascontiguousarray(d).tobytes())
            # a reported individual must be a logged evaluation with the reported fitness
            applied = hit[0] if (hit is not None and hit[1] == f) else []
            probes.append(dict(tag=tag, x=_hx(d), x_after=_hx(d), conv=_hx(q), applied=applied,
                               error=None if applied else "reported individual is not a logged evaluation"))

    reported("champion", "champion")
    if "best" in dt.children:
        reported("best", "best")

    if final is not None:
        # /simulated/* of the result come from run_evolve applying the LAST champions' reported parameters: one
        # pipeline run per island (one processor).  Every such run that was observed must have received exactly
        # the parameters reported for some island.  (Loading stops at the first error, see load_simulated: an
        # island whose run was not observed is not judged.)
        runs = [ordered(p, r) for r in final_runs(final)]
        dec = dt["/champion/decision"].isel(evolution=-1).to_numpy().astype(float)
        par = dt["/champion/parameters"].isel(evolution=-1).to_numpy().astype(float)
        dec, par = dec.reshape(-1, dec.shape[-1]), par.reshape(-1, par.shape[-1])
        nvar = len(p["vars"])
        wants = []
        for qv in par:
            want, a = [], 0
            for v in p["vars"]:
                b = 1 if spec_n(v) is None else v["n"]
                want.append(_hx(qv[a:a + b]))
                a += b
            wants.append(want)
        if not runs and load_err and load_err.startswith(("IndexError", "TypeError")):
            # no pipeline ran at all and the load died in the assignment walk (parameter[a] / parameter[a:b]):
            # the reported parameters of every island were NOT applied
            for k in range(len(dec)):
                probes.append(dict(tag="final", x=_hx(dec[k]), x_after=_hx(dec[k]), conv=_hx(par[k]), applied=[],
                                   error=f"final application failed before the pipeline ran: {load_err}"))
        for r in runs:
            got = [e[2] for e in r[:nvar]]
            k = next((k for k, w in enumerate(wants) if w == got), 0)     # no island reports it: judged against island 0
            probes.append(dict(tag="final", x=_hx(dec[k]), x_after=_hx(dec[k]), conv=_hx(par[k]), applied=r, error=None))
    return probes


def enc_bnd(b):
    if b is None:
        return None
    b = np.asarray(b)
    if b.shape == (2,):
        return ["shared", float(b[0]).hex(), float(b[1]).hex()]
    if b.ndim == 2 and b.shape[1] == 2:
        return ["per", [[float(lo).hex(), float(hi).hex()] for lo, hi in b]]
    return ["other", repr(b.shape)]


def snapshot(p, variables, processor, problems):
    """What the objects shared by all problem constructions hold NOW: the ParameterValues objects (key,
    placeholders, flag, boundaries), the caller's processor, and the processor kept by every problem."""
    vs = []
    for v, var in zip(p["vars"], variables):
        expected = f"pipeline.{GROUPS[v['model']]}.cap{v['model']}.arguments.{v['arg']}"
        kind, cnt = kind_of(var.values)
        n = None if kind in ("und", "ndarray") and cnt == 1 else (cnt if kind in ("list", "tuple") else "other")
        vs.append(dict(key=v["key"] if var.key == expected else "?" + str(var.key)[:60], n=n,
                       log=var.logarithmic if isinstance(var.logarithmic, bool) else "other",
                       bnd=enc_bnd(var.boundaries)))
    if len(variables) != len(p["vars"]):
        vs.append(dict(key="?count", n="other", log="other", bnd=None))
    own = []
    for pb in problems:
        lst = list(pb.param_processor_list)
        own.append(ordered(p, read_processor(p, lst[0])) if len(lst) == 1 else [["?nproc", "other", []]])
    return dict(vars=vs, proc=ordered(p, read_processor(p, processor)), own=own)


def hist(p):
    """A history on the SAME objects: the variables list, its ParameterValues objects and the processor are
    created once; every op uses them again.  ops: ["build"] | ["bounds", pid] | ["convert"|"fitness"|"update", pid, x]"""
    import verif_probes_c10 as pr

    try:
        variables, processor = make_objects(p)
    except Exception as ex:  # noqa: BLE001
        return {"refused_objects": type(ex).__name__, "msg": str(ex)[:200]}
    problems, steps = [], []
    for op in p["ops"]:
        kind = op[0]
        if kind != "build" and op[1] >= len(problems):
            continue              # the problem it names was refused: nothing to call
        st = dict(op=kind)
        if kind == "build":
            try:
                pb = make_problem(p, variables, processor)
                problems.append(pb)
                lb, ub = pb.get_bounds()
                st.update(lb=_hx(lb), ub=_hx(ub))
            except Exception as ex:  # noqa: BLE001
                st.update(refused=type(ex).__name__, msg=str(ex)[:200])
        elif kind == "bounds":
            pb = problems[op[1]]
            lb, ub = pb.get_bounds()
            st.update(pid=op[1], lb=_hx(lb), ub=_hx(ub))
        else:
            pid = op[1]
            pb = problems[pid]
            x = np.array([_f(h) for h in op[2]], dtype=float)
            arr = x.copy()
            st.update(pid=pid, tag=kind, x=_hx(x), applied=None, error=None)
            try:
                if kind == "convert":
                    st["conv"] = _hx(pb.convert_to_parameters(arr))
                elif kind == "fitness":
                    pr.TLS.sink = []
                    try:
                        pb.fitness(arr)
                        st["applied"] = ordered(p, merged(pr.TLS.sink))
                    finally:
                        pr.TLS.sink = None
                    st["conv"] = _hx(pb.convert_to_parameters(x.copy()))
                elif kind == "update":
                    conv = pb.convert_to_parameters(arr)
                    st["conv"] = _hx(conv)
                    newp = pb.update_processor(parameter=np.array(conv), processor=processor)
                    st["applied"] = ordered(p, read_processor(p, newp))
                else:
                    raise ValueError(f"unknown op {kind}")
            except Exception as ex:  # noqa: BLE001
                st["error"] = f"{type(ex).__name__}: {str(ex)[:160]}"
                st.setdefault("conv", None)
                if kind != "convert":
                    st["applied"] = []
            st["x_after"] = _hx(arr)
        st["snap"] = snapshot(p, variables, processor, problems)
        steps.append(st)
    return {"steps": steps}


def calib2(p):
    """Calibration.run_calibration called several times on the SAME Calibration object (same ParameterValues
    objects, same processor): every run builds its own problem from them.  Every evaluation is logged."""
    import threading

    import verif_probes_c10 as pr
    from pyxel.calibration import Algorithm, Calibration
    from pyxel.calibration.fitness import sum_of_abs_residuals
    from pyxel.calibration.fitting_datatree import ModelFittingDataTree

    try:
        variables, processor = make_objects(p)
    except Exception as ex:  # noqa: BLE001
        return {"refused_objects": type(ex).__name__, "msg": str(ex)[:200]}
    runs = p["runs"]          # [{algo, seed, islands, generations, pop, evolutions, num_best}, ...]

    def algorithm(r):
        kw = dict(type=r.get("algo", "sade"), generations=r.get("generations", 2), population_size=r.get("pop", 8))
        if kw["type"] == "nlopt":
            kw.update(nlopt_solver="neldermead", maxeval=20)
        return Algorithm(**kw)

    r0 = runs[0]
    calibration = Calibration(
        target_data_path=[target_file()], fitness_function=sum_of_abs_residuals, algorithm=algorithm(r0),
        parameters=variables, result_type="pixel", result_fit_range=(0, 2, 0, 2), target_fit_range=(0, 2, 0, 2),
        pygmo_seed=int(r0.get("seed", 1)), num_islands=int(r0.get("islands", 1)),
        num_evolutions=int(r0.get("evolutions", 2)), num_best_decisions=r0.get("num_best", 3),
        topology="ring" if int(r0.get("islands", 1)) > 1 else "unconnected")

    log, lock, built = [], threading.Lock(), []
    orig_fit, orig_init = ModelFittingDataTree.fitness, ModelFittingDataTree.__init__

    def init(self, *a, **k):
        orig_init(self, *a, **k)
        built.append(self)

    def wrapped(self, decision_vector_1d):
        x0 = np.array(decision_vector_1d, dtype=float).copy()
        prev = getattr(pr.TLS, "sink", None)
        pr.TLS.sink = []
        f, rec, err = None, None, None
        try:
            f = orig_fit(self, decision_vector_1d)
            rec = merged(pr.TLS.sink)
        except Exception as ex:  # noqa: BLE001
            err = f"{type(ex).__name__}: {str(ex)[:160]}"
            raise
        finally:
            with lock:
                log.append(dict(x=x0, x_after=np.array(decision_vector_1d, dtype=float).copy(),
                                rec=rec if err is None else None, f=None if f is None else float(f[0]), err=err))
            pr.TLS.sink = prev
        return f

    steps, problems = [], []
    ModelFittingDataTree.fitness, ModelFittingDataTree.__init__ = wrapped, init
    try:
        for k, r in enumerate(runs):
            if k > 0:
                calibration.algorithm = algorithm(r)
                calibration.pygmo_seed = int(r.get("seed", 1))
            del log[:]
            n_before = len(built)
            set_token(processor, new_token())
            st = dict(op="build")
            dt, err, load_err = None, None, None
            pr.GLOBAL = []
            try:
                dt = calibration.run_calibration(processor=processor, output_dir=None, with_inherited_coords=False,
                                                 with_progress_bar=False)
                load_err = load_simulated(dt)
            except Exception as ex:  # noqa: BLE001
                err = f"{type(ex).__name__}: {str(ex)[:200]}"
            finally:
                final, pr.GLOBAL = pr.GLOBAL, None
            new = built[n_before:]
            if len(new) != 1:
                if err is not None:
                    st.update(refused=err.split(":")[0], msg=err)
                    st["snap"] = snapshot(p, variables, processor, problems)
                    steps.append(st)
                    continue
                return {"calib_error": f"run {k}: {len(new)} problems constructed, {err}"}
            pb = new[0]
            problems.append(pb)
            lb, ub = pb.get_bounds()
            st.update(lb=_hx(lb), ub=_hx(ub))
            snap = snapshot(p, variables, processor, problems)
            st["snap"] = snap
            steps.append(st)
            if err is not None:
                return {"calib_error": f"run {k}: {err}", "steps": steps}
            for pbe in collect(p, pb, list(log), dt, final, load_err):
                steps.append(dict(op="fitness", pid=len(problems) - 1, snap=snap, **pbe))
    finally:
        ModelFittingDataTree.fitness, ModelFittingDataTree.__init__ = orig_fit, orig_init
    return {"steps": steps}


def handle(p):
    import verif_probes_c10 as pr

    pr.TLS.sink = None
    if p.get("mode") == "hist":
        return hist(p)
    if p.get("mode") == "calib2":
        try:
            return calib2(p)
        except Exception as ex:  # noqa: BLE001
            import traceback
            return {"calib_error": f"{type(ex).__name__}: {str(ex)[:300]}", "tb": traceback.format_exc()[-1500:]}
    try:
        variables, processor = make_objects(p)
    except Exception as ex:  # noqa: BLE001
        return {"refused": type(ex).__name__, "msg": str(ex)[:200], "stage": "objects"}
    vals = [kind_of(var.values) for var in variables]
    try:
        problem = make_problem(p, variables, processor)
    except Exception as ex:  # noqa: BLE001
        return {"refused": type(ex).__name__, "msg": str(ex)[:200], "stage": "problem", "vals": vals}
    lb, ub = problem.get_bounds()
    res = {"lb": _hx(lb), "ub": _hx(ub), "vals": vals, "npar": None}
    try:
        shape = np.shape(problem.champion_x_list)
        if len(shape) == 2:
            res["npar"] = int(shape[1])
    except Exception:  # noqa: BLE001  (the count is not a public promise: absent = not observed)
        pass
    if p.get("mode", "direct") == "calib":
        try:
            res["probes"] = calib(p, problem, processor)
        except Exception as ex:  # noqa: BLE001
            import traceback
            return {"calib_error": f"{type(ex).__name__}: {str(ex)[:300]}", "tb": traceback.format_exc()[-1200:], **res}
    else:
        res["probes"] = direct(p, problem, processor)
    return res
