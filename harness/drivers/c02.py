"""Implementation side of C02: build a Readout the way the case says (constructor form, then setter /
replace operations), prepare the detector's prior history, run a real exposure through pyxel.run_mode
with an observing probe first and last in every step and a plan-following writer in between."""
from __future__ import annotations

import os

import numpy as np


def _f(h):
    if isinstance(h, str):
        return float("nan") if h == "nan" else float.fromhex(h)
    return float(h)


def _times_arg(form, vals, expr=None, tag="t"):
    """The python object handed over as `times` (or the file name for the file forms)."""
    xs = [_f(v) for v in vals]
    if form == "list":
        return dict(times=xs)
    if form == "intlist":
        return dict(times=[int(x) for x in xs])
    if form == "tuple":
        return dict(times=tuple(xs))
    if form == "scalar":
        return dict(times=xs[0])
    if form == "numpy_str":
        return dict(times=expr)
    if form == "ndarray":
        return dict(times=np.array(xs, dtype=float))
    if form == "list2d":
        return dict(times=[xs, xs] if len(xs) != 1 else [xs])
    if form == "file_npy":
        fn = f"{tag}_{os.getpid()}.npy"
        np.save(fn, np.array(xs, dtype=float))
        return dict(times_from_file=fn)
    if form == "file_txt":
        fn = f"{tag}_{os.getpid()}.txt"
        with open(fn, "w") as fh:
            fh.write("\n".join(repr(float(x)) for x in xs) + "\n")
        return dict(times_from_file=fn)
    raise ValueError(form)


def _pipeline(plan, wgroup):
    from harness import pyx

    spec = {
        "scene_generation": [dict(func="verif_probes_c02.observe", name="first", arguments={"where": "first"})],
        wgroup: [dict(func="verif_probes_c02.writer", name="writer", arguments={"plan": plan})],
        "data_processing": [dict(func="verif_probes_c02.observe", name="last", arguments={"where": "last"})],
    }
    return pyx.make_pipeline(spec)


ALLB = ("scene", "photon", "charge", "pixel", "signal", "image")


def _prefill_buckets(det):
    import verif_probes_c02 as pc

    geo = det.geometry
    shape = (geo.row, geo.col)
    det.photon.array = np.full(shape, 91.0)
    det.charge.add_charge_array(np.full(shape, 92.0))
    det.charge.add_charge(particle_type="e", particles_per_cluster=np.array([5.0]), init_energy=np.array([0.0]),
                          init_ver_position=np.array([1.0]), init_hor_position=np.array([1.0]),
                          init_z_position=np.array([0.0]), init_ver_velocity=np.array([0.0]),
                          init_hor_velocity=np.array([0.0]), init_z_velocity=np.array([0.0]))
    det.pixel.array = np.full(shape, 93.0)
    det.signal.array = np.full(shape, 94.0)
    det.image.array = np.full(shape, 95, dtype=np.uint16)
    pc.add_scene_source(det)


def _prefill(det, nd):
    _prefill_buckets(det)
    # a stale clock from "another run"
    det.set_readout(times=[7.0, 8.0, 16.0], start_time=3.0, non_destructive=not nd)
    det.readout_properties.time = 8.0
    det.readout_properties.time_step = 1.0
    det.readout_properties.pipeline_count = 2


def _history(det, kind, nd, rows, cols):
    """Leave the detector in the state of the given prior history."""
    import verif_probes_c02 as pc
    from harness import pyx

    if kind == "fresh":
        return
    if kind == "junk":
        _prefill(det, nd)
        return
    full = [[b, 40 + k, True] for k, b in enumerate(ALLB)]
    plan = [full, full, full]
    if kind == "other_mode":
        pipe = _pipeline(plan, "charge_collection")
        ro = pyx.make_readout(times=[0.25, 0.75, 2.0], start_time=0.125, non_destructive=not nd)
        pyx.run_exposure(det, pipe, ro)
        return
    if kind in ("failed", "failed_other"):
        spec = {
            "photon_collection": [dict(func="verif_probes_c02.writer", name="writer", arguments={"plan": plan})],
            "charge_measurement": [dict(func="verif_probes.fail", name="boom", arguments={"at_step": 1})],
        }
        pipe = pyx.make_pipeline(spec)
        ro = pyx.make_readout(times=[1.0, 3.0, 4.0], start_time=0.5,
                              non_destructive=(nd if kind == "failed" else (not nd)))
        try:
            pyx.run_exposure(det, pipe, ro)
        except Exception:  # noqa: BLE001 - the failure is the point
            pass
        else:
            raise RuntimeError("history run was expected to fail")
        return
    raise ValueError(kind)


TAMPER_RP = ("start_time", "time", "time_step", "pipeline_count", "read_out")


def _tamper(det, ops):
    """What a caller may do to the detector between two runs, through public attributes only."""
    for target, val in ops or []:
        if target == "junk":
            _prefill_buckets(det)
            continue
        if target == "set_readout":
            det.set_readout(times=[_f(v) for v in val["times"]], start_time=_f(val["start"]),
                            non_destructive=bool(val["nd"]))
            continue
        if not det.is_dynamic:          # no ReadoutProperties object yet: nothing to assign to
            continue
        where, attr = target.split(".")
        if attr not in TAMPER_RP:
            raise RuntimeError(f"unknown tamper target {target}")
        v = int(val) if attr == "pipeline_count" else (bool(val) if attr == "read_out" else _f(val))
        setattr(det.readout_properties if where == "rp" else det, attr, v)


def _run_entry(det, pipe, ro, entry):
    import pyxel
    from harness import pyx

    if entry in (None, "run_mode"):
        pyx.run_exposure(det, pipe, ro)
    elif entry == "run_exposure":
        from pyxel.exposure import Exposure
        from pyxel.pipelines import Processor

        Exposure(readout=ro).run_exposure(processor=Processor(detector=det, pipeline=pipe), debug=False,
                                          with_inherited_coords=True)
    elif entry == "deprecated_loop":
        # the loop behind the deprecated pyxel.exposure_mode (its own copy of set_readout / empty / clock stores)
        import warnings

        from pyxel.exposure.exposure import _run_exposure_pipeline_deprecated
        from pyxel.pipelines import Processor

        with warnings.catch_warnings():
            warnings.simplefilter("ignore")
            _run_exposure_pipeline_deprecated(processor=Processor(detector=det, pipeline=pipe), readout=ro)
    elif entry in ("observation", "observation_dask"):
        raise RuntimeError("observation entries are run by _run_observation")
    else:
        raise RuntimeError(f"unknown entry {entry}")


def _run_observation(det, pipe, ro, p):
    """pyxel.run_mode(Observation) sweeping a detector attribute (each run = the same readout on a deep copy of
    the detector) or `observation.readout.times` (each run = readout.replace(times=<value>))."""
    import dask
    import pyxel
    from pyxel.observation import Observation, ParameterValues

    sw = p["sweep"]
    key = {"temperature": "detector.environment.temperature", "times": "observation.readout.times"}[sw["key"]]
    vals = [float(v) if sw["key"] == "temperature" else _f(v) for v in sw["values"]]
    obs = Observation(parameters=[ParameterValues(key=key, values=vals)], readout=ro, mode=sw.get("mode", "product"),
                      with_dask=(p["entry"] == "observation_dask"))
    with dask.config.set(scheduler=sw.get("scheduler", "synchronous")):
        dt = pyxel.run_mode(obs, det, pipe, with_inherited_coords=True)
        if p["entry"] == "observation_dask":
            dt.compute()


def _one_run(det, p, ro_prev):
    """One run of a session on [det]. Returns (result, the Readout object it used, or the stage (0 / 1) at
    which obtaining it failed)."""
    import verif_probes as vp
    import verif_probes_c02 as pc
    from pyxel.exposure import Readout

    nd = bool(p["nd"])
    _tamper(det, p.get("tamper"))
    d0 = pc.buckets(det)
    rp0 = pc.rp_public(det)
    vp.reset()
    pc.reset()

    def _exc(stage, ex, executed):
        return dict(stage=stage, executed=int(executed), exc=type(ex).__name__, msg=str(ex)[:160], d0=d0, rp0=rp0,
                    d1=pc.buckets(det), rp1=pc.rp_public(det))

    # --- the Readout object: a new one, or the one of the previous run (further setter calls below)
    if p.get("reuse"):
        if isinstance(ro_prev, int) or ro_prev is None:
            # the object this run was to re-use could not be built: the same refusal, seen again
            return _exc(ro_prev or 0, RuntimeError("no Readout object left by the previous run"), 0), ro_prev
        ro = ro_prev
    else:
        try:
            kw = _times_arg(p["form"], p.get("times", []), p.get("expr"))
            ro = Readout(start_time=_f(p["start"]), non_destructive=nd, **kw)
        except Exception as ex:  # noqa: BLE001
            return _exc(0, ex, pc.EXEC[0]), 0
    # --- the caller's operations
    try:
        for kind, arg in p.get("ops", []):
            if kind == "set_times":
                kw = _times_arg(arg["form"], arg["times"], arg.get("expr"), tag="s")
                if "times_from_file" in kw:
                    raise RuntimeError("file form is not available for the setter")
                ro.times = kw["times"]
            elif kind == "set_start":
                ro.start_time = _f(arg)
            elif kind == "set_nd":
                ro.non_destructive = bool(arg)
            elif kind == "replace_times":
                ro = ro.replace(times=[_f(v) for v in arg["times"]])
            elif kind == "replace_start":
                ro = ro.replace(start_time=_f(arg))
            elif kind == "replace_nd":
                ro = ro.replace(non_destructive=bool(arg))
            else:
                raise RuntimeError(f"unknown op {kind}")
    except RuntimeError:
        raise
    except Exception as ex:  # noqa: BLE001
        return _exc(1, ex, pc.EXEC[0]), 1
    # --- run
    pipe = _pipeline(p.get("plan", []), p.get("wgroup", "charge_collection"))
    is_obs = str(p.get("entry", "")).startswith("observation")
    try:
        if is_obs:
            _run_observation(det, pipe, ro, p)
        else:
            _run_entry(det, pipe, ro, p.get("entry"))
    except Exception as ex:  # noqa: BLE001
        return _exc(2, ex, pc.EXEC[0]), ro
    if is_obs:
        # one trace per detector copy, in order of first appearance (the copies run in any order / interleaved)
        order, by = [], {}
        for e in pc.LOG:
            if e["det"] not in by:
                by[e["det"]] = []
                order.append(e["det"])
            by[e["det"]].append(e)
        groups = []
        for k in order:
            g = _trace(by[k])
            if "driver_error" in g:
                return g, ro
            g["rp_times"] = by[k][0]["rp_times"]
            groups.append(g)
        return dict(stage=None, executed=int(pc.EXEC[0]), d0=d0, rp0=rp0, obs=[], groups=groups), ro
    out = _trace(list(pc.LOG))
    if "driver_error" in out:
        return out, ro
    out.update(stage=None, executed=int(pc.EXEC[0]), d0=d0, rp0=rp0, d1=pc.buckets(det), rp1=pc.rp_public(det))
    return out, ro


def _trace(log):
    """Pair the first/last observations of each step; canonical clocks through both public paths."""
    if len(log) % 2 != 0:
        return {"driver_error": "odd number of observations"}
    FIELDS = ("time", "time_step", "absolute_time", "pipeline_count", "is_first_readout", "is_last_readout")

    def same(ca, cb):
        return all((ca[x] == cb[x]) or (ca[x] != ca[x] and cb[x] != cb[x]) for x in FIELDS)

    def canon(ca):
        ck = {}
        for x in ("time", "time_step", "absolute_time"):
            v = ca[x]
            ck[x] = "nan" if v != v else float(v).hex()
        for x in ("pipeline_count", "is_first_readout", "is_last_readout"):
            ck[x] = ca[x]
        return ck

    obs, obs_rp, differ = [], [], False
    for k in range(0, len(log), 2):
        a, b = log[k], log[k + 1]
        if a["where"] != "first" or b["where"] != "last":
            return {"driver_error": f"probe order {a['where']}/{b['where']}"}
        if not same(a["clock"], b["clock"]) or not same(a["clock_rp"], b["clock_rp"]):
            return {"driver_error": f"clock changed inside a step: {a['clock']} / {b['clock']}"}
        if not same(a["clock"], a["clock_rp"]):
            differ = True
        obs.append(dict(clock=canon(a["clock"]), begin=a["buckets"], end=b["buckets"]))
        obs_rp.append(dict(clock=canon(a["clock_rp"]), begin=a["buckets"], end=b["buckets"]))
    out = dict(obs=obs)
    if differ:
        out["obs_rp"] = obs_rp      # the two public views of the clock disagree: both are judged
    return out


def handle(p):
    """p = the judged run; p["pre"] = the earlier runs made on the SAME detector object (a session).
    With p["all_runs"] the result of every run of the session is returned ({"outs": [...]})."""
    import verif_probes as vp
    import verif_probes_c02 as pc
    from harness import pyx

    runs = list(p.get("pre") or []) + [p]
    rows, cols = p.get("rows", 2), p.get("cols", 3)
    det = pyx.make_detector(kind=p.get("detector", "ccd"), rows=rows, cols=cols)
    vp.reset()
    pc.reset()
    _history(det, p.get("history", "fresh"), bool(runs[0]["nd"]), rows, cols)
    outs, ro = [], None
    for r in runs:
        out, ro = _one_run(det, r, ro)
        outs.append(out)
        if "driver_error" in out:
            return out
    return {"outs": outs} if p.get("all_runs") else outs[-1]
