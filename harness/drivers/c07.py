"""Implementation side of C07: run the SAME observation with_dask=False and with_dask=True (under the
requested dask schedulers) and report, for every entry of each result, the parameter label it sits
under, the parameter values the producing run received (decoded from the pixel bucket written by the
probe), and the trace counter (signal bucket).  Also: output files of the parallel run, island
creation order, DaskBFE evaluation."""
import itertools
import os
import re
import shutil

import numpy as np

RESERVED = ("time", "y", "x")
K = "pipeline.charge_collection.m.arguments."
GROUPS = ("photon_collection", "charge_collection", "charge_measurement")


def decode_trace(x):
    """trace column -> idents of the instances that executed, in execution order (None = not a trace)"""
    import verif_probes_c07 as vp

    if np.isnan(x) or x < 0 or x != int(x):
        return None
    d = vp.decode(int(x))
    if d is None or any(isinstance(e, list) for e in d):
        return None
    return list(reversed(d))


def _jl(v):
    """label value -> int | [int...]"""
    if isinstance(v, np.ndarray):
        if v.ndim == 0:
            return _jl(v.item())
        return [int(round(float(x))) for x in v.reshape(-1)]
    if isinstance(v, (tuple, list)):
        return [int(round(float(x))) for x in v]
    return int(round(float(v)))


def decode_settings(x):
    import verif_probes_c07 as vp

    if np.isnan(x) or x < 0 or x != int(x):
        return None
    d = vp.decode(int(x))
    if d is None or any(isinstance(e, list) for e in d):
        return None
    return d


def extras(arr, n, trace):
    """the columns after the n parameter columns: execution trace [, detector settings]"""
    out = []
    tr = decode_trace(arr[n])
    out.append(tr if tr is not None else [-88])
    if trace > 1:
        st = decode_settings(arr[n + 1])
        out.append(st if st is not None else [-88])
    return out


def dump(dt, names, kind, prefer_order=True, trace=0):
    """-> (shape, cells) ; cell = dict(label=[...], data=[...]|None, mem=int)"""
    import verif_probes_c07 as vp

    ds = dt["/bucket"].to_dataset().compute()
    pix = ds["pixel"]
    pdims = [d for d in pix.dims if d not in RESERVED]
    if prefer_order and all(n in pdims for n in names) and len(pdims) == len(names):
        pdims = list(names)
    shape = [int(ds.sizes[d]) for d in pdims]
    cells = []
    for pos in itertools.product(*[range(n) for n in shape]):
        sub = ds.isel(dict(zip(pdims, pos)))
        label = []
        for n in names:
            if n in sub.coords:
                label.append(_jl(sub.coords[n].values))
            else:
                label.append(-99)
        arr = np.asarray(sub["pixel"].values, dtype=float).reshape(-1)
        sig = np.asarray(sub["signal"].values, dtype=float).reshape(-1) if "signal" in sub else np.zeros(1)
        # the other buckets written by the probe must tell the same story (else the entry is reported as undecodable)
        aux_bad = False
        if kind in ("enc", "encs"):
            pho = np.asarray(sub["photon"].values, dtype=float).reshape(-1) if "photon" in sub else None
            if pho is None or pho.shape != arr.shape or not np.array_equal(pho, arr):
                aux_bad = True
        # sequential / custom mode: the run index is the 'id' coordinate
        if "id" in pdims and "id" in sub.coords and int(np.asarray(sub.coords["id"].values)) != pos[pdims.index("id")]:
            label = [-97] + label[1:]
        if kind == "encs":
            # one column per parameter: column k = code of the value parameter k's model instance received
            if arr.size != len(names) + trace or np.isnan(arr).any() or np.isnan(sig).any():
                data, mem = None, -1
            else:
                data = []
                for x in arr[:len(names)]:
                    dec = vp.decode(int(x))
                    data.append(dec[0] if dec is not None and len(dec) == 1 else -88)
                mem = int(sig.sum())
                if trace:
                    # the data of an entry ends with the instances that executed in the run that produced it
                    # ... and with the detector settings that run saw
                    data += extras(arr, len(names), trace)
                if aux_bad:
                    data, mem = None, -2
            cells.append(dict(label=label, data=data, mem=mem))
            continue
        if arr.size == 0 or np.isnan(arr).any() or not np.all(arr == arr[0]):
            data, mem = None, -1
        elif kind == "draw":
            c = int(arr[0])
            data, mem = [c % 2 ** 20, c // 2 ** 20], int(sig[0])
        else:
            data, mem = vp.decode(int(arr[0])), int(sig[0]) if not np.isnan(sig).any() else -1
            if data is not None and aux_bad:
                data, mem = None, -2
        cells.append(dict(label=label, data=data, mem=mem))
    return shape, cells


def keys_of(case):
    """the parameter keys of a case, in the order the parameters are listed"""
    if case["kind"] == "encs":
        return [("detector.environment.temperature" if arg == "T" else f"pipeline.charge_collection.m{j}.arguments.{arg}")
                for j, arg in case["layout"]]
    return [K + f"p{k}" for k in range(len(case["params"]))]


def names_of(case):
    """the dimension / coordinate name of every parameter: what the implementation's own naming function answers
    for the key (looked up BY KEY), else the documented rule (last component; '<model>.<argument>' when shared)"""
    keys = keys_of(case)
    try:
        from pyxel.observation.observation import _get_short_dimension_names_new as f

        m = f({k: None for k in keys})
        return [str(m[k]) for k in keys]
    except Exception:  # noqa: BLE001
        short = [k.split(".")[-1] for k in keys]
        return [s if short.count(s) == 1 else ".".join([k.split(".")[2], s]) for k, s in zip(keys, short)]


def build(case, with_dask, out_dir=None):
    from harness import pyx
    from pyxel.observation import Observation, ParameterValues

    det = pyx.make_detector(rows=1, cols=2)
    n = len(case["params"])
    if case["kind"] == "draw":
        args = dict(p0=0.0, n=case.get("ndraw", 1), sync=bool(case.get("sync")), first=float(case.get("first", 0)),
                    pause=case.get("pause", 0.0))
        func = "verif_probes_c07.draw"
    elif case["kind"] == "encs":
        func = None
    else:
        args = dict(nslots=n, sleep_scale=case.get("sleep_scale", 0.0), sleep_mult=case.get("sleep_mult", 1),
                    slow_sum=case.get("slow_sum"))
        for k, d in enumerate(case.get("defaults") or []):
            args[f"p{k}"] = [float(x) for x in d] if isinstance(d, list) else float(d)
        func = "verif_probes_c07.enc"
    if case["kind"] == "encs":
        # `pipe` (optional): every probe instance of the pipeline in execution order, [ident, enabled, group]; the
        # instances that own parameter slots are switched on and live in charge_collection (their keys say so); the
        # others are decoys: switched off (they must never execute) or on (order of execution).  With `pipe` the
        # detector has one more column: the execution trace
        plan = case.get("pipe")
        st = case.get("det") if plan else None
        if st:
            det = pyx.make_detector(rows=1, cols=n + 2, pre_amplification=float(st[0]), full_well_capacity=int(st[1]),
                                    adc_bit_resolution=int(st[2]), pixel_vert_size=float(st[4]), pixel_horz_size=float(st[5]))
            det.geometry.total_thickness = float(st[3])
        else:
            det = pyx.make_detector(rows=1, cols=n + (1 if plan else 0))
        if plan is None:
            plan = [[j, True, 1] for j in sorted({j for j, _ in case["layout"]})]
        groups = {}
        for j, enabled, grp in plan:
            margs = dict(ident=j, slots=",".join(f"{arg}:{k}" for k, (jj, arg) in enumerate(case["layout"]) if jj == j),
                         sleep_scale=case.get("sleep_scale", 0.0), sleep_mult=case.get("sleep_mult", 1),
                         slow_sum=case.get("slow_sum"))
            if case.get("pipe"):
                margs["trace"] = n
            for k, (jj, arg) in enumerate(case["layout"]):
                if jj == j:
                    d = (case.get("defaults") or [0] * n)[k]
                    if arg == "T":
                        det.environment.temperature = float(d)
                    else:
                        margs[arg] = [float(x) for x in d] if isinstance(d, list) else float(d)
            groups.setdefault(GROUPS[grp], []).append(dict(func="verif_probes_c07.encs", name=f"m{j}", arguments=margs,
                                                           enabled=bool(enabled)))
        pipe = pyx.make_pipeline({g: groups[g] for g in GROUPS if g in groups})
    else:
        pipe = pyx.make_pipeline({"charge_collection": [dict(func=func, name="m", arguments=args)]})
    keys = keys_of(case)
    params = []
    for k, p in enumerate(case["params"]):
        if case["mode"] == "custom":
            values = "_" if p["w"] is None else ["_"] * p["w"]
        else:
            values = [([float(x) for x in v] if isinstance(v, list) else float(v)) for v in p["values"]]
        params.append(ParameterValues(key=keys[k], values=values))
    kw = {}
    if case["mode"] == "custom":
        fname = os.path.abspath("c07_table.txt")
        with open(fname, "w") as fh:
            for row in case["table"]:
                fh.write(" ".join(repr(float(x)) for x in row) + "\n")
        kw = dict(from_file=fname, column_range=(0, len(case["table"][0]) if case["table"] else 0))
    outputs = None
    if out_dir is not None:
        from pyxel.outputs import ObservationOutputs
        outputs = ObservationOutputs(output_folder=out_dir, save_data_to_file=[{"detector.pixel.array": ["npy"]}])
    st = case.get("det") if case.get("pipe") and case["kind"] == "encs" else None
    readout = pyx.make_readout(times=[1.0])
    if st and len(st) >= 8:
        readout = pyx.make_readout(times=[float(st[6])], non_destructive=bool(st[7]))
    obs = Observation(parameters=params, mode=case["mode"], readout=readout,
                      with_dask=with_dask, outputs=outputs, pipeline_seed=case.get("pipeline_seed"), **kw)
    return det, pipe, obs


def snapshot(det, pipe):
    """the settings of the caller's objects that the swept keys address"""
    try:
        out = [repr(float(det.environment.temperature))]
    except Exception as ex:  # noqa: BLE001  (no temperature on this detector: a model that reads it would say so)
        out = ["?" + type(ex).__name__]
    try:
        for m in pipe.charge_collection.models:
            out.append(repr(sorted((k, repr(v)) for k, v in dict(m.arguments).items())))
    except Exception as ex:  # noqa: BLE001
        out.append("?" + type(ex).__name__)
    return out


def state_hash():
    import verif_probes as vp0
    return vp0.rng_state_hash()


def run_one(case, with_dask, sched=None, out_dir=None, meta_exec=None):
    """meta_exec: how many probe instances one run of the sequential path executed (what the metadata run of the
    parallel path, which works on a deep copy of the caller's processor, executes too)"""
    import dask
    import pyxel
    import verif_probes_c07 as vp

    vp.reset()
    names = names_of(case)
    res = {}
    trace = (0 if not case.get("pipe") or case["kind"] != "encs" else 2 if case.get("det") else 1)
    pool = None
    try:
        det, pipe, obs = build(case, with_dask, out_dir)
        cfg, pool = sched_config(sched)
        if sched and sched.get("pre"):
            # the caller's objects went through pickle before the observation is run on them
            mod = __import__(sched["pre"])
            det, pipe = mod.loads(mod.dumps((det, pipe)))
        before = state_hash()
        snap0 = snapshot(det, pipe)
        with dask.config.set(**cfg):
            dt = pyxel.run_mode(mode=obs, detector=det, pipeline=pipe, with_inherited_coords=True)
            shape, cells = dump(dt, names, case["kind"], trace=trace)
        if case["kind"] in ("enc", "encs") and cells and snapshot(det, pipe) != snap0:
            # the runs must work on copies: the caller's detector / pipeline keep the settings they had
            cells[0]["mem"] += 1000
        res = dict(shape=shape, cells=cells, leak=int(state_hash() != before))
        if case["kind"] in ("enc", "encs") and with_dask and cells and in_process(sched):
            # every cell is computed exactly once (+ the one metadata run): surplus executions are added to the trace
            # counter of the first cell (the model expects 0).  Only the models that are switched on execute.
            nmod = len({j for j, _ in case["layout"]}) if case["kind"] == "encs" else 1
            if case["kind"] == "encs" and case.get("pipe"):
                nmod = sum(1 for _, enabled, _ in case["pipe"] if enabled)
            ntask = 1
            for n_ in shape:
                ntask *= n_
            expected = nmod * (ntask + 1)
            if trace and all(c.get("data") for c in cells):
                # with an execution trace: every entry says which instances ran for it; the metadata run works on
                # the caller's processor (on its unpickled copy when the caller's objects went through pickle)
                # (a deep copy of the caller's processor; the caller's objects are the unpickled ones under "pre")
                tr = [c["data"][len(names)] for c in cells]
                tasks_pickled = bool(sched) and sched.get("scheduler") == "processes"
                expected = sum(len(t) for t in tr) + (len(tr[0]) if not tasks_pickled else
                                                      meta_exec if meta_exec is not None else nmod)
            res["executions"] = vp.EXEC["n"]
            cells[0]["mem"] += abs(vp.EXEC["n"] - expected)
        if out_dir is not None:
            res["files"] = read_files(out_dir, case["kind"], len(names) if trace else None, trace)
    except Exception as ex:  # noqa: BLE001
        res = dict(raised=type(ex).__name__, msg=str(ex)[:200])
    finally:
        if pool is not None and hasattr(pool, "shutdown"):
            pool.shutdown()
    return res


def in_process(sched) -> bool:
    """do the tasks execute in THIS process (so that the probes' execution counter sees them)?"""
    return not sched or sched.get("scheduler") != "processes" or bool(sched.get("pool"))


def sched_config(sched):
    """dask configuration of a scheduler description.  {"scheduler": "processes", "pool": "sync" | "threads"}: dask's
    process-pool scheduler (dask.multiprocessing.get: every task is serialised with cloudpickle and unpickled by the
    worker that executes it) with an IN-PROCESS executor -- exactly what a worker process receives, without
    starting processes."""
    cfg, pool = {}, None
    if sched:
        cfg["scheduler"] = sched["scheduler"]
        if sched.get("workers"):
            cfg["num_workers"] = sched["workers"]
        if sched.get("pool") == "sync":
            from dask.local import SynchronousExecutor
            pool = SynchronousExecutor()
        elif sched.get("pool") == "threads":
            from concurrent.futures import ThreadPoolExecutor
            pool = ThreadPoolExecutor(sched.get("workers") or 2)
        if pool is not None:
            cfg["pool"] = pool
    return cfg, pool


def read_files(out_dir, kind="enc", ntrace=None, trace=1):
    import verif_probes_c07 as vp

    def dec(a):
        if kind == "encs":
            out = []
            for x in (a if ntrace is None else a[:ntrace]):
                d = vp.decode(int(x)) if not np.isnan(x) else None
                out.append(d[0] if d is not None and len(d) == 1 else -88)
            if ntrace is not None:
                out += extras(a, ntrace, trace) if a.size == ntrace + trace else [[-88]] * trace
            return out
        return vp.decode(int(a[0])) if a.size and np.all(a == a[0]) else None

    files = []
    for root, _, fs in os.walk(out_dir):
        for f in fs:
            if f.endswith(".npy"):
                m = re.search(r"_(\d+)\.npy$", f)
                a = np.load(os.path.join(root, f))
                a = np.asarray(a, dtype=float).reshape(-1)
                files.append(dict(index=int(m.group(1)) if m else -1, name=f,
                                  data=dec(a)))
    files.sort(key=lambda d: (d["index"], d["name"]))
    return files


def handle_obs(case):
    np.random.seed(case.get("global_seed", 12345))
    seq = run_one(case, False)
    dasks = []
    for k, sched in enumerate(case["scheds"]):
        out_dir = None
        if case.get("outputs"):
            out_dir = os.path.abspath(f"c07_out_{k}")
            shutil.rmtree(out_dir, ignore_errors=True)
        np.random.seed(case.get("global_seed", 12345))
        meta_exec = None
        if case.get("pipe") and seq.get("cells") and seq["cells"][0].get("data"):
            meta_exec = len(seq["cells"][0]["data"][len(case["params"])])
        dasks.append(run_one(case, True, sched, out_dir, meta_exec))
    return dict(seq=seq, dask=dasks)


def fitting_problem(case):
    """pyxel's own calibration problem (ModelFittingDataTree) on a pipeline with one fitted model and models that are
    SWITCHED OFF: whoever evaluates a candidate -- this thread, a pool thread, a worker that received the problem
    through pickle -- must simulate the same data.  case["fit"] = dict(pattern, target, off=[positions of the switched
    -off models in the model list])"""
    import logging

    import pyxel.calibration.fitting_datatree as fdt
    from harness import pyx
    from pyxel.calibration import FitRange2D
    from pyxel.exposure import Readout
    from pyxel.observation import ParameterValues
    from pyxel.pipelines import Processor
    from pyxel.pipelines.model_function import FitnessFunction

    logging.disable(logging.CRITICAL)
    fit = case["fit"]
    pat = [[float(v) for v in row] for row in fit["pattern"]]
    rows, cols = len(pat), len(pat[0])
    det = pyx.make_detector(rows=rows, cols=cols)
    models = [dict(func="verif_probes_c07.calprobe", name="cal", arguments=dict(pattern=pat, gain=1.0, bias=0.0))]
    for k, pos in enumerate(fit.get("off", [])):
        models.insert(min(pos, len(models)), dict(func="verif_probes_c07.calprobe", name=f"off{k}", enabled=False,
                                                  arguments=dict(pattern=[[64.0 * (k + 1)] * cols] * rows)))
    pipe = pyx.make_pipeline({"charge_collection": models})
    proc = Processor(detector=det, pipeline=pipe)
    variables = [ParameterValues(key="pipeline.charge_collection.cal.arguments.gain", values="_", logarithmic=False,
                                 boundaries=(0.0, 8.0)),
                 ParameterValues(key="pipeline.charge_collection.cal.arguments.bias", values="_", logarithmic=False,
                                 boundaries=(-4.0, 4.0))]
    fn = os.path.abspath("c07_target.npy")
    np.save(fn, np.array(fit["target"], dtype=float))
    rng = FitRange2D(row=slice(0, rows), col=slice(0, cols))
    return fdt.ModelFittingDataTree(
        processor=proc, variables=variables, readout=Readout(), simulation_output="pixel", generations=1,
        population_size=5, fitness_func=FitnessFunction(func="verif_probes_c07.absdiff", arguments=None), file_path=None,
        target_fit_range=rng, out_fit_range=rng, target_filenames=[fn], input_arguments=None, weights=None,
        weights_from_file=None)


def handle_islands(case):
    """ArchipelagoDataTree._build with parallel=False / True (optionally with the dask batch fitness evaluator, under a
    dask scheduler, followed by one evolution): per island the seed of its population, the first fitness and -- after
    the evolution -- the champion.  The global pygmo seed is set before each construction, like run_calibration does."""
    import dask
    import pygmo as pg
    import verif_probes_c07 as vp
    from pyxel.calibration import Algorithm
    from pyxel.calibration.archipelago_datatree import ArchipelagoDataTree
    from pyxel.calibration.user_defined import DaskBFE, DaskIsland

    def q(x):
        return int(round(float(x) * 2 ** 20))

    def one(par, sched):
        cfg, pool = sched_config(sched)
        try:
            with dask.config.set(**cfg):
                pg.set_global_rng_seed(seed=case["seed"] % 100000)
                algo = Algorithm(type="sade", generations=case.get("generations", 1), population_size=case["pop"])
                arch = ArchipelagoDataTree(num_islands=case["n"], udi=DaskIsland(), algorithm=algo,
                                           problem=(fitting_problem(case) if case.get("fit") else
                                                    vp.SlowProblem(case.get("scale", 0.0) if par else 0.0)),
                                           topology=pg.unconnected(), pop_size=case["pop"], pygmo_seed=case["seed"],
                                           bfe=(DaskBFE(chunk_size=case.get("chunk")) if case.get("bfe") else None),
                                           parallel=par)
                isl = []
                for island in arch._pygmo_archi:
                    pop = island.get_population()
                    isl.append(dict(seed=int(pop.get_seed()) % (2 ** 31), f0=q(pop.get_f()[0][0]) if case.get("fit")
                                    else int(pop.get_f()[0][0])))
                if case.get("evolve") and not par:
                    # the reference: every island's algorithm evolves its population here, one after the other, in
                    # this thread -- no island threads, no dask
                    for k, island in enumerate(arch._pygmo_archi):
                        pop = island.get_algorithm().evolve(island.get_population())
                        isl[k]["champ_f"] = q(pop.champion_f[0]) if case.get("fit") else int(pop.champion_f[0])
                        isl[k]["champ_x"] = [q(x) for x in pop.champion_x]
                elif case.get("evolve"):
                    arch._pygmo_archi.evolve()          # every island in its own thread, DaskIsland.run_evolve
                    arch._pygmo_archi.wait_check()
                    for k, island in enumerate(arch._pygmo_archi):
                        pop = island.get_population()
                        isl[k]["champ_f"] = q(pop.champion_f[0]) if case.get("fit") else int(pop.champion_f[0])
                        isl[k]["champ_x"] = [q(x) for x in pop.champion_x]
            return isl
        except Exception as ex:  # noqa: BLE001
            return dict(raised=type(ex).__name__, msg=str(ex)[:200])
        finally:
            if pool is not None and hasattr(pool, "shutdown"):
                pool.shutdown()

    out = dict(seq=one(False, dict(scheduler="synchronous")))
    pars = []
    for sched in case.get("scheds") or [None]:
        pars.append(one(True, sched))
    out["par"] = pars[0]
    out["pars"] = pars
    return out


def handle_bfe(case):
    """DaskBFE(chunk)(prob, dvs) under a scheduler vs. prob.fitness one by one."""
    import dask
    import pygmo as pg
    import verif_probes_c07 as vp
    from pyxel.calibration.user_defined import DaskBFE

    fit = bool(case.get("fit"))
    prob = pg.problem(fitting_problem(case) if fit else vp.SlowProblem(0.0))
    rng = np.random.default_rng(case["seed"])
    dvs = rng.integers(0, 1024, size=(case["n"], 2)) / 1024.0
    if fit:
        # candidates (gain, bias) inside the bounds, dyadic: the figure of merit is exact
        dvs = np.stack([rng.integers(0, 32, size=case["n"]) / 4.0, rng.integers(-16, 17, size=case["n"]) / 4.0], axis=1)

    def val(v):
        return int(round(float(v) * 1024)) if fit else int(v)

    seq = [val(prob.fitness(dv)[0]) for dv in dvs]
    outs = []
    for sched in case["scheds"]:
        try:
            slow = prob if fit else pg.problem(vp.SlowProblem(case.get("scale", 0.0)))
            cfg, pool = sched_config(sched)
            try:
                with dask.config.set(**cfg):
                    r = DaskBFE(chunk_size=case["chunk"])(slow, dvs.reshape(-1))
                    r = np.asarray(r.compute() if hasattr(r, "compute") else r)
            finally:
                if pool is not None and hasattr(pool, "shutdown"):
                    pool.shutdown()
            outs.append(dict(values=[val(v) for v in r.reshape(-1)]))
        except Exception as ex:  # noqa: BLE001
            outs.append(dict(raised=type(ex).__name__, msg=str(ex)[:200]))
    return dict(seq=seq, dask=outs)


def handle(case):
    if case["kind"] == "islands":
        return handle_islands(case)
    if case["kind"] == "bfe":
        return handle_bfe(case)
    return handle_obs(case)
