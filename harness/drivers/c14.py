"""Implementation side of C14: run op sequences on a real `detector.charge`.

payload = {"mode": "nojit" | "checked" | "default", "per_child": n, "cases": [case, ...]}
  nojit    NUMBA_DISABLE_JIT=1: the njit loop of convert_df_to_array runs as plain Python (numpy indexing:
           negative indices wrap, out-of-range raises IndexError) -- fast, cannot corrupt memory
  checked  real numba JIT with NUMBA_BOUNDSCHECK=1: an out-of-bounds access raises IndexError instead of
           writing outside the buffer -- cannot corrupt memory
  default  numba's default configuration (unchecked indexing), run in child processes (`per_child`
           cases per child; 1 for cases that may write out of bounds) so that heap corruption cannot
           reach the worker
case = {"rows","cols","ph","pw","reset_via": "charge"|"detector",
        "ops":[{"op": "arr","a":[[..]],"dt":"f8"|"f4"|"f2"} | {"op":"cl","cs":[[n,v,h],..]} |
        {"op":"read"} (.array) | {"op":"xr"} (.to_xarray()) | {"op":"np"} (np.asarray(charge)) | {"op":"frame"} | {"op":"rmall"} | {"op":"rm","ids":[..]} |
        {"op":"reset"} (charge.empty() or detector.empty())]}
result per case = {"trace": [{"o": "unit"|"raise"|"corrupt"|"arr", "m": [[float]], "f": [[id,n,v,h],..]}, ...],
                   "crashed": bool}
All numbers are Python floats with exact (dyadic) values; json round-trips them exactly.

Heap cases (case["heap"] is true; object identity, Model/ChargeHeap.v): the caller keeps the array / DataFrame OBJECTS
it passes and the array objects it receives, and mutates them between container operations:
  {"op":"new","a":[[..]],"dt":"f8"|"f4"|"f2","order":"C"|"F"}     the caller allocates an array (argument k = k-th `new`)
  {"op":"write","h":["arg",k]|["res",j],"a":[[..]]}                 the caller overwrites an array it holds (j-th read result)
  {"op":"add","h":["arg",k]|["res",j],"via":"direct"|"view"|"ro"}   charge.add_charge_array(<that object / a view / a read-only view>)
  {"op":"newdf","cs":[[n,v,h],..]}                                  the caller builds a DataFrame (Charge.create_charges)
  {"op":"writedf","k":k,"cs":[[n,v,h],..]}                          the caller modifies its k-th DataFrame IN PLACE (drops trailing
                                                                    rows if shorter, then assigns the three columns)
  {"op":"adddf","k":k}                                              charge.add_charge_dataframe(<that object>)
  {"op":"cl","cs":[..]}                                             add_charge; the arrays passed are scribbled over afterwards
  reads / frame / removals / reset as above
each trace record additionally carries "args" (content of every caller array), "xr" (content of every array returned by
to_xarray) and "dfs" (the (number, position_ver, position_hor) rows of every caller DataFrame) AFTER the op.
"""
import json
import os
import subprocess
import sys


def _frame(ch):
    fr = ch.frame
    idx = [int(i) for i in fr.index]
    n = [float(x) for x in fr["number"].values]
    v = [float(x) for x in fr["position_ver"].values]
    h = [float(x) for x in fr["position_hor"].values]
    return [[i, a, b, c] for i, a, b, c in zip(idx, n, v, h)]


def _mat(a):
    return [[float(x) for x in row] for row in a]


def _mk_df(cs):
    import numpy as np
    from pyxel.data_structure import Charge

    n = len(cs)
    z = np.zeros(n)
    return Charge.create_charges(
        particle_type="e",
        particles_per_cluster=np.array([c[0] for c in cs], dtype=float),
        init_energy=z.copy(),
        init_ver_position=np.array([c[1] for c in cs], dtype=float),
        init_hor_position=np.array([c[2] for c in cs], dtype=float),
        init_z_position=z.copy(), init_ver_velocity=z.copy(), init_hor_velocity=z.copy(), init_z_velocity=z.copy(),
    )


def run_hcase(case):
    """Object identity: the caller keeps and mutates what it passes to / receives from the container."""
    import numpy as np
    from harness.pyx import make_detector

    det = make_detector("ccd", rows=case["rows"], cols=case["cols"], pixel_vert_size=case["ph"],
                        pixel_horz_size=case["pw"])
    ch = det.charge
    args, res, dfs, keep = [], [], [], []      # keep: objects that own the memory of a result (the DataArray)
    trace = []
    for o in case["ops"]:
        k = o["op"]
        rec = {"o": "unit"}
        try:
            if k == "new":
                dt = {"f8": np.float64, "f4": np.float32, "f2": np.float16}[o.get("dt", "f8")]
                args.append(np.array(o["a"], dtype=dt, order=o.get("order", "C")))
            elif k == "write":
                kind, i = o["h"]
                pool = args if kind == "arg" else [x[1] for x in res]
                if i < len(pool):                      # a handle to nothing is no operation (as in the model)
                    tgt = pool[i]
                    tgt[...] = np.array(o["a"], dtype=tgt.dtype)
            elif k == "add":
                kind, i = o["h"]
                pool = args if kind == "arg" else [x[1] for x in res]
                if i < len(pool):
                    obj = pool[i]
                    via = o.get("via", "direct")
                    if via == "view":
                        obj = obj.view()
                    elif via == "ro":
                        obj = obj.view()
                        obj.flags.writeable = False
                    ch.add_charge_array(obj)
            elif k == "newdf":
                dfs.append(_mk_df(o["cs"]))
            elif k == "writedf" and o["k"] < len(dfs):
                df, cs = dfs[o["k"]], o["cs"]
                if len(cs) < len(df):
                    df.drop(index=df.index[len(cs):], inplace=True)
                df["number"] = np.array([c[0] for c in cs], dtype=float)
                df["position_ver"] = np.array([c[1] for c in cs], dtype=float)
                df["position_hor"] = np.array([c[2] for c in cs], dtype=float)
            elif k == "adddf":
                if o["k"] < len(dfs):
                    ch.add_charge_dataframe(dfs[o["k"]])
            elif k == "writedf":
                pass
            elif k == "cl":
                cs = o["cs"]
                n = len(cs)
                arrs = dict(
                    particles_per_cluster=np.array([c[0] for c in cs], dtype=float), init_energy=np.zeros(n),
                    init_ver_position=np.array([c[1] for c in cs], dtype=float),
                    init_hor_position=np.array([c[2] for c in cs], dtype=float), init_z_position=np.zeros(n),
                    init_ver_velocity=np.zeros(n), init_hor_velocity=np.zeros(n), init_z_velocity=np.zeros(n))
                ch.add_charge(particle_type="e", **arrs)
                # the caller recycles its buffers: nothing of this may reach the container
                arrs["particles_per_cluster"][...] = 977.0
                arrs["init_ver_position"][...] = case["ph"] / 4
                arrs["init_hor_position"][...] = case["pw"] / 4
            elif k in ("read", "xr", "np"):
                if k == "read":
                    obj = ch.array
                elif k == "xr":
                    da = ch.to_xarray()
                    keep.append(da)
                    obj = da.values
                else:
                    obj = np.asarray(ch)
                res.append((k, obj))
                m = np.array(obj, dtype=float, copy=True)
                if m.ndim != 2:
                    rec = {"o": "raise", "cls": f"ndim{m.ndim}"}
                else:
                    rec = {"o": "arr", "m": _mat(m)}
            elif k == "frame":
                _ = ch.frame
            elif k == "rmall":
                ch.remove_from_frame()
            elif k == "rm":
                ch.remove_from_frame(list(o["ids"]))
            elif k == "reset":
                if case.get("reset_via") == "detector":
                    det.empty()
                else:
                    ch.empty()
            else:
                raise RuntimeError(f"unknown op {k}")
        except IndexError as ex:
            rec = {"o": "corrupt", "cls": "IndexError", "msg": str(ex)[:120]}
        except (ValueError, TypeError) as ex:
            rec = {"o": "raise", "cls": type(ex).__name__, "msg": str(ex)[:120]}
        try:
            rec["f"] = _frame(ch)
        except Exception as ex:  # noqa: BLE001
            rec["f"] = []
            rec["frame_error"] = type(ex).__name__
        rec["args"] = [_mat(a) if a.ndim == 2 else [] for a in args]
        rec["xr"] = [_mat(a) if a.ndim == 2 else [] for kk, a in res if kk == "xr"]
        rec["dfs"] = [[[float(a), float(b), float(c)] for a, b, c in
                       zip(df["number"].values, df["position_ver"].values, df["position_hor"].values)] for df in dfs]
        trace.append(rec)
        if rec["o"] == "corrupt":
            break
    return {"trace": trace, "crashed": False}


def run_case(case, stop_on_corrupt=True):
    import numpy as np
    from harness.pyx import make_detector

    if case.get("heap"):
        return run_hcase(case)

    det = make_detector("ccd", rows=case["rows"], cols=case["cols"], pixel_vert_size=case["ph"],
                        pixel_horz_size=case["pw"])
    ch = det.charge
    trace = []
    for o in case["ops"]:
        k = o["op"]
        rec = {"o": "unit"}
        try:
            if k == "arr":
                dt = {"f8": np.float64, "f4": np.float32, "f2": np.float16}[o.get("dt", "f8")]
                ch.add_charge_array(np.array(o["a"], dtype=dt))
            elif k == "cl":
                cs = o["cs"]
                n = len(cs)
                z = np.zeros(n)
                ch.add_charge(
                    particle_type="e",
                    particles_per_cluster=np.array([c[0] for c in cs], dtype=float),
                    init_energy=z.copy(),
                    init_ver_position=np.array([c[1] for c in cs], dtype=float),
                    init_hor_position=np.array([c[2] for c in cs], dtype=float),
                    init_z_position=z.copy(), init_ver_velocity=z.copy(), init_hor_velocity=z.copy(),
                    init_z_velocity=z.copy(),
                )
            elif k in ("read", "xr", "np"):
                src = ch.array if k == "read" else (ch.to_xarray().values if k == "xr" else np.asarray(ch))
                m = np.array(src, dtype=float, copy=True)
                if m.ndim != 2:
                    rec = {"o": "raise", "cls": f"ndim{m.ndim}"}
                else:
                    rec = {"o": "arr", "m": [[float(x) for x in row] for row in m]}
            elif k == "frame":
                _ = ch.frame
            elif k == "rmall":
                ch.remove_from_frame()
            elif k == "rm":
                ch.remove_from_frame(list(o["ids"]))
            elif k == "reset":
                if case.get("reset_via") == "detector":
                    det.empty()
                else:
                    ch.empty()
            else:
                raise RuntimeError(f"unknown op {k}")
        except IndexError as ex:
            # bounds-checked run: the loop accessed the array out of bounds
            rec = {"o": "corrupt", "cls": "IndexError", "msg": str(ex)[:120]}
        except (ValueError, TypeError) as ex:
            rec = {"o": "raise", "cls": type(ex).__name__, "msg": str(ex)[:120]}
        try:
            rec["f"] = _frame(ch)
        except Exception as ex:  # noqa: BLE001
            rec["f"] = []
            rec["frame_error"] = type(ex).__name__
        trace.append(rec)
        if rec["o"] == "corrupt" and stop_on_corrupt:
            break
    return {"trace": trace, "crashed": False}


def _children(cases, per_child):
    """Default numba configuration, isolated: `per_child` cases per child process."""
    out = []
    env = dict(os.environ)
    env.pop("NUMBA_BOUNDSCHECK", None)
    env.pop("NUMBA_DISABLE_JIT", None)
    i = 0
    while i < len(cases):
        group = cases[i:i + per_child]
        try:
            r = subprocess.run([sys.executable, "-B", "-m", "harness.drivers.c14", "child"],
                               input=json.dumps(group), capture_output=True, text=True, env=env, timeout=600)
            rc, so, se = r.returncode, r.stdout, r.stderr
        except subprocess.TimeoutExpired:
            rc, so, se = -999, "", "timeout"
        done = []
        for line in so.splitlines():
            if line.startswith("@@"):
                try:
                    done.append(json.loads(line[2:]))
                except ValueError:
                    break
        done = done[:len(group)]
        for d in done:
            out.append(d)
        if len(done) < len(group):
            # the child died while running case number len(done)
            out.append({"trace": [], "crashed": True, "rc": rc, "stderr": se[-300:]})
            i += len(done) + 1
            continue
        if rc != 0:
            # all cases answered but the process died afterwards (e.g. glibc heap check at exit)
            out[-1] = dict(out[-1], crashed=True, rc=rc, stderr=se[-300:])
        i += len(group)
    return out


def handle(p):
    mode = p["mode"]
    if mode == "default":
        return {"results": _children(p["cases"], int(p.get("per_child", 1)))}
    if "numba" in sys.modules:
        import numba

        want = (mode == "nojit", mode == "checked")
        have = (bool(numba.config.DISABLE_JIT), bool(numba.config.BOUNDSCHECK))
        if want != have:
            raise RuntimeError(f"numba already configured {have}, wanted {want}")
    else:
        os.environ.pop("NUMBA_BOUNDSCHECK", None)
        os.environ.pop("NUMBA_DISABLE_JIT", None)
        if mode == "nojit":
            os.environ["NUMBA_DISABLE_JIT"] = "1"
        elif mode == "checked":
            os.environ["NUMBA_BOUNDSCHECK"] = "1"
        else:
            raise RuntimeError(f"unknown mode {mode}")
    return {"results": [run_case(c) for c in p["cases"]]}


def _child_main():
    import warnings

    warnings.filterwarnings("ignore")
    cases = json.loads(sys.stdin.read())
    for c in cases:
        try:
            res = run_case(c, stop_on_corrupt=False)
        except BaseException as ex:  # noqa: BLE001
            res = {"trace": [], "crashed": False, "driver_error": f"{type(ex).__name__}: {ex}"}
        sys.stdout.write("@@" + json.dumps(res) + "\n")
        sys.stdout.flush()


if __name__ == "__main__" and len(sys.argv) > 1 and sys.argv[1] == "child":
    _child_main()
