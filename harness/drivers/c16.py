"""Implementation side of C16: run the real converters on a 1 x n signal frame."""
import numpy as np


def _f(h):
    return float.fromhex(h) if isinstance(h, str) and h not in ("nan",) else float(h)


class _FakeNormal:
    """Stand-in for np.random.normal while the noisy converter runs: the k-th call returns an array filled with
    loc + scale * zs[k] (the same draw for every pixel), so that the per-bit perturbations are known exactly."""

    def __init__(self, zs):
        self.zs, self.k = list(zs), 0

    def __call__(self, loc=0.0, scale=1.0, size=None):
        z = self.zs[self.k]
        self.k += 1
        return np.full(size, float(loc) + float(scale) * z)


def handle(p):
    if p["kind"] == "hist":
        return _handle_hist(p)
    orig = np.random.normal
    if p["kind"] == "sarp":
        np.random.normal = _FakeNormal([_f(h) for h in p["zs"]])
    try:
        return _handle(p)
    finally:
        np.random.normal = orig


def _handle(p):
    from pyxel.detectors import CCD, CCDGeometry, Characteristics, Environment

    bits = p["bits"]
    vmin, vmax = _f(p["vmin"]), _f(p["vmax"])
    xs = np.array([[_f(h) for h in p["xs"]]], dtype=float).astype(p.get("frame", "float64"))
    kind, path = p["kind"], p.get("path", "model")
    dt = p.get("data_type")            # simple only: width of an explicit output type, or None
    n_str, n_noi = p.get("n_strengths", bits), p.get("n_noises", bits)
    try:
        with np.errstate(all="ignore"):
            if path == "model":
                det = CCD(
                    geometry=CCDGeometry(row=1, col=xs.shape[1], total_thickness=40.0,
                                         pixel_vert_size=10.0, pixel_horz_size=10.0),
                    environment=Environment(),
                    characteristics=Characteristics(adc_bit_resolution=bits, adc_voltage_range=(vmin, vmax)),
                )
                det.signal.array = xs.copy()
                if kind == "simple":
                    from pyxel.models.readout_electronics import simple_adc
                    if dt is None:
                        simple_adc(det)
                    else:
                        simple_adc(det, data_type=f"uint{dt}")
                elif kind == "sar":
                    from pyxel.models.readout_electronics import sar_adc
                    sar_adc(det)
                elif kind == "sarp":
                    from pyxel.models.readout_electronics import sar_adc_with_noise
                    sar_adc_with_noise(det, strengths=tuple(_f(h) for h in p["strengths"]),
                                       noises=tuple(_f(h) for h in p["noises"]))
                else:
                    from pyxel.models.readout_electronics import sar_adc_with_noise
                    sar_adc_with_noise(det, strengths=tuple([0.0] * n_str), noises=tuple([0.0] * n_noi))
                out = det.image.array
            else:
                from pyxel.util import get_dtype
                if kind == "simple":
                    from pyxel.models.readout_electronics.simple_adc import apply_simple_adc
                    out = apply_simple_adc(signal=xs.copy(), bit_resolution=bits, voltage_min=vmin,
                                           voltage_max=vmax,
                                           dtype=get_dtype(bits) if dt is None else np.dtype(f"uint{dt}"))
                elif kind == "sar":
                    from pyxel.models.readout_electronics.sar_adc import apply_sar_adc
                    out = apply_sar_adc(signal_2d=xs.copy(), num_rows=1, num_cols=xs.shape[1],
                                        min_volt=vmin, max_volt=vmax, adc_bits=bits)
                elif kind == "sarp":
                    from pyxel.models.readout_electronics.sar_adc_with_noise import apply_sar_adc_with_noise
                    out = apply_sar_adc_with_noise(signal_2d=xs.copy(), num_rows=1, num_cols=xs.shape[1],
                                                   strengths=np.array([_f(h) for h in p["strengths"]], dtype=float),
                                                   noises=np.array([_f(h) for h in p["noises"]], dtype=float),
                                                   max_volt=vmax, adc_bits=bits)
                else:
                    from pyxel.models.readout_electronics.sar_adc_with_noise import apply_sar_adc_with_noise
                    out = apply_sar_adc_with_noise(signal_2d=xs.copy(), num_rows=1, num_cols=xs.shape[1],
                                                   strengths=np.zeros(bits), noises=np.zeros(bits),
                                                   max_volt=vmax, adc_bits=bits)
        out = np.asarray(out)
        if out.dtype.kind != "u":
            return {"raise": f"dtype:{out.dtype}"}
        res = {"width": out.dtype.itemsize * 8, "codes": [int(v) for v in out.reshape(-1)]}
        if kind == "sar0":
            # the noise-free converter on the same frame (zero noise must reproduce it exactly)
            from pyxel.models.readout_electronics.sar_adc import apply_sar_adc
            with np.errstate(all="ignore"):
                tw = apply_sar_adc(signal_2d=xs.copy(), num_rows=1, num_cols=xs.shape[1],
                                   min_volt=vmin, max_volt=vmax, adc_bits=bits)
            res["twin"] = [int(v) for v in np.asarray(tw).reshape(-1)]
        return res
    except Exception as ex:  # noqa: BLE001
        return {"raise": type(ex).__name__, "msg": str(ex)[:200]}


# ------------------------------------------------------------------------------------------ histories


def _image_of(det):
    """What the Image bucket holds: None = empty."""
    arr = det.image._array
    if arr is None:
        return None
    arr = np.asarray(arr)
    if arr.dtype.kind != "u":
        return {"bad_dtype": str(arr.dtype), "codes": [int(v) for v in arr.reshape(-1)]}
    return {"width": arr.dtype.itemsize * 8, "codes": [int(v) for v in arr.reshape(-1)]}


def _handle_hist(p):
    """A history of operations on ONE detector object: setters of detector.characteristics, a new signal frame,
    emptying the Image bucket, the three detector-level converter models.  After every operation: did it raise,
    what does the Image bucket hold, and did the Signal bucket still hold the frame last put there."""
    from pyxel.detectors import CCD, CCDGeometry, Characteristics, Environment
    from pyxel.models.readout_electronics import sar_adc, sar_adc_with_noise, simple_adc

    def frame_of(hs, tp):
        return np.array([[_f(h) for h in hs]], dtype=float).astype(tp)

    last = frame_of(p["xs"], p.get("frame", "float64"))
    det = CCD(
        geometry=CCDGeometry(row=1, col=last.shape[1], total_thickness=40.0,
                             pixel_vert_size=10.0, pixel_horz_size=10.0),
        environment=Environment(),
        characteristics=Characteristics(adc_bit_resolution=p["bits"],
                                        adc_voltage_range=(_f(p["vmin"]), _f(p["vmax"]))),
    )
    det.signal.array = last.copy()
    for op in p["ops"]:
        if op.get("op") not in ("bits", "range", "signal", "empty", "simple", "sar", "sar0", "sarp"):
            return {"driver_error": f"unknown operation {op.get('op')}"}
    out = []
    orig = np.random.normal
    for op in p["ops"]:
        cur = det.signal._array
        sig_ok = bool(cur is not None and cur.dtype == last.dtype and cur.shape == last.shape
                      and cur.tobytes() == last.tobytes())
        raised = None
        try:
            with np.errstate(all="ignore"):
                k = op["op"]
                if k == "bits":
                    det.characteristics.adc_bit_resolution = op["b"]
                elif k == "range":
                    det.characteristics.adc_voltage_range = (_f(op["vmin"]), _f(op["vmax"]))
                elif k == "signal":
                    new = frame_of(op["xs"], op.get("frame", "float64"))
                    det.signal.array = new.copy()
                    last = new
                elif k == "empty":
                    if op.get("how") == "detector":
                        # Detector.empty() (what every readout of a pipeline run does first), signal put back
                        det.empty()
                        det.signal.array = last.copy()
                    else:
                        det.image.empty()
                elif k == "simple":
                    if op.get("data_type") is None:
                        simple_adc(det)
                    else:
                        simple_adc(det, data_type=f"uint{op['data_type']}")
                elif k == "sar":
                    sar_adc(det)
                elif k == "sar0":
                    sar_adc_with_noise(det, strengths=tuple([0.0] * op["n_strengths"]),
                                       noises=tuple([0.0] * op["n_noises"]))
                elif k == "sarp":
                    np.random.normal = _FakeNormal([_f(h) for h in op["zs"]])
                    try:
                        sar_adc_with_noise(det, strengths=tuple(_f(h) for h in op["strengths"]),
                                           noises=tuple(_f(h) for h in op["noises"]))
                    finally:
                        np.random.normal = orig
        except Exception as ex:  # noqa: BLE001
            raised = type(ex).__name__
        out.append({"raised": raised, "image": _image_of(det), "sig_ok": sig_ok})
    return {"trace": out}
