"""Implementation side of C12.

payload kinds
  guard    : drive one value into one validated field along one path (ctor | yaml | attr | sweep)
  keys     : pyxel.load a document with the given top-level keys (0/1/2.. modes and detectors)
  settings : pyxel.load a generated document, read every setting back; optionally run it and run the
             same objects built in Python (independently of pyxel.configuration) and compare the results
"""
from __future__ import annotations

import copy
import math
import os
from pathlib import Path

import numpy as np

SECTION = {"Geometry": "geometry", "Characteristics": "characteristics", "Environment": "environment",
           "APDCharacteristics": "characteristics"}
DET_KEY = {"ccd": "ccd_detector", "cmos": "cmos_detector", "mkid": "mkid_detector", "apd": "apd_detector"}
GROUPS = ("scene_generation", "photon_collection", "phasing", "charge_generation", "charge_collection",
          "charge_transfer", "charge_measurement", "signal_transfer", "readout_electronics", "data_processing")

_counter = [0]


def _fresh(name: str) -> Path:
    _counter[0] += 1
    return Path(f"c12_{os.getpid()}_{_counter[0]}_{name}")


# ------------------------------------------------------------------------------------------ values


def dec(x):
    t = x["t"]
    if t == "none":
        return None
    if t == "nan":
        return float("nan")
    if t == "int":
        return int(x["v"])
    if t == "float":
        return float.fromhex(x["v"])
    if t == "seq":
        return [float(i) for i in range(x["n"])]
    if t == "inf":
        return float("inf") if x["pos"] else float("-inf")
    if t == "npint":
        return getattr(np, x["dt"])(int(x["v"]))
    if t == "npfloat":
        v = getattr(np, x["dt"])(float.fromhex(x["v"]))
        if float(v) != float.fromhex(x["v"]):
            raise ValueError("value is not exact in " + x["dt"])
        return v
    if t == "npnan":
        return getattr(np, x.get("dt", "float32"))("nan")
    raise ValueError(t)


def enc(v):
    """what a field holds, in the value encoding of the harness (compared inside Coq); 'other' = not a number / None /
    sequence"""
    if v is None:
        return {"t": "none"}
    if isinstance(v, (bool, np.bool_)):
        return {"t": "other"}
    if isinstance(v, (int, np.integer)):
        return {"t": "int", "v": int(v)}
    if isinstance(v, (float, np.floating)):
        f = float(v)
        if math.isnan(f):
            return {"t": "nan"}
        if math.isinf(f):
            return {"t": "inf", "pos": f > 0}
        return {"t": "float", "v": f.hex()}
    if isinstance(v, (list, tuple, np.ndarray)):
        try:
            return {"t": "seq", "n": len(v)}
        except TypeError:
            return {"t": "other"}
    return {"t": "other"}


def same_value(a, b) -> bool:
    if isinstance(b, (float, np.floating)) and math.isnan(b):
        return isinstance(a, (float, np.floating)) and math.isnan(a)
    if isinstance(b, list):
        try:
            return list(a) == b
        except TypeError:
            return False
    return bool(a == b) and (a is None) == (b is None)


def classify_exc(ex) -> dict:
    n = type(ex).__name__
    if isinstance(ex, (ValueError, TypeError)):
        return {"accepted": False, "exc": "ValueError" if isinstance(ex, ValueError) else "TypeError"}
    return {"error": n, "msg": str(ex)[:300]}


# ------------------------------------------------------------------------------------------ builders (python side)


def base_sections(det: str) -> dict:
    geo = dict(row=2, col=3, total_thickness=40.0, pixel_vert_size=10.0, pixel_horz_size=10.0)
    env = dict(temperature=200.0)
    if det == "apd":
        ch = dict(roic_gain=0.8, quantum_efficiency=1.0, full_well_capacity=100000, adc_bit_resolution=16,
                  adc_voltage_range=[0.0, 10.0], avalanche_gain=1.0, pixel_reset_voltage=5.0)
    else:
        ch = dict(quantum_efficiency=1.0, charge_to_volt_conversion=1.0e-6, pre_amplification=1.0,
                  full_well_capacity=100000, adc_bit_resolution=16, adc_voltage_range=[0.0, 10.0])
    return dict(geometry=geo, environment=env, characteristics=ch)


def classes(det: str):
    from pyxel import detectors as d

    return {"ccd": (d.CCD, d.CCDGeometry, d.Characteristics), "cmos": (d.CMOS, d.CMOSGeometry, d.Characteristics),
            "mkid": (d.MKID, d.MKIDGeometry, d.Characteristics),
            "apd": (d.APD, d.APDGeometry, d.APDCharacteristics)}[det]


def py_environment(dct):
    from pyxel.detectors import Environment
    from pyxel.detectors.environment import WavelengthHandling

    dct = dict(dct or {})
    wl = dct.get("wavelength")
    if isinstance(wl, dict):
        wl = WavelengthHandling(cut_on=wl["cut_on"], cut_off=wl["cut_off"], resolution=wl["resolution"])
    kw = {}
    if "temperature" in dct:
        kw["temperature"] = dct["temperature"]
    if wl is not None:
        kw["wavelength"] = wl
    return Environment(**kw)


def py_detector(det: str, sec: dict):
    """Build the detector in Python from the section dicts (does not use pyxel.configuration)."""
    D, G, C = classes(det)
    ch = dict(sec.get("characteristics") or {})
    if ch.get("adc_voltage_range") is not None:
        ch["adc_voltage_range"] = tuple(ch["adc_voltage_range"])
    return D(geometry=G(**sec["geometry"]), environment=py_environment(sec.get("environment")),
             characteristics=C(**ch))


def py_pipeline(pdoc: dict):
    from pyxel.pipelines import DetectionPipeline, ModelFunction

    kw = {}
    for g, models in (pdoc or {}).items():
        kw[g] = None if models is None else [
            ModelFunction(func=m["func"], name=m["name"], arguments=copy.deepcopy(m.get("arguments")),
                          enabled=m.get("enabled", True)) for m in models]
    return DetectionPipeline(**kw)


def py_readout(rdoc):
    from pyxel.exposure import Readout

    rdoc = dict(rdoc or {})
    return Readout(**rdoc)


def py_outputs(kind: str, odoc):
    if odoc is None:
        return None
    from pyxel import outputs as po

    cls = {"exposure": po.ExposureOutputs, "observation": po.ObservationOutputs,
           "calibration": po.CalibrationOutputs}[kind]
    return cls(**copy.deepcopy(odoc))


def py_mode(kind: str, mdoc: dict):
    mdoc = copy.deepcopy(mdoc or {})
    if kind == "exposure":
        from pyxel.exposure import Exposure

        kw = {k: mdoc[k] for k in ("result_type", "pipeline_seed", "working_directory") if k in mdoc}
        if "outputs" in mdoc:
            kw["outputs"] = py_outputs(kind, mdoc["outputs"])
        return Exposure(readout=py_readout(mdoc.get("readout")), **kw)
    if kind == "observation":
        from pyxel.observation import Observation, ParameterValues

        params = [ParameterValues(**p) for p in mdoc["parameters"]]
        kw = {k: mdoc[k] for k in ("mode", "with_dask", "result_type", "pipeline_seed", "working_directory")
              if k in mdoc}
        if "outputs" in mdoc:
            kw["outputs"] = py_outputs(kind, mdoc["outputs"])
        return Observation(parameters=params, readout=py_readout(mdoc.get("readout")), **kw)
    if kind == "calibration":
        from pyxel.calibration import Algorithm, Calibration
        from pyxel.observation import ParameterValues
        from pyxel.pipelines import FitnessFunction

        kw = {k: v for k, v in mdoc.items()
              if k not in ("readout", "outputs", "fitness_function", "algorithm", "parameters", "result_input_arguments")}
        if "outputs" in mdoc:
            kw["outputs"] = py_outputs(kind, mdoc["outputs"])
        if "result_input_arguments" in mdoc:
            kw["result_input_arguments"] = [ParameterValues(**q) for q in mdoc["result_input_arguments"]]
        ff = mdoc["fitness_function"]
        return Calibration(fitness_function=FitnessFunction(func=ff["func"], arguments=ff.get("arguments")),
                           algorithm=Algorithm(**mdoc["algorithm"]),
                           parameters=[ParameterValues(**q) for q in mdoc["parameters"]],
                           readout=py_readout(mdoc.get("readout")), **kw)
    raise ValueError(kind)


# ------------------------------------------------------------------------------------------ documents


def minimal_mode(kind: str) -> dict:
    if kind == "exposure":
        return {"readout": {"times": [1.0, 2.0], "non_destructive": False}}
    if kind == "observation":
        return {"parameters": [{"key": "detector.environment.temperature", "values": [100, 200]}]}
    if kind == "calibration":
        tgt = Path("c12_target.txt")
        if not tgt.exists():
            np.savetxt(tgt, np.ones((2, 3)))
        return {"mode": "pipeline", "result_type": "image", "result_fit_range": [0, 2, 0, 3],
                "target_data_path": [str(tgt)], "target_fit_range": [0, 2, 0, 3],
                "fitness_function": {"func": "pyxel.calibration.fitness.sum_of_abs_residuals"},
                "algorithm": {"type": "sade", "generations": 1, "population_size": 2},
                "parameters": [{"key": "detector.characteristics.quantum_efficiency", "values": "_",
                                "logarithmic": False, "boundaries": [0.1, 1.0]}]}
    raise ValueError(kind)


def empty_pipeline() -> dict:
    return {g: None for g in ("photon_collection", "charge_generation", "charge_collection",
                              "charge_measurement", "readout_electronics")}


def dump_yaml(doc: dict, name: str) -> Path:
    import yaml

    p = _fresh(name + ".yaml")
    p.write_text(yaml.safe_dump(doc, sort_keys=False))
    return p


# ------------------------------------------------------------------------------------------ guard


def handle_guard(p):
    import pyxel

    cls, field, path, det = p["cls"], p["field"], p["path"], p["det"]
    x = dec(p["x"])
    sec_name = SECTION[cls]
    sec = base_sections(det)
    stored = None
    try:
        if path == "ctor":
            D, G, C = classes(det)
            if cls == "Geometry":
                obj = G(**{**sec["geometry"], field: x})
            elif cls == "Environment":
                from pyxel.detectors import Environment
                obj = Environment(**{**sec["environment"], field: x})
            else:
                kw = {**sec["characteristics"], field: x}
                if field == "avalanche_gain" and x is None:
                    kw["common_voltage"] = 2.0      # the bias must then come from the two voltages
                obj = C(**kw)
            try:
                stored = obj.to_dict().get(field)
            except AttributeError:      # Environment.to_dict() cannot serialise a wavelength carried by a numpy scalar
                stored = getattr(obj, "_" + field)
        elif path == "fromdict":
            # <Class>.from_dict({...}): how a detector saved to a file is read back
            D, G, C = classes(det)
            if cls == "Geometry":
                obj = G.from_dict({**sec["geometry"], field: x})
            elif cls == "Environment":
                raise ValueError("Environment.from_dict is the YAML path")
            else:
                kw = {**sec["characteristics"], field: x}
                if field == "avalanche_gain" and x is None:
                    kw["common_voltage"] = 2.0
                obj = C.from_dict(kw)
            stored = obj.to_dict().get(field)
        elif path == "yaml":
            sec[sec_name] = {**sec[sec_name], field: x}
            if field == "avalanche_gain" and x is None:
                sec[sec_name]["common_voltage"] = 2.0
            doc = {"exposure": minimal_mode("exposure"), DET_KEY[det]: sec, "pipeline": empty_pipeline()}
            cfg = pyxel.load(dump_yaml(doc, "guard"))
            stored = getattr(cfg.detector, sec_name).to_dict().get(field)
        elif path in ("attr", "sweep"):
            detector = py_detector(det, sec)
            obj = getattr(detector, sec_name)
            if path == "attr":
                setattr(obj, field, x)
            else:
                from pyxel.pipelines import Processor
                proc = Processor(detector=detector, pipeline=py_pipeline(empty_pipeline()))
                proc.set(key=f"detector.{sec_name}.{field}", value=x)
            stored = getattr(obj, "_" + field, None)
        elif path == "obsrun":
            # one point of a real observation over the field (after a valid first point, so that the run itself works)
            from pyxel.observation import Observation, ParameterValues

            good = sec[sec_name].get(field)
            if good is None:
                # fields the base detector leaves unspecified: a valid first point all the same (a dask sweep whose ONLY
                # value is NaN dies in pandas/xarray with an IndexError before any setter is reached)
                good = {"wavelength": 600.0, "pixel_scale": 2.0}.get(field)
            detector = py_detector(det, sec)
            values = [x] if good is None or same_value(good, x) else [good, x]     # the points of a sweep are distinct
            obs = Observation(parameters=[ParameterValues(key=f"detector.{sec_name}.{field}", values=values)],
                              with_dask=bool(p.get("dask")))
            res = pyxel.run_mode(mode=obs, detector=detector, pipeline=py_pipeline(empty_pipeline()))
            tree_fingerprint(res)       # forces the computation of every point
            return {"accepted": True, "stored": True}      # the swept detector is a copy inside the run: not read back
        else:
            raise ValueError(path)
    except Exception as ex:  # noqa: BLE001
        return classify_exc(ex)
    return {"accepted": True, "stored": bool(same_value(stored, x)), "stored_v": enc(stored)}


# ------------------------------------------------------------------------------------------ keys


def handle_keys(p):
    import pyxel

    doc = {}
    states = p.get("states") or {}     # key -> "filled" (default) | "null" (`key:`) | "empty" (`key: {}`)
    for k in p["present"]:
        st = states.get(k, "filled")
        if st == "null":
            doc[k] = None
        elif st == "empty":
            doc[k] = {}
        elif k == "pipeline":
            doc[k] = empty_pipeline()
        elif k in ("exposure", "observation", "calibration"):
            doc[k] = minimal_mode(k)
        elif k.endswith("_detector"):
            doc[k] = base_sections(k.split("_")[0] if k.split("_")[0] in DET_KEY else "ccd")
        else:
            doc[k] = {"anything": 1}
    try:
        path = dump_yaml(doc, "keys")
        text = path.read_text()
        for k in p["present"]:
            if states.get(k) == "null":        # written the way a section with all its lines commented out looks
                text = text.replace(f"\n{k}: null\n", f"\n{k}:\n")
                if text.startswith(f"{k}: null\n"):
                    text = f"{k}:\n" + text[len(f"{k}: null\n"):]
        path.write_text(text)
        cfg = pyxel.load(path)
    except Exception as ex:  # noqa: BLE001
        return {"loaded": False, "exc": type(ex).__name__, "msg": str(ex)[:200]}
    used = [k for k in ("exposure", "observation", "calibration") if getattr(cfg, k, None) is not None]
    used += [k for k in DET_KEY.values() if getattr(cfg, k, None) is not None]
    # the objects really are of the kind the key names
    kinds = dict(exposure="Exposure", observation="Observation", calibration="Calibration",
                 ccd_detector="CCD", cmos_detector="CMOS", mkid_detector="MKID", apd_detector="APD")
    ok_kind = all(type(getattr(cfg, k)).__name__ == kinds[k] for k in used)
    ok_kind = ok_kind and type(cfg.running_mode).__name__ in [kinds[k] for k in used] \
        and type(cfg.detector).__name__ in [kinds[k] for k in used]
    return {"loaded": True, "used": used if ok_kind else used + ["wrong-kind"]}


def handle_direct(p):
    """Configuration(pipeline=..., **objects) with the given running-mode / detector objects built in Python"""
    from pyxel.configuration import Configuration

    kw = {}
    for k in p["given"]:
        if k in ("exposure", "observation", "calibration"):
            kw[k] = py_mode(k, minimal_mode(k))
        else:
            kw[k] = py_detector(k.split("_")[0], base_sections(k.split("_")[0]))
    pipeline = py_pipeline(empty_pipeline())
    try:
        cfg = Configuration(pipeline=pipeline, **kw)
    except ValueError as ex:
        return {"accepted": False, "exc": "ValueError", "msg": str(ex)[:200]}
    except Exception as ex:  # noqa: BLE001
        return {"error": type(ex).__name__, "msg": str(ex)[:300]}
    try:
        ok = all(getattr(cfg, k) is kw[k] for k in kw) and (
            any(cfg.running_mode is kw[k] for k in kw) and any(cfg.detector is kw[k] for k in kw))
    except Exception:  # noqa: BLE001   (a configuration without running mode / detector has no .running_mode / .detector)
        ok = False
    return {"accepted": True, "holds_given": bool(ok)}


# ------------------------------------------------------------------------------------------ settings


def jleaf(v):
    """canonical JSON leaf: None | bool | number | str | list"""
    if v is None or isinstance(v, (bool, str)):
        return v
    if isinstance(v, (np.bool_,)):
        return bool(v)
    if isinstance(v, (int, np.integer)):
        return int(v)
    if isinstance(v, (float, np.floating)):
        f = float(v)
        return {"f": f.hex()} if math.isfinite(f) else {"nonfinite": repr(f)}
    if isinstance(v, Path):
        return str(v)
    if isinstance(v, np.ndarray):
        return [jleaf(e) for e in v.tolist()]
    if isinstance(v, (list, tuple)):
        return [jleaf(e) for e in v]
    return {"repr": type(v).__name__}


def func_name(model, doc_func):
    import importlib

    f = model.func
    try:
        mod, nm = doc_func.rsplit(".", 1)
        if getattr(importlib.import_module(mod), nm) is f:
            return doc_func
    except Exception:  # noqa: BLE001
        pass
    return f"{getattr(f, '__module__', '?')}.{getattr(f, '__name__', '?')}"


def canon_save(v):
    """[{name: [formats]}, ...] -> [[name, [formats]], ...]"""
    if v is None:
        return None
    return [[str(k), [str(f) for f in fmts]] for d in v for k, fmts in dict(d).items()]


def outputs_settings(out, prefix, o, data_key):
    out[prefix + ".present"] = o is not None
    if o is None:
        return
    out[prefix + ".output_folder"] = Path(o.output_folder).as_posix()
    out[prefix + ".custom_dir_name"] = jleaf(o.custom_dir_name)
    out[prefix + ".save_data_to_file"] = canon_save(o.save_data_to_file)
    for attr in (data_key, "_" + data_key, "_" + data_key + "_deprecated"):
        if hasattr(o, attr):
            out[prefix + "." + data_key] = canon_save(getattr(o, attr))
            break
    else:
        out[prefix + "." + data_key] = "<missing>"


ALGO_PARAMS = ("type", "generations", "population_size", "variant", "variant_adptv", "ftol", "xtol", "memory", "cr",
               "eta_c", "m", "param_m", "param_s", "crossover", "mutation", "selection", "nlopt_solver", "maxtime",
               "maxeval", "xtol_rel", "xtol_abs", "ftol_rel", "ftol_abs", "stopval", "replacement", "nlopt_selection")


def read_settings(cfg, doc) -> dict:
    out = {}
    det = cfg.detector
    for sec in ("geometry", "environment", "characteristics"):
        d = dict(getattr(det, sec).to_dict())
        for k, v in d.items():
            if isinstance(v, dict):
                for kk, vv in v.items():
                    out[f"detector.{sec}.{k}.{kk}"] = jleaf(vv)
            else:
                out[f"detector.{sec}.{k}"] = jleaf(v)
    mode = cfg.running_mode
    kind = type(mode).__name__.lower()
    out["mode.kind"] = kind
    ro = mode.readout
    out["mode.readout.times"] = jleaf(np.asarray(ro.times, dtype=float))
    out["mode.readout.start_time"] = jleaf(ro.start_time)
    out["mode.readout.non_destructive"] = jleaf(ro.non_destructive)
    out["mode.pipeline_seed"] = jleaf(mode.pipeline_seed)
    out["mode.result_type"] = jleaf(str(mode.result_type))
    out["mode.working_directory"] = None if mode.working_directory is None else str(mode.working_directory)
    outputs_settings(out, "mode.outputs", mode.outputs, {"exposure": "save_exposure_data",
                                                         "observation": "save_observation_data",
                                                         "calibration": "save_calibration_data"}.get(kind, "?"))

    def params(prefix, plist):
        for i, pv in enumerate(plist):
            out[f"{prefix}.{i}.key"] = jleaf(pv.key)
            vals = pv.values
            out[f"{prefix}.{i}.values"] = jleaf(vals if vals == "_" or "_" in list(vals) else list(pv))
            out[f"{prefix}.{i}.enabled"] = jleaf(pv.enabled)
            out[f"{prefix}.{i}.logarithmic"] = jleaf(pv.logarithmic)
            b = pv.boundaries
            out[f"{prefix}.{i}.boundaries"] = jleaf(None if b is None else np.asarray(b))
        out[f"{prefix}.count"] = len(plist)

    if kind == "observation":
        pm = mode.parameter_mode
        out["mode.mode"] = {"ProductMode": "product", "SequentialMode": "sequential",
                            "CustomMode": "custom"}.get(type(pm).__name__, type(pm).__name__)
        out["mode.with_dask"] = jleaf(mode.with_dask)
        params("mode.parameters", list(pm.parameters))
    if kind == "calibration":
        out["mode.mode"] = jleaf(mode.calibration_mode.value)
        out["mode.result_fit_range"] = jleaf(list(mode.result_fit_range))
        out["mode.target_fit_range"] = jleaf(list(mode.target_fit_range))
        out["mode.target_data_path"] = jleaf([Path(q).name for q in mode.target_data_path])
        out["mode.pygmo_seed"] = jleaf(mode.pygmo_seed)
        out["mode.num_islands"] = jleaf(mode.num_islands)
        out["mode.num_evolutions"] = jleaf(mode.num_evolutions)
        out["mode.num_best_decisions"] = jleaf(mode.num_best_decisions)
        out["mode.topology"] = jleaf(mode.topology)
        alg = mode.algorithm
        for a in ALGO_PARAMS:
            v = getattr(alg, a, getattr(alg, "_" + a, "<missing>"))
            out[f"mode.algorithm.{a}"] = jleaf(getattr(v, "value", v))
        ff = mode.fitness_function
        want = doc["calibration"]["fitness_function"]["func"]
        out["mode.fitness_function.func"] = want if _resolves(want, ff) else "<another function>"
        fargs = getattr(ff, "_arguments", "<missing>")
        out["mode.fitness_function.arguments.count"] = None if fargs is None else len(fargs)
        for a, v in (fargs or {}).items():
            out[f"mode.fitness_function.arguments.{a}"] = jleaf(v)
        params("mode.parameters", list(mode.parameters))
        params("mode.result_input_arguments", list(mode.result_input_arguments))
        out["mode.type_islands"] = jleaf(getattr(mode._type_islands, "value", mode._type_islands))
        out["mode.weights"] = jleaf(mode.weights)
        out["mode.weights_from_file"] = jleaf(None if mode.weights_from_file is None
                                               else [Path(q).name for q in mode.weights_from_file])
    pdoc = doc.get("pipeline") or {}
    for g in GROUPS:
        grp = getattr(cfg.pipeline, g)
        if grp is None:
            out[f"pipeline.{g}.count"] = None
            continue
        models = list(grp.models)
        out[f"pipeline.{g}.count"] = len(models)
        for i, m in enumerate(models):
            pre = f"pipeline.{g}.{i}"
            out[pre + ".name"] = jleaf(m.name)
            dm = (pdoc.get(g) or [])
            out[pre + ".func"] = func_name(m, dm[i]["func"]) if i < len(dm) else "?"
            out[pre + ".enabled"] = jleaf(m.enabled)
            args = dict(m.arguments)
            out[pre + ".arguments.count"] = len(args)
            for a, v in args.items():
                out[f"{pre}.arguments.{a}"] = jleaf(v)
    return out


def _resolves(name, ff) -> bool:
    import importlib

    try:
        mod, nm = name.rsplit(".", 1)
        target = getattr(importlib.import_module(mod), nm)
    except Exception:  # noqa: BLE001
        return False
    for attr in ("_func", "func", "_fitness_func"):
        if getattr(ff, attr, None) is target:
            return True
    # FitnessFunction is callable and delegates to the resolved function: compare by evaluation
    try:
        a = np.arange(6.0).reshape(2, 3)
        b = np.ones((2, 3))
        w = np.ones((2, 3))
        return float(ff(simulated=a, target=b, weighting=w)) == float(target(simulated=a, target=b, weighting=w))
    except Exception:  # noqa: BLE001
        return False


def tree_fingerprint(dt):
    """canonical content of a run result (DataTree / Dataset): names, dims, dtypes, bytes"""
    import hashlib

    out = {}
    if hasattr(dt, "subtree"):
        nodes = [(n.path, n.to_dataset()) for n in dt.subtree]
    else:
        nodes = [("/", dt)]
    for path, ds in nodes:
        for name in sorted(list(ds.data_vars) + list(ds.coords)):
            da = ds[name]
            arr = np.asarray(da.values)
            h = hashlib.sha1(np.ascontiguousarray(arr).tobytes() if arr.dtype != object else repr(arr.tolist()).encode())
            out[f"{path}:{name}"] = [list(da.dims), str(arr.dtype), list(arr.shape), h.hexdigest()[:16]]
    return out


def run_both(cfg, doc):
    import pyxel

    mk = [k for k in ("exposure", "observation") if k in doc][0]
    dk = [k for k in DET_KEY.values() if k in doc][0]
    det = dk.split("_")[0]

    def run(mode, detector, pipeline):
        try:
            np.random.seed(20240612)    # same generator state for both constructions (models may draw)
            res = pyxel.run_mode(mode=mode, detector=detector, pipeline=pipeline)
            return {"ok": tree_fingerprint(res)}
        except Exception as ex:  # noqa: BLE001
            return {"raise": type(ex).__name__, "msg": str(ex)[:200]}

    a = run(cfg.running_mode, cfg.detector, cfg.pipeline)
    d2 = copy.deepcopy(doc)
    b = run(py_mode(mk, d2[mk]), py_detector(det, d2[dk]), py_pipeline(d2["pipeline"]))
    if "ok" in a and "ok" in b:
        diff = sorted(k for k in set(a["ok"]) | set(b["ok"]) if a["ok"].get(k) != b["ok"].get(k))
        return {"same": not diff, "diff": diff[:6], "n_vars": len(a["ok"]), "ran": True}
    same = ("raise" in a and "raise" in b and a["raise"] == b["raise"])
    return {"same": same, "diff": [str(a)[:200], str(b)[:200]], "n_vars": 0, "ran": False}



# ------------------------------------------------------------------------------------------ derived readouts


def readout_settings(ro) -> dict:
    return {"mode.readout.times": jleaf(np.asarray(ro.times, dtype=float)),
            "mode.readout.start_time": jleaf(ro.start_time),
            "mode.readout.non_destructive": jleaf(ro.non_destructive)}


def do_derive(cfg, op) -> dict:
    """one derivation from the loaded readout: replace(**changes) | the setters (for `times` of an observation: through
    Processor.replace({'observation.readout.times': v}), the path of a sweep) | deepcopy"""
    ro = cfg.running_mode.readout
    before = readout_settings(ro)
    ch = dict(op["changes"])
    try:
        if op["op"] == "replace":
            new = ro.replace(**ch)
        elif op["op"] == "setter":
            if set(ch) == {"times"} and type(cfg.running_mode).__name__ == "Observation":
                from pyxel.pipelines import Processor

                proc = Processor(detector=cfg.detector, pipeline=cfg.pipeline, observation_mode=cfg.running_mode)
                new = proc.replace({"observation.readout.times": ch["times"]}).observation.readout
            else:
                new = copy.deepcopy(ro)
                for k, v in ch.items():
                    setattr(new, k, v)
        elif op["op"] == "copy":
            new = copy.deepcopy(ro)
        else:
            raise ValueError(op["op"])
    except Exception as ex:  # noqa: BLE001
        return {"raised": type(ex).__name__, "msg": str(ex)[:200], "before": before, "after": readout_settings(ro)}
    return {"settings": readout_settings(new), "same_object": new is ro, "before": before,
            "after": readout_settings(ro)}


# ------------------------------------------------------------------------------------------ sweep over the readout times


def _values_equal(a, b) -> bool:
    a = np.asarray(a, dtype=float)
    b = np.asarray(b, dtype=float)
    return a.shape == b.shape and bool(np.array_equal(a, b, equal_nan=True))


def handle_sweeprun(p):
    """A loaded observation that sweeps 'observation.readout.times' (with dask: Readout.replace(times=...) per point)
    against (a) one Exposure per point built in Python with the readout settings of the file and (b) the same
    Observation built in Python."""
    import pyxel
    from pyxel.exposure import Exposure, Readout

    doc = p["doc"]
    try:
        cfg = pyxel.load(dump_yaml(doc, "sweep"))
    except Exception as ex:  # noqa: BLE001
        return {"loaded": False, "exc": type(ex).__name__, "msg": str(ex)[:300]}
    dk = [k for k in DET_KEY.values() if k in doc][0]
    det = dk.split("_")[0]
    obs = doc["observation"]
    ro = obs.get("readout") or {}
    par = [q for q in obs["parameters"] if q["key"] == "observation.readout.times"][0]
    out = {"loaded": True, "settings": readout_settings(cfg.running_mode.readout)}
    try:
        res = pyxel.run_mode(mode=cfg.running_mode, detector=cfg.detector, pipeline=cfg.pipeline)
    except Exception as ex:  # noqa: BLE001
        out.update(ran=False, exc=type(ex).__name__, msg=str(ex)[:300])
        return out
    out["ran"] = True
    bucket = res["bucket"] if "bucket" in res.children else res
    diff = []
    for t in par["values"]:
        d2 = copy.deepcopy(doc)
        exp = Exposure(readout=Readout(times=[t], start_time=ro.get("start_time", 0.0),
                                       non_destructive=ro.get("non_destructive", False)),
                       pipeline_seed=obs.get("pipeline_seed"))
        ref = pyxel.run_mode(mode=exp, detector=py_detector(det, d2[dk]), pipeline=py_pipeline(d2["pipeline"]))
        for var in ("photon", "charge", "pixel", "signal", "image"):
            try:
                got = bucket[var].sel(time=t).values
                want = ref[var].isel(time=0).values
            except Exception as ex:  # noqa: BLE001
                diff.append(f"{var}@{t}: {type(ex).__name__}")
                continue
            if not _values_equal(got, want):
                g, w = np.asarray(got, dtype=float), np.asarray(want, dtype=float)
                diff.append(f"{var}@{t}: sweep {g.flat[0] if g.size else None!r} vs python-built {w.flat[0] if w.size else None!r}")
    out["points"] = len(par["values"])
    out["same_points"] = not diff
    out["diff"] = diff[:6]
    # (b) the same observation built in Python
    d3 = copy.deepcopy(doc)
    try:
        res2 = pyxel.run_mode(mode=py_mode("observation", d3["observation"]), detector=py_detector(det, d3[dk]),
                              pipeline=py_pipeline(d3["pipeline"]))
        fa, fb = tree_fingerprint(res), tree_fingerprint(res2)
        bd = sorted(k for k in set(fa) | set(fb) if fa.get(k) != fb.get(k))
        out["same_built"] = not bd
        out["diff_built"] = bd[:6]
    except Exception as ex:  # noqa: BLE001
        out["same_built"] = False
        out["diff_built"] = [f"python-built observation raised {type(ex).__name__}: {str(ex)[:200]}"]
    return out


class _Built:
    pass


def built_diff(loaded_settings: dict, doc: dict):
    """settings of the same objects built in Python (without pyxel.configuration) that differ from the loaded ones"""
    import pyxel

    mk = [k for k in ("exposure", "observation", "calibration") if k in doc][0]
    dk = [k for k in DET_KEY.values() if k in doc][0]
    d2 = copy.deepcopy(doc)
    pyxel.set_options(working_directory=None)   # as at the start of a load
    try:
        b = _Built()
        b.detector = py_detector(dk.split("_")[0], d2[dk])
        b.pipeline = py_pipeline(d2["pipeline"])
        b.running_mode = py_mode(mk, d2[mk])
        sb = read_settings(b, doc)
    except Exception as ex:  # noqa: BLE001
        return {"raised": type(ex).__name__, "msg": str(ex)[:300]}
    finally:
        pyxel.set_options(working_directory=None)
    skip = set()
    if mk == "calibration" and "pygmo_seed" not in (doc[mk] or {}):
        skip.add("mode.pygmo_seed")     # drawn at random when the file does not give it
    keys = sorted(k for k in set(loaded_settings) | set(sb)
                  if k not in skip and loaded_settings.get(k, "<missing>") != sb.get(k, "<missing>"))
    return {"keys": keys[:12], "loaded": {k: loaded_settings.get(k, "<missing>") for k in keys[:6]},
            "built": {k: sb.get(k, "<missing>") for k in keys[:6]}}


def detector_settings(det) -> dict:
    out = {}
    for sec in ("geometry", "environment", "characteristics"):
        for k, v in dict(getattr(det, sec).to_dict()).items():
            if isinstance(v, dict):
                for kk, vv in v.items():
                    out[f"detector.{sec}.{k}.{kk}"] = jleaf(vv)
            else:
                out[f"detector.{sec}.{k}"] = jleaf(v)
    return out


def do_sweep_point(cfg, doc, op) -> dict:
    """one point of a sweep over a detector setting: Processor.replace({key: value}) on the loaded objects"""
    from pyxel.pipelines import Processor

    before = detector_settings(cfg.detector)
    try:
        proc = Processor(detector=cfg.detector, pipeline=cfg.pipeline)
        new = proc.replace({op["key"]: op["value"]})
    except Exception as ex:  # noqa: BLE001
        return {"raised": type(ex).__name__, "msg": str(ex)[:200], "before": before,
                "after": detector_settings(cfg.detector)}
    return {"settings": detector_settings(new.detector), "before": before, "after": detector_settings(cfg.detector)}


def handle_settings(p):
    import pyxel

    doc = p["doc"]
    if "calibration" in doc:
        for f in list(doc["calibration"].get("target_data_path", [])) + list(doc["calibration"].get("weights_from_file") or []):
            if not Path(f).exists():
                np.savetxt(f, np.ones((2, 3)))
    for name, vals in (p.get("files") or {}).items():
        np.save(name, np.asarray(vals, dtype=float))
    try:
        cfg = pyxel.load(dump_yaml(doc, "settings"))
    except Exception as ex:  # noqa: BLE001
        return {"loaded": False, "exc": type(ex).__name__, "msg": str(ex)[:300]}
    out = {"loaded": True, "settings": read_settings(cfg, doc)}
    out["built_diff"] = built_diff(out["settings"], doc)
    if p.get("derive"):
        out["derived"] = [do_derive(cfg, op) for op in p["derive"]]
    if p.get("sweeps"):
        out["swept"] = [do_sweep_point(cfg, doc, op) for op in p["sweeps"]]
    if p.get("run"):
        out["run"] = run_both(cfg, doc)
    return out


def handle(p):
    import warnings

    warnings.filterwarnings("ignore")
    import pyxel

    pyxel.set_options(working_directory=None)   # a previous document of this worker may have set it
    k = p["k"]
    if k == "guard":
        return handle_guard(p)
    if k == "keys":
        return handle_keys(p)
    if k == "direct":
        return handle_direct(p)
    if k == "settings":
        return handle_settings(p)
    if k == "sweeprun":
        return handle_sweeprun(p)
    raise ValueError(k)
