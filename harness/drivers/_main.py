"""Worker entry: python -m harness.drivers._main <module> <in.json> <out.json>

Runs with PYTHONPATH = <repo under test>:/verif/probes:/verif, so `import pyxel` is the tree being checked.
"""
import importlib
import json
import sys
import traceback
import warnings

warnings.filterwarnings("ignore")


def main():
    module, fin, fout = sys.argv[1:4]
    mod = importlib.import_module(f"harness.drivers.{module}")
    payloads = json.load(open(fin))
    out = []
    for p in payloads:
        try:
            out.append(mod.handle(p))
        except BaseException as ex:  # noqa: BLE001 - a driver bug must be visible, not fatal
            if isinstance(ex, (KeyboardInterrupt, SystemExit)):
                raise
            out.append({"driver_error": f"{type(ex).__name__}: {ex}", "tb": traceback.format_exc()[-1500:]})
    json.dump(out, open(fout, "w"))


if __name__ == "__main__":
    main()
