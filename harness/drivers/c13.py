"""Implementation side of C13: apply an operation list to one bucket of a real detector and report,
after EVERY operation, what the operation did and what the bucket holds (plain JSON).

array JSON:  {"xr": null | {"dims": [ids], "wl": null | [ints]}, "shape": [...], "dt": "<numpy name>", "data": [cells]}
cell:        int | "nan" | "inf" | "-inf"      (complex: real part; imaginary parts are generated 0)
container:   {"kind": bucket, "rows": r, "cols": c, "content": array | null}
"""
from __future__ import annotations

import math
import warnings

import numpy as np

DIM_NAMES = {0: "wavelength", 1: "y", 2: "x", 3: "t", 4: "z"}
DIM_IDS = {v: k for k, v in DIM_NAMES.items()}
DTYPES = {"bool", "int8", "int16", "int32", "int64", "uint8", "uint16", "uint32", "uint64",
          "float16", "float32", "float64", "complex64", "complex128", "object"}
FRAC = 999999937  # marks a value that is not an integer (never produced by the model)


def cell_to_py(c, dt: str):
    if c == "nan":
        return math.nan
    if c == "inf":
        return math.inf
    if c == "-inf":
        return -math.inf
    if dt == "object":
        return int(c)
    if dt.startswith(("int", "uint", "datetime64", "timedelta64", "<U")):
        return int(c)
    if dt == "bool":
        return bool(c)
    return float(c)


def build_array(a):
    import xarray as xr

    dt = a["dt"]
    vals = [cell_to_py(c, dt) for c in a["data"]]
    if dt == "object":
        arr = np.empty(len(vals), dtype=object)
        for i, v in enumerate(vals):
            arr[i] = v
        arr = arr.reshape(a["shape"])
    else:
        arr = np.array(vals, dtype=np.dtype(dt)).reshape(a["shape"])
    if a.get("xr") is None:
        return arr
    dims = [DIM_NAMES[d] for d in a["xr"]["dims"]]
    coords = {}
    if a["xr"].get("wl") is not None:
        coords["wavelength"] = [float(w) for w in a["xr"]["wl"]]
    return xr.DataArray(arr, dims=dims, coords=coords)


def cell_of(x):
    if isinstance(x, (int, np.integer)) and not isinstance(x, (bool, np.bool_)):
        return int(x)          # exact for 64-bit integers beyond 2^53
    try:
        z = complex(x)
    except Exception:  # noqa: BLE001
        return FRAC
    r = z.real
    if math.isnan(r) or math.isnan(z.imag):
        return "nan"
    if math.isinf(r):
        return "inf" if r > 0 else "-inf"
    if z.imag != 0 or r != int(r):
        return FRAC
    return int(r)


def describe(v):
    import xarray as xr

    if v is None:
        return None
    if isinstance(v, xr.DataArray):
        dims = [DIM_IDS.get(str(d), 9) for d in v.dims]
        wl = None
        if "wavelength" in v.coords:
            w = np.asarray(v.coords["wavelength"].values).reshape(-1)
            wl = [int(x) if float(x) == int(x) else FRAC for x in w]
        vals = np.asarray(v.values)
        info = {"dims": dims, "wl": wl}
    elif isinstance(v, np.ndarray):
        vals, info = v, None
    else:
        return {"xr": None, "shape": [], "dt": "other", "data": [], "pytype": type(v).__name__}
    dt = str(vals.dtype)
    return {"xr": info, "shape": [int(s) for s in vals.shape], "dt": dt if dt in DTYPES else "other",
            "data": [cell_of(x) for x in vals.reshape(-1).tolist()] if vals.dtype != object
            else [cell_of(x) for x in vals.reshape(-1)]}


def canon_exc(ex: BaseException) -> dict:
    if isinstance(ex, TypeError):
        c = "TypeError"
    elif isinstance(ex, ValueError):
        c = "ValueError"
    else:
        c = "Other"
    return {"t": "raise", "cls": c, "name": type(ex).__name__, "msg": str(ex)[:160]}


def make_det(kind, rows, cols):
    from harness import pyx

    return pyx.make_detector(kind, rows=rows, cols=cols)


def make_other(spec, det_kind):
    """A second container (for ==, and as the right-hand side of a detector assignment)."""
    kind = spec["kind"]
    d = make_det("mkid" if kind == "phase" else det_kind, spec["rows"], spec["cols"])
    o = getattr(d, kind)
    if spec.get("content") is not None:
        o._array = build_array(spec["content"])
    return o


def handle(p):
    if p.get("introspect"):
        return introspect()
    det = make_det(p["det"], p["rows"], p["cols"])
    bucket = p["bucket"]
    c = getattr(det, bucket)
    out = []
    with warnings.catch_warnings(), np.errstate(all="ignore"):
        warnings.simplefilter("ignore")
        for o in p["ops"]:
            kind = o["op"]
            try:
                res = {"t": "done"}
                if kind == "set":
                    if o.get("via") == "array_2d" and bucket == "photon":
                        c.array_2d = build_array(o["arr"])
                    else:
                        c.array = build_array(o["arr"])
                elif kind == "set3d":
                    c.array_3d = build_array(o["arr"])
                elif kind == "update":
                    if o["arr"] is not None and o.get("via") == "list":
                        # a nested Python list of the same values: np.asarray gives float64 / int64 / bool back
                        c.update(build_array(o["arr"]).tolist())
                    else:
                        c.update(None if o["arr"] is None else build_array(o["arr"]))
                elif kind == "iadd":
                    a = build_array(o["arr"])
                    if o.get("via") == "detector" and bucket != "phase":
                        if bucket == "photon":
                            det.photon += a
                        elif bucket == "pixel":
                            det.pixel += a
                        elif bucket == "signal":
                            det.signal += a
                        else:
                            det.image += a
                    else:
                        tmp = c
                        tmp += a
                elif kind == "add":
                    _ = c + build_array(o["arr"])
                elif kind == "empty":
                    c.empty()
                elif kind == "read":
                    if o.get("via") == "array_2d" and bucket == "photon":
                        res = {"t": "arr", "arr": describe(c.array_2d)}
                    else:
                        res = {"t": "arr", "arr": describe(c.array)}
                elif kind == "asarray":
                    got = np.asarray(c)
                    res = {"t": "arr", "arr": describe(got)}
                elif kind == "read3d":
                    res = {"t": "arr", "arr": describe(c.array_3d)}
                elif kind == "eq":
                    res = {"t": "bool", "v": bool(c == make_other(o["other"], p["det"]))}
                elif kind == "eqrev":
                    res = {"t": "bool", "v": bool(make_other(o["other"], p["det"]) == c)}
                elif kind == "dassign":
                    setattr(det, bucket, make_other(o["other"], p["det"]))
                elif kind == "dempty":
                    det.empty(bool(o["reset"]))
                else:
                    raise RuntimeError(f"driver: unknown op {kind}")
            except Exception as ex:  # noqa: BLE001
                res = canon_exc(ex)
            c = getattr(det, bucket)
            try:
                shp = [int(s) for s in c.shape]
            except Exception:  # noqa: BLE001
                shp = [99999]
            try:
                dts = str(c.dtype)
                dts = dts if dts in DTYPES else "other"
            except Exception:  # noqa: BLE001
                dts = None
            out.append({"out": res, "state": describe(c._array), "shape": shp, "dtype": dts})
    return {"obs": out}


def introspect():
    """Runtime values of what the translator reads from the AST (cross-check)."""
    from pyxel.data_structure import Image, Phase, Photon, Pixel, Signal

    return {"type_lists": {k.__name__: [str(np.dtype(d)) for d in k.TYPE_LIST]
                           for k in (Photon, Pixel, Signal, Image, Phase)}}
