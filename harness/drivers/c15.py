"""Implementation side of C15: run the real charge-handling functions on small dyadic frames.

All numbers travel as JSON floats that are dyadic (integer * 2^k), so the round trip is exact; results are
returned as float.hex() strings (bit exact).  Exceptions -> {"raise": <class name>}.
"""
import numpy as np


def hx(a):
    return [float(v).hex() for v in np.asarray(a, dtype=float).reshape(-1)]


def hx2(a):
    return [[float(v).hex() for v in row] for row in np.asarray(a, dtype=float)]


def _det(kind, shape, pixel_vert_size=10.0, pixel_horz_size=10.0, **char):
    from harness import pyx

    d = pyx.make_detector(kind=kind, rows=shape[0], cols=shape[1], pixel_vert_size=pixel_vert_size,
                          pixel_horz_size=pixel_horz_size, **char)
    from pyxel.detectors import ReadoutProperties

    d._readout_properties = ReadoutProperties(times=[1.0])   # as the model tests do: gives detector.time_step
    return d


_SEQ = [0]


def h_collect(p):
    from pyxel.models.charge_collection import simple_collection

    px, ch = np.array(p["pixel"], dtype=float), np.array(p["charge"], dtype=float)
    det = _det(p.get("det", "ccd"), px.shape)
    det.pixel.array = px.copy()
    det.charge.add_charge_array(ch.copy())
    for _ in range(p.get("times", 1)):
        simple_collection(det)
    return {"out": hx(det.pixel.array)}


def h_collectp(p):
    """The generated charge is put into the Charge container as arrays (add_charge_array) and / or particles
    (add_charge), in the given order, as the charge-generation models do; nothing reads `charge.array` before
    simple_collection runs."""
    from pyxel.models.charge_collection import simple_collection

    px = np.array(p["pixel"], dtype=float)
    det = _det(p.get("det", "ccd"), px.shape, pixel_vert_size=p["sv"], pixel_horz_size=p["sh"])
    det.pixel.array = px.copy()
    for op in p["ops"]:
        if op["op"] == "array":
            det.charge.add_charge_array(np.array(op["a"], dtype=float).reshape(px.shape))
        else:
            ps = op["ps"]
            n = len(ps)
            det.charge.add_charge(
                particle_type="e", particles_per_cluster=np.array([q[2] for q in ps], dtype=float),
                init_energy=np.zeros(n), init_ver_position=np.array([q[0] for q in ps], dtype=float),
                init_hor_position=np.array([q[1] for q in ps], dtype=float), init_z_position=np.zeros(n),
                init_ver_velocity=np.zeros(n), init_hor_velocity=np.zeros(n), init_z_velocity=np.zeros(n))
    simple_collection(det)
    return {"out": hx(det.pixel.array)}


def h_qe(p):
    from pyxel.models.charge_generation.photoelectrons import apply_qe, conversion_with_qe_map, simple_conversion

    ph = np.array(p["photon"], dtype=float)
    samp = p["sampling"]
    if p["path"] == "map":
        # one efficiency per pixel, through a file with a fresh name (the loader memoises by file name)
        _SEQ[0] += 1
        fname = f"qemap_{_SEQ[0]}.npy"
        np.save(fname, np.array(p["qs"], dtype=float).reshape(ph.shape))
        det = _det(p.get("det", "ccd"), ph.shape)
        det.photon.array = ph.copy()
        conversion_with_qe_map(det, filename=fname, seed=p.get("seed", 0), binomial_sampling=samp)
        return {"out": hx(det.charge.array)}
    if p["path"] == "select":
        # simple_conversion with the efficiency given as model argument, by the characteristics, or both
        det = _det(p.get("det", "ccd"), ph.shape, quantum_efficiency=p["char"])
        det.photon.array = ph.copy()
        simple_conversion(det, quantum_efficiency=p["arg"], seed=p.get("seed", 0), binomial_sampling=samp)
        return {"out": hx(det.charge.array)}
    q = p["q"]
    if p["path"] == "func":
        np.random.seed(p.get("seed", 0))
        out = apply_qe(array=ph.copy(), qe=q, binomial_sampling=samp)
    else:
        det = _det(p.get("det", "ccd"), ph.shape)
        det.photon.array = ph.copy()
        simple_conversion(det, quantum_efficiency=q, seed=p.get("seed", 0), binomial_sampling=samp)
        out = det.charge.array
    return {"out": hx(out)}


def h_fullwell(p):
    from pyxel.models.charge_collection.full_well import apply_simple_full_well_capacity, simple_full_well

    x = np.array(p["x"], dtype=float)
    if p["path"] == "sources":
        # both capacity sources: detector characteristics (None = not defined) and model argument (None = absent)
        det = _det(p.get("det", "ccd"), x.shape, full_well_capacity=p["char"])
        det.pixel.array = x.copy()
        simple_full_well(det, fwc=p["arg"])
        o1 = det.pixel.array.copy()
        simple_full_well(det, fwc=p["arg"])
        return {"o1": hx(o1), "o2": hx(det.pixel.array.copy())}
    c = p["c"]
    if p["path"] == "func":
        o1 = apply_simple_full_well_capacity(array=x.copy(), fwc=c).copy()
        o2 = apply_simple_full_well_capacity(array=o1.copy(), fwc=c).copy()
    else:
        det = _det(p.get("det", "ccd"), x.shape)
        det.pixel.array = x.copy()
        if p.get("from_characteristics") and c >= 0:
            det.characteristics.full_well_capacity = c
            simple_full_well(det)
            o1 = det.pixel.array.copy()
            simple_full_well(det)
        else:
            simple_full_well(det, fwc=c)
            o1 = det.pixel.array.copy()
            simple_full_well(det, fwc=c)
        o2 = det.pixel.array.copy()
    return {"o1": hx(o1), "o2": hx(o2)}


def h_kernel(p):
    from pyxel.models.charge_collection.inter_pixel_capacitance import ipc_kernel

    k = ipc_kernel(coupling=p["c"], diagonal_coupling=p["d"], anisotropic_coupling=p["a"])
    k = np.asarray(k)
    if k.shape != (3, 3):
        return {"raise": f"shape:{k.shape}"}
    return {"out": hx(k)}


def h_ipc(p):
    from pyxel.models.charge_collection.inter_pixel_capacitance import compute_ipc_convolution, simple_ipc

    tall = p.get("tall")
    if tall:
        # a tall, thin frame: `base` everywhere, a few deviations (summing to zero) inside the window rows w0..w1
        fr = np.full((tall["rows"], tall["cols"]), float(tall["base"]), dtype=float)
        for r_, c_, dv in tall["hot"]:
            fr[r_, c_] += dv
    else:
        fr = np.array(p["frame"], dtype=float)
    if p["path"] == "func":
        out = compute_ipc_convolution(input=fr.copy(), coupling=p["c"], diagonal_coupling=p["d"],
                                      anisotropic_coupling=p["a"])
    else:
        det = _det("cmos", fr.shape)
        det.pixel.array = fr.copy()
        for _ in range(p.get("times", 1)):
            simple_ipc(det, coupling=p["c"], diagonal_coupling=p["d"], anisotropic_coupling=p["a"])
        out = det.pixel.array
    out = np.asarray(out, dtype=float)
    if out.shape != fr.shape:
        return {"raise": f"shape:{out.shape}"}
    if tall:
        w0, w1 = tall["w0"], tall["w1"]
        # dense reference: every pixel = sum of the nine weights times its neighbours, the frame extended with its mean
        k = np.asarray(ipc_kernel_ref(p["c"], p["d"], p["a"]))
        ext = np.full((fr.shape[0] + 2, fr.shape[1] + 2), fr.mean())
        ext[1:-1, 1:-1] = fr
        ref = sum(k[i, j] * ext[2 - i:2 - i + fr.shape[0], 2 - j:2 - j + fr.shape[1]] for i in range(3) for j in range(3))
        dev = np.abs(out - ref)
        outside = np.abs(np.concatenate([out[:w0], out[w1:]]) - float(tall["base"]))
        worst = int(np.argmax(dev.max(axis=1)))
        return {"out": hx2(out[w0:w1]), "tall": {"dense_dev": hx([dev.max()])[0], "dense_row": worst,
                                                 "outside_dev": hx([outside.max() if outside.size else 0.0])[0],
                                                 "finite": bool(np.isfinite(out).all())}}
    return {"out": hx2(out)}


def ipc_kernel_ref(c, d, a):
    """the 3x3 weights as the property text gives them (not read from the implementation)"""
    return [[d, c - a, d], [c + a, 1 - 4 * (c + d), c + a], [d, c - a, d]]


def h_persist(p):
    """Steps: pixel += add; call; record (pixel, trapped) after every call."""
    from pyxel.models.charge_collection.persistence import (
        compute_persistence,
        compute_simple_persistence,
        persistence,
        simple_persistence,
    )

    shape = tuple(p["shape"])
    n = len(p["taus"])
    pix = np.array(p["pix0"], dtype=float).reshape(shape)
    taus = np.array(p["taus"], dtype=float)
    dens = np.array(p["dens"], dtype=float)
    steps_out = []
    if p["path"] == "func":
        trap = np.array(p["trap0"], dtype=float).reshape((n,) + shape)  # species-major
        for st in p["steps"]:
            pix = pix + np.array(st["add"], dtype=float).reshape(shape)
            if p["full"]:
                cmap = None if p["cmap"] is None else np.array(p["cmap"], dtype=float).reshape(shape)
                new_pix, new_trap = compute_persistence(
                    pixel_array=pix.copy(), all_trapped_charge=trap.copy(), trap_proportions=dens,
                    trap_time_constants=taus, trap_densities_2d=np.array(p["dmap"], dtype=float).reshape(shape),
                    trap_capacities_2d=cmap, delta_t=float(st["dt"]))
            else:
                caps = None if p["caps"] is None else np.array(p["caps"], dtype=float)
                new_pix, new_trap = compute_simple_persistence(
                    pixel_array=pix.copy(), all_trapped_charge=trap.copy(), trap_densities=dens,
                    trap_time_constants=taus, trap_capacities=caps, delta_t=float(st["dt"]))
            pix, trap = np.array(new_pix, dtype=float), np.array(new_trap, dtype=float)
            steps_out.append({"pix": hx(pix), "trap": [hx(trap[k]) for k in range(n)]})
    else:
        det = _det("cmos", shape)
        det.pixel.array = pix.copy()
        if p["full"]:
            # fresh file names for every case: the loader memoises by file name (lru_cache)
            _SEQ[0] += 1
            dname, cname = f"dmap_{_SEQ[0]}.npy", f"cmap_{_SEQ[0]}.npy"
            np.save(dname, np.array(p["dmap"], dtype=float).reshape(shape))
            if p["cmap"] is not None:
                np.save(cname, np.array(p["cmap"], dtype=float).reshape(shape))
        for st in p["steps"]:
            det.pixel.array = det.pixel.array + np.array(st["add"], dtype=float).reshape(shape)
            det.time_step = float(st["dt"])
            if p["full"]:
                persistence(det, trap_time_constants=list(p["taus"]), trap_proportions=list(p["dens"]),
                            trap_densities_filename=dname,
                            trap_capacities_filename=None if p["cmap"] is None else cname)
            else:
                simple_persistence(det, trap_time_constants=list(p["taus"]), trap_densities=list(p["dens"]),
                                   trap_capacities=p["caps"])
            trap = np.array(det.persistence.trapped_charge_array, dtype=float)
            steps_out.append({"pix": hx(det.pixel.array), "trap": [hx(trap[k]) for k in range(n)]})
    return {"steps": steps_out}


def _cdm_tables(lin, p, vth, tr, nt, sg):
    """The factors the CDM loop evaluates at every (packet, species) of every line - a ** (beta - 1) and the capture
    probability - computed with the float expressions of the source along the trajectory of the source's
    bookkeeping; (0, 0) where the packet is below the 0.01 e- cut (the factors are not used there).  They drive
    the exact-arithmetic Coq model for ANY beta; the comparison of that model's output with the real output is
    what ties the two (a wrong trajectory here gives a mismatch, never an agreement)."""
    beta, vg, t, fwc = p["beta"], p["vg"], p["t"], p["fwc"]
    fwcb = fwc ** beta
    alpha = t * sg * vth * fwcb / (2.0 * vg)
    g = 2.0 * nt * vg / fwcb
    rel = 1.0 - np.exp(-t / tr)
    nk = len(nt)
    tbls = []
    for line in lin:
        no = np.zeros(nk)
        tbl = []
        for i, a in enumerate(line):
            a = float(a)
            gamma = g * (p.get("ninj", 0) if p.get("inj") else i)
            row = []
            for k in range(nk):
                nc = 0.0
                if a > 0.01:
                    bw = a ** (beta - 1.0)
                    pc = 1.0 - np.exp(-1 * alpha[k] * a ** (1.0 - beta))
                    row.append([float(bw).hex(), float(pc).hex()])
                    nc = max((gamma[k] * a ** beta - no[k]) / (gamma[k] * bw + 1.0) * pc, 0.0)
                    no[k] += nc
                else:
                    row.append([0.0.hex(), 0.0.hex()])
                nr = no[k] * rel[k]
                a += -1 * nc + nr
                no[k] -= nr
                if a < 0.01:
                    a = 0.0
            tbl.append(row)
        tbls.append(tbl)
    vals = [float.fromhex(v) for tbl in tbls for row in tbl for f in row for v in f] + list(g) + list(rel)
    if not all(np.isfinite(vals)):
        return None
    return {"tbls": tbls, "gs": hx(g), "rs": hx(rel)}


def h_cdm(p):
    """Lines are returned in transfer order: columns for the parallel direction, rows for the serial one."""
    from pyxel.models.charge_transfer.cdm import cdm, run_cdm_parallel, run_cdm_serial

    arr = np.array(p["frame"], dtype=float)
    par = p["direction"] == "parallel"
    tr, nt, sg = (np.array(p[k], dtype=float) for k in ("tr", "nt", "sigma"))
    vth = p["vth"]
    if p["path"] == "func":
        kw = dict(array=arr.copy(), vg=p["vg"], t=p["t"], fwc=p["fwc"], vth=p["vth"], beta=p["beta"], tr=tr, nt=nt,
                  sigma=sg)
        if par:
            out = run_cdm_parallel(charge_injection=bool(p.get("inj")), chg_inj_parallel_transfers=p.get("ninj", 0), **kw)
        else:
            out = run_cdm_serial(**kw)
    else:
        import astropy.constants as const

        det = _det("ccd", arr.shape)
        det.pixel.array = arr.copy()
        # the thermal velocity the wrapper computes (its default effective mass)
        vth = float(100.0 * np.sqrt(3 * const.k_B.value * det.environment.temperature / (0.5 * const.m_e.value)))
        if p.get("inj"):
            p = dict(p, ninj=arr.shape[0])
        for _ in range(p.get("times", 1)):
            cdm(det, direction=p["direction"], beta=p["beta"], trap_release_times=list(p["tr"]),
                trap_densities=list(p["nt"]), sigma=list(p["sigma"]), full_well_capacity=p["fwc"],
                max_electron_volume=p["vg"], transfer_period=p["t"], charge_injection=bool(p.get("inj")))
        out = det.pixel.array
    out = np.asarray(out, dtype=float)
    if out.shape != arr.shape:
        return {"raise": f"shape:{out.shape}"}
    if not np.all(np.isfinite(out)):
        return {"nonfinite": int(np.sum(~np.isfinite(out))), "n": int(out.size)}
    lin, lout = (arr.T, out.T) if par else (arr, out)
    res = {"lines_in": hx2(lin), "lines_out": hx2(lout)}
    # (chains longer than 16 capture/release steps per line are too slow in exact arithmetic: specification only)
    if not p.get("exact") and p.get("times", 1) == 1 and "corner" not in p and lin.shape[1] * len(nt) <= 16:
        with np.errstate(all="ignore"):
            tb = _cdm_tables(lin, p, vth, tr, nt, sg)
        if tb is not None:
            res.update(tb)
    if p.get("exact"):
        # beta = 1: the factors the code computes, evaluated here with the same float expressions
        with np.errstate(all="ignore"):
            fwcb = p["fwc"] ** p["beta"]
            alpha = p["t"] * sg * p["vth"] * fwcb / (2.0 * p["vg"])
            g = 2.0 * nt * p["vg"] / fwcb
            res["pcs"] = hx(1.0 - np.exp(-1 * alpha))
            res["rs"] = hx(1.0 - np.exp(-p["t"] / tr))
            res["gs"] = hx(g)
    return res


HANDLERS = dict(collect=h_collect, collectp=h_collectp, qe=h_qe, fullwell=h_fullwell, kernel=h_kernel, ipc=h_ipc, persist=h_persist,
                cdm=h_cdm)


def handle(p):
    try:
        with np.errstate(all="ignore"):
            return HANDLERS[p["kind"]](p)
    except (ValueError, TypeError, IndexError, ZeroDivisionError, FloatingPointError, KeyError, AttributeError) as ex:
        return {"raise": type(ex).__name__, "msg": str(ex)[:200]}
