"""Implementation side of C11: the real range checker, fitness functions, fitting problem, calibration."""
from __future__ import annotations

import math
from pathlib import Path

import numpy as np


# ------------------------------------------------------------------------------------------ helpers

def _sl(p):
    return slice(p[0], p[1])


def _range(r):
    from pyxel.calibration import FitRange2D, FitRange3D

    if r is None:
        return None
    if r["d"] == 2:
        return FitRange2D(row=_sl(r["row"]), col=_sl(r["col"]))
    return FitRange3D(time=_sl(r["time"]), row=_sl(r["row"]), col=_sl(r["col"]))


def _arr(x):
    """nested lists with None -> float array with NaN"""
    return np.array([[np.nan if v is None else float(v) for v in row] for row in x], dtype=float) \
        if x and not isinstance(x[0][0], list) else np.array([_arr(y) for y in x], dtype=float)


def _ratio(v: float):
    n, d = float(v).as_integer_ratio()
    return [str(n), str(d)]


def _val(v):
    v = float(v)
    if math.isnan(v):
        return {"o": "nan"}
    if math.isinf(v):
        return {"o": "inf"}
    return {"o": "val", "q": _ratio(v)}


# ------------------------------------------------------------------------------------------ kinds

def do_ck(p):
    from pyxel.calibration.util import check_fit_ranges

    try:
        check_fit_ranges(target_fit_range=_range(p["t"]), out_fit_range=_range(p["o"]), rows=p["rows"],
                         cols=p["cols"], readout_times=p["times"])
        return {"o": "Accept"}
    except ValueError:
        return {"o": "Reject"}
    except Exception as ex:  # noqa: BLE001
        return {"o": "Crash", "cls": type(ex).__name__}


def _ff(name, free):
    from pyxel.pipelines.model_function import FitnessFunction

    ref = {"abs": "pyxel.calibration.sum_of_abs_residuals", "sq": "pyxel.calibration.sum_of_squared_residuals",
           "chi": "pyxel.calibration.reduced_chi_squared"}[name]
    return FitnessFunction(func=ref, arguments={"free_parameters": int(free)} if name == "chi" else None)


def do_ff(p):
    f = _ff(p["ff"], p.get("free", 0))
    s, t, w = (np.array([[np.nan if v is None else float(v) for v in p[k]]], dtype=float) for k in ("s", "t", "w"))
    try:
        with np.errstate(all="ignore"):
            return _val(f(simulated=s, target=t, weighting=w))
    except Exception as ex:  # noqa: BLE001
        return {"o": "raise", "cls": type(ex).__name__}


def _problem(p, tag="t"):
    import pyxel.calibration.fitting_datatree as fdt
    from pyxel.detectors import CCD, CCDGeometry, Characteristics, Environment
    from pyxel.exposure import Readout
    from pyxel.observation import ParameterValues
    from pyxel.pipelines import DetectionPipeline, ModelFunction, Processor

    rows, cols = len(p["pattern"]), len(p["pattern"][0])
    det = CCD(geometry=CCDGeometry(row=rows, col=cols), environment=Environment(temperature=200.0),
              characteristics=Characteristics())
    pat = [[float("nan") if v is None else v for v in r] for r in p["pattern"]]
    pipe = DetectionPipeline(charge_collection=[ModelFunction(
        func="verif_probes_c11.pattern", name="pat",
        arguments=dict(pattern=pat, gain=1.0, offset=0.0, bias=0.0, bucket=p.get("bucket", "pixel")))])
    proc = Processor(detector=det, pipeline=pipe)
    variables = [ParameterValues(key="pipeline.charge_collection.pat.arguments.gain", values="_", logarithmic=False,
                                 boundaries=(0.0, 8.0))]
    if not p.get("single_param"):
        variables.append(ParameterValues(key="pipeline.charge_collection.pat.arguments.bias", values="_",
                                         logarithmic=False, boundaries=(-4.0, 4.0)))
    inp = None
    if p.get("offsets") is not None:
        inp = [ParameterValues(key="pipeline.charge_collection.pat.arguments.offset",
                               values=[float(v) for v in p["offsets"]])]
    multi = bool(p["multi"])
    steps = p.get("steps", 1)
    readout = Readout(times=[float(i + 1) for i in range(steps)], non_destructive=False) if multi else Readout()
    names = []
    for k, tg in enumerate(p["targets"]):
        a = _arr(tg)                      # (time, y, x)
        fn = Path(f"{tag}_{k}.npy")
        np.save(fn, a if multi else a[0])
        names.append(fn)
    weights = wfiles = None
    if p.get("weights"):
        if "scalar" in p["weights"]:
            weights = [float(v) for v in p["weights"]["scalar"]]
        else:
            wfiles = []
            for k, wf in enumerate(p["weights"]["file"]):
                a = _arr(wf)
                fn = Path(f"{tag}_w{k}.npy")
                np.save(fn, a if multi else a[0])
                wfiles.append(fn)
    saved = fdt.check_fit_ranges
    if p.get("bypass"):
        fdt.check_fit_ranges = lambda **kw: None      # installed from outside: exercise the slicing alone
    try:
        prob = fdt.ModelFittingDataTree(
            processor=proc, variables=variables, readout=readout, simulation_output=p.get("bucket", "pixel"),
            generations=2, population_size=7, fitness_func=_ff(p["ff"], p.get("free", 0)), file_path=None,
            target_fit_range=_range(p["trng"]), out_fit_range=_range(p["orng"]), target_filenames=names,
            input_arguments=inp, weights=weights, weights_from_file=wfiles)
    finally:
        fdt.check_fit_ranges = saved
    return prob, proc, readout, rows, cols


def do_fit(p):
    import logging
    logging.disable(logging.CRITICAL)
    try:
        prob, *_ = _problem(p)
    except Exception as ex:  # noqa: BLE001
        return {"o": "ctor", "cls": type(ex).__name__, "msg": str(ex)[:160]}
    x = [float(p["gain"])] + ([] if p.get("single_param") else [float(p["bias"])])
    try:
        with np.errstate(all="ignore"):
            r = prob.fitness(np.array(x))
        assert len(r) == 1
        return _val(r[0])
    except Exception as ex:  # noqa: BLE001
        return {"o": "raise", "cls": type(ex).__name__, "msg": str(ex)[:160]}



def _snapshot(prob):
    """the problem's data as plain values: target data, weights, parameters of its processors"""
    import copy
    out = {"targets": np.array(prob.all_target_data, dtype=float).copy()}
    out["weighting"] = None if prob.weighting is None else np.array(prob.weighting, dtype=float).copy()
    wf = prob.weighting_from_file
    out["weighting_from_file"] = None if wf is None else np.array(wf, dtype=float).copy()
    vals = []
    for proc in prob.param_processor_list:
        for key in ("pipeline.charge_collection.pat.arguments.gain", "pipeline.charge_collection.pat.arguments.bias",
                    "pipeline.charge_collection.pat.arguments.offset"):
            vals.append(float(proc.get(key)))
        try:       # the frame left in the processor's own detector, if any (reading an empty bucket raises)
            vals.append(float(np.sum(np.nan_to_num(np.array(proc.detector.pixel.array, dtype=float)))))
        except Exception:  # noqa: BLE001
            vals.append(None)
    out["processors"] = copy.deepcopy(vals)
    return out


def _same(a, b) -> bool:
    for k in a:
        x, y = a[k], b[k]
        if (x is None) != (y is None):
            return False
        if x is None:
            continue
        if isinstance(x, list):
            if x != y:
                return False
        elif x.shape != y.shape or not np.array_equal(x, y, equal_nan=True):
            return False
    return True


def do_hist(p):
    """a history of operations on ONE problem object"""
    import copy
    import logging
    import pickle
    logging.disable(logging.CRITICAL)
    try:
        prob, *_ = _problem(p, tag="h")
    except Exception as ex:  # noqa: BLE001
        return {"o": "ctor", "cls": type(ex).__name__, "msg": str(ex)[:160]}
    try:
        before = _snapshot(prob)
    except Exception as ex:  # noqa: BLE001
        return {"o": "snapshot_failed", "cls": type(ex).__name__, "msg": str(ex)[:160]}
    obs = []
    ncopy = 0
    for op in p["ops"]:
        kind = op["op"]
        if kind == "nop":
            which = op.get("which", 0) % 4
            try:
                if which == 0:
                    prob.get_bounds()
                elif which == 1:
                    prob.convert_to_parameters(np.array([1.0, 0.5]))
                elif which == 2:
                    repr(prob)
                else:
                    copy.deepcopy(prob)
                obs.append({"o": "nop"})
            except Exception as ex:  # noqa: BLE001
                obs.append({"o": "nop_raise", "cls": type(ex).__name__})
            continue
        x = np.array([float(op["gain"]), float(op["bias"])])
        target = prob
        if kind == "fit_copy":
            ncopy += 1
            try:
                target = copy.deepcopy(prob) if ncopy % 2 else pickle.loads(pickle.dumps(prob))
            except Exception as ex:  # noqa: BLE001
                obs.append({"o": "copy_raise", "cls": type(ex).__name__, "msg": str(ex)[:160]})
                continue
        try:
            with np.errstate(all="ignore"):
                r = target.fitness(x)
            assert len(r) == 1
            obs.append(_val(r[0]))
        except Exception as ex:  # noqa: BLE001
            obs.append({"o": "raise", "cls": type(ex).__name__, "msg": str(ex)[:160]})
    try:
        same = _same(before, _snapshot(prob))
    except Exception:  # noqa: BLE001
        same = False
    return {"o": "ok", "obs": obs, "same": same}


def _np_fitness(ff, free, s, t, w):
    """independent numpy recomputation of the three figures of merit"""
    d = t - s
    if ff == "abs":
        return float(np.nansum(np.abs(d * w)))
    if ff == "sq":
        return float(np.nansum(d * d * w))
    return float(np.nansum((d / w) ** 2)) / (int(np.isfinite(d).sum()) - free)


def _isel(a, rng, n_lead):
    """restrict the trailing (time,) y, x axes of `a` by a range spec"""
    t = _sl(rng.get("time", [None, None])) if rng["d"] == 3 else slice(None)
    idx = (slice(None),) * n_lead + (t, _sl(rng["row"]), _sl(rng["col"]))
    return a[idx]


def do_calib(p):
    import logging
    logging.disable(logging.CRITICAL)
    import pygmo as pg
    from pyxel.calibration import Algorithm, DaskBFE, DaskIsland
    from pyxel.calibration.archipelago_datatree import ArchipelagoDataTree

    try:
        prob, proc, readout, rows, cols = _problem(p, tag="c")
    except Exception as ex:  # noqa: BLE001
        return {"o": "ctor", "cls": type(ex).__name__, "msg": str(ex)[:160]}
    pg.set_global_rng_seed(seed=p["seed"])
    algo = Algorithm(type="sade", generations=p["generations"], population_size=p["pop"])
    arch = ArchipelagoDataTree(num_islands=p["islands"], udi=DaskIsland(), algorithm=algo, problem=prob,
                               pop_size=p["pop"], bfe=DaskBFE(), topology=pg.fully_connected(),
                               pygmo_seed=p["seed"], parallel=False)
    out = {}
    try:
        dt = arch.run_evolve(readout=readout, num_rows=rows, num_cols=cols, num_evolutions=p["evolutions"],
                             num_best_decisions=p.get("num_best"))
    except Exception as ex:  # noqa: BLE001
        return {"o": "evolve_raise", "cls": type(ex).__name__, "msg": str(ex)[:300]}
    fit = np.asarray(dt["/champion/fitness"].to_numpy(), dtype=float)           # (island, evolution)
    dec = np.asarray(dt["/champion/decision"].to_numpy(), dtype=float)          # (island, evolution, param)
    par = np.asarray(dt["/champion/parameters"].to_numpy(), dtype=float)
    if fit.ndim == 1:
        fit = fit[:, None]
    out["dims"] = list(dt["/champion/fitness"].dims)
    out["fitness"] = [[_ratio(v) for v in isl] for isl in fit]
    nparam = 1 if p.get("single_param") else 2
    # re-evaluate the problem at the last reported champion decision
    reeval, recomp = [], []
    pat = np.array([[np.nan if v is None else float(v) for v in r] for r in p["pattern"]], dtype=float)
    steps = p.get("steps", 1) if p["multi"] else 1
    offsets = p["offsets"] if p.get("offsets") is not None else [0.0]
    tg_full = np.array([_arr(t) for t in p["targets"]], dtype=float)            # (proc, time, y, x)
    for i in range(fit.shape[0]):
        x = dec[i, -1, :nparam]
        reeval.append(_ratio(prob.fitness(np.array(x))[0]))
        gain = par[i, -1, 0]
        bias = par[i, -1, 1] if nparam == 2 else 0.0
        total = 0.0
        for k in range(len(p["targets"])):
            off = offsets[k] if len(offsets) > 1 else offsets[0]
            sim = np.stack([gain * pat * (t + 1) + off + bias for t in range(steps)])
            s = _isel(sim, dict(p["orng"], d=3), 0)
            trng = p["trng"] if p["trng"]["d"] == 3 else dict(p["trng"], d=3, time=[None, None])
            t = _isel(tg_full[k], trng, 0)
            w = np.ones_like(t)
            if p.get("weights") and "scalar" in p["weights"]:
                w = w * p["weights"]["scalar"][k]
            total += _np_fitness(p["ff"], p.get("free", 0), s, t, w)
        recomp.append(_ratio(total))
    out["reeval"], out["recomp"] = reeval, recomp
    # every individual the result reports (the champion of every island after every evolution, every member of /best):
    # the fitness attached to it vs. the fitness a FRESHLY built problem returns for its decision vector
    try:
        fresh, *_ = _problem(p, tag="f")
        indiv = []
        for i in range(fit.shape[0]):
            for e in range(fit.shape[1]):
                x = dec[i, e, :nparam] if dec.ndim == 3 else dec[i, :nparam]
                with np.errstate(all="ignore"):
                    indiv.append(dict(kind="champion", island=i, evolution=e, x=[float(v) for v in x],
                                      reported=_val(fit[i, e]), fresh=_val(fresh.fitness(np.array(x))[0])))
        if "best" in dt.children or "/best/fitness" in dt.groups or "best" in dt:
            bf = dt["/best/fitness"].transpose("island", "evolution", "individual")
            bd = dt["/best/decision"].transpose("island", "evolution", "individual", "param_id")
            bfa, bda = np.asarray(bf.to_numpy(), dtype=float), np.asarray(bd.to_numpy(), dtype=float)
            for i in range(bfa.shape[0]):
                for e in range(bfa.shape[1]):
                    for k in range(bfa.shape[2]):
                        x = bda[i, e, k, :nparam]
                        with np.errstate(all="ignore"):
                            indiv.append(dict(kind="best", island=i, evolution=e, individual=k, x=[float(v) for v in x],
                                              reported=_val(bfa[i, e, k]), fresh=_val(fresh.fitness(np.array(x))[0])))
        out["indiv"] = indiv
    except Exception as ex:  # noqa: BLE001
        out["indiv_error"] = {"cls": type(ex).__name__, "msg": str(ex)[:200]}
    # the returned simulated data: computable?  equal to the formula?  reproduces the reported fitness?
    try:
        sim_ret = np.asarray(dt[f"/simulated/{p.get('bucket', 'pixel')}"].to_numpy(), dtype=float)
        tgt_ret = np.asarray(dt["/simulated/target"].to_numpy(), dtype=float)
        out["sim"] = {"o": "ok", "shape": list(sim_ret.shape), "dims": list(dt["/simulated/pixel"].dims)}
        fs = []
        for i in range(fit.shape[0]):
            total = 0.0
            for k in range(tgt_ret.shape[0]):
                s = sim_ret[i, k] if list(dt["/simulated/pixel"].dims)[:2] == ["island", "processor"] else sim_ret[k, i]
                w = np.ones_like(tgt_ret[k])
                if p.get("weights") and "scalar" in p["weights"]:
                    w = w * p["weights"]["scalar"][k]
                total += _np_fitness(p["ff"], p.get("free", 0), s, tgt_ret[k], w)
            fs.append(_ratio(total))
        out["from_returned"] = fs
    except Exception as ex:  # noqa: BLE001
        out["sim"] = {"o": "raise", "cls": type(ex).__name__, "msg": str(ex)[:200]}
    out["o"] = "ok"
    return out


def handle(p):
    return {"ck": do_ck, "ff": do_ff, "fit": do_fit, "hist": do_hist, "calib": do_calib}[p["kind"]](p)
