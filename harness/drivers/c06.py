"""Implementation side of C06: parameter runs are isolated from each other and from the caller's objects.

kinds:
  graph    canonical object graph of a Processor before / after a copy site (sharing pattern)
  sitefail a copy site asked to apply a rejected value: it raises and leaves the caller's objects alone
  observe  behavioural isolation of Observation runs against standalone exposures
  fitness  ModelFittingDataTree.fitness called directly, against standalone exposures
  calibration  a real calibration on an archipelago of several islands: caller snapshot, every evaluated candidate and the
           champions' simulated frames (update_processor via fitness / _apply_parameters) against standalone exposures
"""
from __future__ import annotations

import collections
import copy
import datetime
import enum
import itertools
import logging
import pathlib
import threading
import types
import weakref
import zlib
from pathlib import Path

import numpy as np

CORE_DIMS = ("time", "y", "x")
MAX_NODES = 1500


# ----------------------------------------------------------------------------------------------
# building the caller's objects
# ----------------------------------------------------------------------------------------------
def build(spec):
    """-> (detector, pipeline, readout); fresh objects, nothing shared between two builds.

    Optional spec keys (all deterministic, so that two builds of the same spec are equal in value):
      ndarray_args  ["<group>.<model>.<arg>"]  the (list) argument is given as a numpy array
      tuple_args    ["<group>.<model>.<arg>"]  the (list of lists) argument is given as a tuple of lists
      memory        x        an ad-hoc attribute on the detector (read by verif_probes.stateful)
      real_memory   {k: x}   entries of the detector's own `_memory` dict (arrays)
      persistence   x        a SimplePersistence object with trapped charge x in every pixel
      pre_exposure  n        the caller has already used these very objects for n plain exposures (which work in
                             place): buckets hold arrays, memory / trapped charge / list arguments have moved on
      pre_seed      k        those earlier exposures were run with pipeline_seed k, k+1, .. (stochastic pipelines)
    """
    from harness import pyx

    spec = copy.deepcopy(spec)
    det = pyx.make_detector(**dict(spec.get("det") or {}))
    pipe = pyx.make_pipeline(copy.deepcopy(spec.get("pipeline") or {}))
    readout = pyx.make_readout(**dict(spec.get("readout") or {}))
    # "ndarray_args": ["<group>.<model>.<arg>", ...] - the (list) argument is given as a numpy array, as a user of
    # the Python API may do
    for ref in spec.get("ndarray_args") or []:
        group, mname, arg = ref.split(".")
        model = getattr(getattr(pipe, group), mname)
        model.arguments[arg] = np.array(model.arguments[arg], dtype=float)
    for ref in spec.get("tuple_args") or []:
        group, mname, arg = ref.split(".")
        model = getattr(getattr(pipe, group), mname)
        model.arguments[arg] = tuple(model.arguments[arg])
    if spec.get("memory") is not None:
        setattr(det, "_verif_memory", spec["memory"])
    for k, v in (spec.get("real_memory") or {}).items():
        det._memory[k] = np.array([float(v)], dtype=float)
    if spec.get("persistence") is not None:
        from pyxel.data_structure import SimplePersistence

        geo = det.geometry
        pers = SimplePersistence(trap_time_constants=[1.0], trap_densities=[0.5], geometry=(geo.row, geo.col))
        pers.trapped_charge_array = np.full((1, geo.row, geo.col), float(spec["persistence"]), dtype=float)
        det.persistence = pers
    for i in range(int(spec.get("pre_exposure") or 0)):
        # a stochastic pipeline: the caller's earlier exposures are made reproducible (pre_seed), so that two builds of
        # the same spec are equal in value
        pre_seed = spec.get("pre_seed")
        pyx.run_exposure(det, pipe, readout, pipeline_seed=None if pre_seed is None else int(pre_seed) + i)
    return det, pipe, readout


def apply_params_direct(det, pipe, params):
    """Apply a run's parameter values on freshly built objects WITHOUT Processor.set (plain item / attribute
    assignment of an independent copy of the value)."""
    for key, value in params.items():
        parts = key.split(".")
        if parts[0] == "pipeline" and len(parts) == 5 and parts[3] == "arguments":
            model = getattr(getattr(pipe, parts[1]), parts[2])
            model.arguments[parts[4]] = copy.deepcopy(value)
        elif parts[0] == "detector" and len(parts) == 3 and parts[1] in ("characteristics", "environment"):
            getattr(det, parts[1])                       # the section must exist
            if not hasattr(type(getattr(det, parts[1])), parts[2]):
                raise KeyError(key)
            setattr(getattr(det, parts[1]), parts[2], value)
        else:
            raise KeyError(key)


def _spec_with_params(spec, params):
    """Apply the 'pipeline.G.M.arguments.A' keys on the JSON spec (independent of Processor.set)."""
    spec = copy.deepcopy(spec)
    rest = {}
    for key, value in params.items():
        parts = key.split(".")
        if parts[0] == "pipeline" and len(parts) == 5 and parts[3] == "arguments":
            _, group, mname, _, arg = parts
            hit = False
            for m in (spec.get("pipeline") or {}).get(group) or []:
                if m.get("name") == mname:
                    if m.get("arguments") is None:
                        m["arguments"] = {}
                    m["arguments"][arg] = copy.deepcopy(value)
                    hit = True
                    break
            if not hit:
                raise KeyError(key)
        else:
            rest[key] = value
    return spec, rest


def build_with_params(spec, params):
    if spec.get("pre_exposure") or spec.get("direct_params"):
        # the history of the caller's objects comes first, the run's values are applied on the result
        det, pipe, readout = build(spec)
        apply_params_direct(det, pipe, params)
        return det, pipe, readout
    spec2, rest = _spec_with_params(spec, params)
    det, pipe, readout = build(spec2)
    apply_params_direct(det, pipe, rest)
    return det, pipe, readout


# ----------------------------------------------------------------------------------------------
# classification of python objects
# ----------------------------------------------------------------------------------------------
_LOCK_TYPES = (type(threading.Lock()), type(threading.RLock()))
_FUNC_TYPES = (types.FunctionType, types.BuiltinFunctionType, types.MethodType, types.BuiltinMethodType,
               types.MethodWrapperType, types.WrapperDescriptorType, types.MethodDescriptorType,
               types.ModuleType)
_DATETIME_TYPES = (datetime.datetime, datetime.date, datetime.time, datetime.timedelta, datetime.tzinfo)
_WEAK_TYPES = (weakref.ReferenceType, weakref.ProxyType, weakref.CallableProxyType)

_LAZY = {}


def _lazy():
    if _LAZY:
        return _LAZY
    try:
        from astropy.units import UnitBase
        _LAZY["unit"] = (UnitBase,)
    except Exception:  # noqa: BLE001
        _LAZY["unit"] = ()
    leaf = [np.ndarray, set, bytearray, np.random.Generator, np.random.RandomState]
    try:
        import pandas as pd
        leaf += [pd.DataFrame, pd.Series, pd.Index]
        _LAZY["pd"] = pd
    except Exception:  # noqa: BLE001
        _LAZY["pd"] = None
    try:
        import xarray as xr
        leaf += [xr.DataArray, xr.Dataset, xr.DataTree, xr.Variable]
        _LAZY["xr"] = xr
    except Exception:  # noqa: BLE001
        _LAZY["xr"] = None
    _LAZY["leaf"] = tuple(leaf)
    from pyxel.detectors import Detector
    from pyxel.exposure import Readout
    from pyxel.observation import Observation
    from pyxel.pipelines import DetectionPipeline, ModelFunction, ModelGroup, Processor
    from pyxel.pipelines.model_function import Arguments
    _LAZY["tags"] = [(Processor, "Processor"), (ModelGroup, "Group"), (ModelFunction, "Model"),
                     (Arguments, "Args"), (DetectionPipeline, "Pipeline"), (Detector, "Detector"),
                     (Observation, "Observation"), (Readout, "Readout")]
    _LAZY["named"] = (Processor, ModelGroup)
    return _LAZY


def is_atom(o) -> bool:
    if o is None or o is Ellipsis:
        return True
    if isinstance(o, (bool, int, float, complex, str, bytes, type)):
        return True
    if isinstance(o, _FUNC_TYPES):
        return True
    if isinstance(o, (logging.Logger, np.generic, np.dtype, enum.Enum, pathlib.PurePath, range, slice)):
        return True
    if isinstance(o, _DATETIME_TYPES) or isinstance(o, _LOCK_TYPES) or isinstance(o, _WEAK_TYPES):
        return True
    unit = _lazy()["unit"]
    if unit and isinstance(o, unit):
        return True
    return False


def is_transparent(o) -> bool:
    return isinstance(o, (tuple, frozenset))


def is_leaf(o) -> bool:
    if isinstance(o, _lazy()["leaf"]):
        return True
    mod = getattr(type(o), "__module__", "") or ""
    return mod.startswith("numba")


_SKIP = object()


def raw_fields(o):
    """Ordered (name, value) pairs of a container object (name is a str: key / index / attribute)."""
    if isinstance(o, dict):
        return [(str(k), v) for k, v in o.items()]
    if isinstance(o, (list, collections.deque)):
        return [(str(i), v) for i, v in enumerate(o)]
    out = []
    try:
        d = vars(o)
    except TypeError:
        d = None
    if d is not None:
        out += [(str(k), v) for k, v in list(d.items())]
    for klass in type(o).__mro__:
        slots = klass.__dict__.get("__slots__")
        if not slots:
            continue
        if isinstance(slots, str):
            slots = (slots,)
        for name in slots:
            if name in ("__dict__", "__weakref__"):
                continue
            try:
                v = getattr(o, name, _SKIP)
            except Exception:  # noqa: BLE001
                v = _SKIP
            if v is not _SKIP:
                out.append((str(name), v))
    return out


def children(o):
    """-> ([(fname, child)], number of atom values dropped)."""
    if is_leaf(o):
        return [], 0
    named = isinstance(o, _lazy()["named"])
    out = []
    atoms = [0]

    def expand(fname, v):
        if is_atom(v):
            atoms[0] += 1
        elif is_transparent(v):
            for e in v:
                expand(fname, e)
        else:
            out.append((fname, v))

    for name, v in raw_fields(o):
        expand(name if named else "", v)
    return out, atoms[0]


def tag_of(o) -> str:
    for klass, tag in _lazy()["tags"]:
        if isinstance(o, klass):
            return tag
    if isinstance(o, (list, collections.deque)):
        return "List"
    if isinstance(o, dict):
        return "Dict"
    if isinstance(o, np.ndarray):
        return "Array"
    if is_leaf(o):
        return "Leaf"
    return "Obj"


# ----------------------------------------------------------------------------------------------
# canonical graph
# ----------------------------------------------------------------------------------------------
def number(root, index0=None, limit=MAX_NODES):
    """-> (order, index). Nodes of `index0` (the original graph) are not renumbered."""
    work = [root]
    order = []
    index = {}
    if is_atom(root):
        return order, index
    while work:
        x = work.pop(0)
        if id(x) in index:
            continue
        if index0 is not None and id(x) in index0:
            continue
        index[id(x)] = len(order)
        order.append(x)
        if len(order) > limit:
            break
        work = [c for (_, c) in children(x)[0]] + work
    return order, index


def nodes_json(order, index, index0=None, n0=0):
    out = []
    for x in order:
        ch, payload = children(x)
        refs = []
        for fname, c in ch:
            if index0 is not None and id(c) in index0:
                loc = index0[id(c)]
            elif index0 is not None:
                loc = n0 + index[id(c)]
            else:
                loc = index[id(c)]
            refs.append([fname, loc])
        out.append({"cls": tag_of(x), "payload": payload, "refs": refs})
    return out


def _array_owner(a, keep):
    while isinstance(getattr(a, "base", None), np.ndarray):
        a = a.base
    keep.append(a)
    return id(a)


def _owners(arrs, keep):
    """Owners of the given arrays; zero-size arrays own no memory and are ignored."""
    keep.extend(arrs)
    return [_array_owner(a, keep) for a in arrs if isinstance(a, np.ndarray) and a.size > 0]


def _index_arrays(idx, pd):
    # a RangeIndex has no data of its own (pandas shares its read-only cache between copies)
    return [] if isinstance(idx, pd.RangeIndex) else [idx.to_numpy()]


def mem_owners(o, keep):
    """ids of the arrays owning the memory of a leaf."""
    lz = _lazy()
    pd, xr = lz["pd"], lz["xr"]
    try:
        if isinstance(o, np.ndarray):
            return _owners([o], keep)
        if pd is not None and isinstance(o, pd.DataFrame):
            return _owners([o[c].to_numpy() for c in o.columns] + _index_arrays(o.index, pd), keep)
        if pd is not None and isinstance(o, pd.Series):
            return _owners([o.to_numpy()] + _index_arrays(o.index, pd), keep)
        if pd is not None and isinstance(o, pd.Index):
            return _owners(_index_arrays(o, pd), keep)
        if xr is not None and isinstance(o, (xr.DataArray, xr.Dataset, xr.Variable, xr.DataTree)):
            variables = []
            if isinstance(o, xr.Variable):
                variables = [o]
            elif isinstance(o, xr.DataArray):
                variables = [o.variable] + [c.variable for c in o.coords.values()]
            elif isinstance(o, xr.Dataset):
                variables = list(o.variables.values())
            else:
                for node in o.subtree:
                    variables += list(node.to_dataset(inherit=False).variables.values())
            arrs = []
            for v in variables:
                data = getattr(v, "_data", None)
                if not isinstance(data, np.ndarray):
                    if pd is not None and isinstance(getattr(data, "array", None), pd.RangeIndex):
                        continue
                    data = v.values
                if isinstance(data, np.ndarray):
                    arrs.append(data)
            return _owners(arrs, keep)
    except Exception:  # noqa: BLE001
        return []
    return []


# ----------------------------------------------------------------------------------------------
# value snapshot
# ----------------------------------------------------------------------------------------------
SNAP_SKIP_NAMES = ("_log", "_func")
# not contents a run can depend on: caches, the name of the running model, debug data, and the buckets / scene / readout
# clock that exposure.run_pipeline resets before the first step of EVERY run (detector.empty(), set_readout)
LOST_IGNORED = ("_numbytes", "current_running_model_name", "_intermediate", "_scene", "_photon", "_charge", "_pixel",
                "_signal", "_image", "_readout_properties")


def _crc(s) -> int:
    if isinstance(s, str):
        s = s.encode("utf-8", "backslashreplace")
    return zlib.crc32(s) & 0xFFFFFFFF


def _atom_crc(v) -> int:
    if isinstance(v, bool) or v is None:
        return _crc(repr(v))
    if isinstance(v, float):
        return _crc("f:" + (v.hex() if v == v else "nan"))
    if isinstance(v, np.floating):
        f = float(v)
        return _crc("nf:%s:%s" % (v.dtype, f.hex() if f == f else "nan"))
    if isinstance(v, complex):
        return _crc("c:%s:%s" % (float(v.real).hex(), float(v.imag).hex()))
    try:
        return _crc(type(v).__name__ + ":" + repr(v))
    except Exception:  # noqa: BLE001
        return _crc("unrepr:" + type(v).__name__)


def _leaf_crc(o) -> int:
    lz = _lazy()
    pd, xr = lz["pd"], lz["xr"]
    try:
        if isinstance(o, np.ndarray):
            a = np.asarray(o)
            if a.dtype == object:
                return _crc("obj:%s:%r" % (a.shape, a.tolist()))
            head = ("%s:%s:%s:" % (type(o).__name__, a.dtype, a.shape)).encode()
            unit = getattr(o, "unit", None)
            if unit is not None:
                head += str(unit).encode()
            return _crc(head + np.ascontiguousarray(a).tobytes())
        if pd is not None and isinstance(o, pd.DataFrame):
            return _crc("df:" + o.to_csv())
        if pd is not None and isinstance(o, pd.Series):
            return _crc("ser:" + o.to_csv())
        if pd is not None and isinstance(o, pd.Index):
            return _crc("idx:" + repr(o.tolist()))
        if xr is not None and isinstance(o, xr.DataTree):
            parts = []
            for node in o.subtree:
                parts.append(node.path + "=" + repr(node.to_dataset(inherit=False).compute().to_dict()))
            return _crc("dt:" + "|".join(parts))
        if xr is not None and isinstance(o, (xr.DataArray, xr.Dataset)):
            return _crc("xr:" + repr(o.compute().to_dict()))
        if xr is not None and isinstance(o, xr.Variable):
            return _crc("var:%r:%r:%r" % (o.dims, np.asarray(o.values).tolist(), dict(o.attrs)))
        if isinstance(o, set):
            return _crc("set:" + repr(sorted(repr(e) for e in o)))
        if isinstance(o, bytearray):
            return _crc(bytes(o))
        if isinstance(o, np.random.Generator):
            return _crc("gen:" + repr(o.bit_generator.state))
        if isinstance(o, np.random.RandomState):
            st = o.get_state()
            return _crc("rs:" + repr((st[0], np.asarray(st[1]).tolist(), st[2:])))
        return _crc("leaf:" + type(o).__name__)
    except Exception as ex:  # noqa: BLE001
        try:
            return _crc("str:" + str(o))
        except Exception:  # noqa: BLE001
            return _crc("err:" + type(ex).__name__)


def snapshot(obj, prefix="") -> dict:
    """path -> crc; a value (not identity) snapshot of the object graph."""
    out = {}
    onpath = set()
    budget = [200000]

    def walk(o, path):
        budget[0] -= 1
        if budget[0] < 0:
            out[path] = _crc("<budget>")
            return
        if isinstance(o, _FUNC_TYPES) or isinstance(o, logging.Logger):
            return
        if is_atom(o):
            out[path] = _atom_crc(o)
            return
        if id(o) in onpath:
            out[path] = _crc("<ref>")
            return
        if is_leaf(o):
            out[path] = _leaf_crc(o)
            return
        onpath.add(id(o))
        try:
            if is_transparent(o):
                items = list(o)
                if isinstance(o, frozenset):
                    items = sorted(items, key=repr)
                out[path + ".<len>"] = _crc("%s:%d" % (type(o).__name__, len(items)))
                for i, v in enumerate(items):
                    walk(v, "%s.%d" % (path, i))
                return
            fields = raw_fields(o)
            out[path + ".<type>"] = _crc("%s:%d" % (type(o).__name__, len(fields)))
            for name, v in fields:
                if name in SNAP_SKIP_NAMES and not isinstance(o, (dict, list, collections.deque)):
                    continue
                walk(v, (path + "." + name) if path else name)
        finally:
            onpath.discard(id(o))

    walk(obj, prefix)
    return out


def snap_list(snap: dict) -> list:
    return [_crc("%s=%d" % (p, snap[p])) for p in sorted(snap)]


def snap_diff(a: dict, b: dict) -> list:
    return sorted(p for p in set(a) | set(b) if a.get(p, -1) != b.get(p, -1))


def _snap_many(**objs) -> dict:
    out = {}
    for name, o in objs.items():
        out.update(snapshot(o, prefix=name))
    return out


# ----------------------------------------------------------------------------------------------
# helpers for calibration objects
# ----------------------------------------------------------------------------------------------
def _exc(ex) -> str:
    return type(ex).__name__


def _make_fitting(proc, variables, readout, rows, cols, target, input_arguments=None, pipeline_seed=None):
    """variables: [(key, lo, hi)] scalar ones or [(key, lo, hi, n)] list-valued ones (n >= 1 entries of the decision
    vector); input_arguments: [(key, [v_0, .., v_{m-1}])] -> m processors (build_processors), one target file each."""
    from pyxel.calibration.fitness import sum_of_abs_residuals
    from pyxel.calibration.fitting_datatree import ModelFittingDataTree
    from pyxel.calibration.util import FitRange2D, FitRange3D
    from pyxel.observation import ParameterValues

    pvs = []
    for var in variables:
        k, lo, hi = var[0], var[1], var[2]
        n = var[3] if len(var) > 3 and var[3] else None
        pvs.append(ParameterValues(key=k, values="_" if n is None else ["_"] * n, boundaries=(lo, hi)))
    nproc = len(input_arguments[0][1]) if input_arguments else 1
    names = []
    for i in range(nproc):
        name = "target.npy" if nproc == 1 else "target%d.npy" % i
        if readout.time_domain_simulation:
            # any Readout built with explicit `times` is a "time domain simulation": the target must be a
            # (readout_time, y, x) cube.  A FitRange3D target range cannot be used (pyxel applies its "time" key
            # on a "readout_time" dimension), a FitRange2D one covers the full cube.
            nt = len(readout.times)
            np.save(name, np.full((nt, rows, cols), float(target), dtype=float))
        else:
            np.save(name, np.full((rows, cols), float(target), dtype=float))
        names.append(Path(name))
    kw = {}
    if input_arguments:
        kw["input_arguments"] = [ParameterValues(key=k, values=list(vals)) for k, vals in input_arguments]
    if pipeline_seed is not None:
        kw["pipeline_seed"] = int(pipeline_seed)
    return ModelFittingDataTree(
        processor=proc, variables=pvs, readout=readout, simulation_output="pixel", generations=1,
        population_size=1, fitness_func=sum_of_abs_residuals, file_path=None,
        target_fit_range=FitRange2D(row=slice(0, rows), col=slice(0, cols)),
        out_fit_range=FitRange3D.from_sequence([0, rows, 0, cols]),
        target_filenames=names, with_inherited_coords=True, **kw
    )


def _is_scalar(v) -> bool:
    return isinstance(v, (int, float)) and not isinstance(v, bool)


# ----------------------------------------------------------------------------------------------
# kind "graph"
# ----------------------------------------------------------------------------------------------
def do_graph(p, keep):
    from pyxel.exposure import run_pipeline
    from pyxel.observation import Observation, ParameterValues
    from pyxel.pipelines import Processor
    from harness import pyx

    spec = p["spec"]
    site = p["site"]
    params = dict(p.get("params") or {})
    det, pipe, readout = build(spec)
    res = {}
    obs = None
    if p.get("with_obs"):
        obs = Observation(parameters=[ParameterValues(key=k, values=[v, v]) for k, v in params.items()],
                          readout=readout)
    proc = Processor(det, pipe, observation_mode=obs)
    keep.append(proc)
    if p.get("pre_run"):
        try:
            run_pipeline(processor=proc, readout=readout, outputs=None, debug=False, with_inherited_coords=True)
            res["pre_run_error"] = None
        except Exception as ex:  # noqa: BLE001
            res["pre_run_error"] = _exc(ex)

    order0, index0 = number(proc)
    keep.append(order0)
    if len(order0) > MAX_NODES:
        return {"too_big": len(order0)}
    n0 = len(order0)
    g0 = nodes_json(order0, index0)
    s0 = snapshot(proc)

    new = None
    site_error = None
    try:
        if site == "deepcopy":
            new = copy.deepcopy(proc)
        elif site == "pickle":
            import pickle

            # the route by which a processor reaches a run under a multi-process / distributed scheduler
            new = pickle.loads(pickle.dumps(proc))
        elif site == "replace":
            new = proc.replace(params)
        elif site == "create_new_processor":
            from pyxel.observation.misc import create_new_processor
            new = create_new_processor(processor=proc, parameter_dict=params)
        elif site == "build_processors":
            from pyxel.calibration.fitting_datatree import build_processors
            new = build_processors(
                processor=proc,
                arguments=[ParameterValues(key=k, values=[v, v]) for k, v in params.items()])[0]
        elif site in ("update_processor", "fitting_init"):
            scal = [(k, v) for k, v in params.items() if _is_scalar(v)]
            geo = det.geometry
            mf = _make_fitting(proc, [(k, 0, 1000) for k, _ in scal], pyx.make_readout(times=[1.0]),
                               geo.row, geo.col, 0.0)
            keep.append(mf)
            if site == "fitting_init":
                new = mf.param_processor_list[0]
            else:
                new = mf.update_processor(parameter=np.array([v for _, v in scal], dtype=float), processor=proc)
        else:
            return {"error": "unknown site %r" % (site,)}
    except Exception as ex:  # noqa: BLE001
        site_error = _exc(ex)
        res["site_error_msg"] = str(ex)[:200]
    keep.append(new)

    g1 = []
    shared = []
    order1 = []
    copy_root = None
    if site_error is None:
        order1, index1 = number(new, index0=index0)
        keep.append(order1)
        if len(order1) > MAX_NODES:
            return {"too_big": len(order1)}
        g1 = nodes_json(order1, index1, index0=index0, n0=n0)
        copy_root = index0[id(new)] if id(new) in index0 else (n0 + index1[id(new)] if id(new) in index1 else None)
        own0 = {}
        for i, x in enumerate(order0):
            if is_leaf(x):
                for o in mem_owners(x, keep):
                    own0.setdefault(o, []).append(i)
        for j, x in enumerate(order1):
            if is_leaf(x):
                seen = set()
                for o in mem_owners(x, keep):
                    for i in own0.get(o, []):
                        if (i, j) not in seen:
                            seen.add((i, j))
                            shared.append([i, n0 + j])
    s1 = snapshot(proc)
    # completeness of the copy: the copy's detector holds, value for value, what the caller's detector holds
    # (memory, trapped charge, bucket contents included); caches and the name of the running model are not contents
    lost = []
    if site_error is None and new is not None and not any(k.startswith("detector.") for k in params):
        a = snapshot(proc.detector, prefix="detector")
        b = snapshot(new.detector, prefix="detector")
        lost = [q for q in snap_diff(a, b) if not any(
            q.startswith("detector." + t) for t in LOST_IGNORED)]
    res.update({
        "n0": n0, "orig": g0, "copy": g1, "copy_root": copy_root, "shared_mem": sorted(shared),
        "lost": lost[:10],
        "orig_changed": snap_diff(s0, s1)[:10], "site_error": site_error,
        "types": sorted({type(x).__name__ for x in list(order0) + list(order1)}),
    })
    return res


# ----------------------------------------------------------------------------------------------
# kind "sitefail": a copy site is asked to apply a value that a setter rejects
# ----------------------------------------------------------------------------------------------
def do_sitefail(p, keep):
    from pyxel.observation import Observation, ParameterValues
    from pyxel.pipelines import Processor
    from harness import pyx

    spec = p["spec"]
    site = p["site"]
    params = dict(p.get("params") or {})
    det, pipe, readout = build(spec)
    obs = None
    if p.get("with_obs"):
        obs = Observation(parameters=[ParameterValues(key=k, values=[v, v]) for k, v in params.items()
                                      if _is_scalar(v)], readout=readout)
    proc = Processor(det, pipe, observation_mode=obs)
    keep.append(proc)
    mf = None
    if site == "update_processor":
        geo = det.geometry
        mf = _make_fitting(proc, [(k, 0, 1000) for k in params], pyx.make_readout(times=[1.0]), geo.row, geo.col, 0.0)
        keep.append(mf)
    s0 = _snap_many(detector=det, pipeline=pipe, readout=readout)
    raised = None
    new = None
    try:
        if site == "replace":
            new = proc.replace(params)
        elif site == "create_new_processor":
            from pyxel.observation.misc import create_new_processor
            new = create_new_processor(processor=proc, parameter_dict=params)
        elif site == "build_processors":
            from pyxel.calibration.fitting_datatree import build_processors
            new = build_processors(processor=proc,
                                   arguments=[ParameterValues(key=k, values=[v, v]) for k, v in params.items()])[0]
        elif site == "update_processor":
            new = mf.update_processor(parameter=np.array(list(params.values()), dtype=float), processor=proc)
        else:
            return {"error": "unknown site %r" % (site,)}
    except Exception as ex:  # noqa: BLE001
        raised = _exc(ex)
    keep.append(new)
    s1 = _snap_many(detector=det, pipeline=pipe, readout=readout)
    std_raised = None
    try:
        d2, p2, _ = build(spec)
        apply_params_direct(d2, p2, params)
    except Exception as ex:  # noqa: BLE001
        std_raised = _exc(ex)
    return {"raised": raised, "std_raised": std_raised, "changed": snap_diff(s0, s1)[:10],
            "returned_caller": new is proc}


# ----------------------------------------------------------------------------------------------
# pixel extraction
# ----------------------------------------------------------------------------------------------
def _to_ints(values):
    out = []
    inexact = False
    for v in values:
        v = float(v)
        if v != v or v in (float("inf"), float("-inf")):
            out.append(repr(v))
            inexact = True
            continue
        iv = int(round(v * 1024))
        if abs(iv / 1024 - v) > 1e-9:
            inexact = True
        out.append(iv)
    return out, inexact


def _pixel_da(dt):
    da = dt["/bucket/pixel"]
    return da


def _flatten_core(da):
    extra = [d for d in da.dims if d not in CORE_DIMS]
    if extra:
        raise ValueError("unselected dims %r" % (extra,))
    missing = [d for d in CORE_DIMS if d not in da.dims]
    if missing:
        raise ValueError("missing dims %r" % (missing,))
    arr = np.asarray(da.transpose(*CORE_DIMS).values, dtype=float)
    return [float(v) for v in arr.reshape(-1)]


def _norm_label(v):
    if isinstance(v, (list, tuple, np.ndarray)):
        return tuple(_norm_label(x) for x in v)
    if isinstance(v, (int, float, np.integer, np.floating)) and not isinstance(v, bool):
        return float(v)
    return v


def _select_dim(da, dim, label, pos, nvalues):
    coord = da[dim].values
    try:
        # value-labelled dimension; a list-valued parameter is labelled with tuples (possibly re-ordered by xarray)
        want = _norm_label(label)
        hits = [i for i, c in enumerate(list(coord)) if _norm_label(c) == want]
    except Exception:  # noqa: BLE001
        hits = []
    if len(hits) == 1:
        return da.isel({dim: int(hits[0])}), "label"
    if len(coord) == nvalues and not isinstance(label, (list, tuple, np.ndarray)):
        return da.isel({dim: pos}), "position"
    raise ValueError("cannot select %r in dim %r (coord %r)" % (label, dim, coord.tolist()))


def _extract_run(da, mode, plist, run):
    """plist: [(key, values)], run: {"index": n, "pos": {key: position}, "params": {key: value}}."""
    extra = [d for d in da.dims if d not in CORE_DIMS]
    how = []
    if mode in ("sequential", "custom"):
        if "id" not in extra:
            raise ValueError("no 'id' dim in %r" % (list(da.dims),))
        total = sum(len(v) for _, v in plist) if mode == "sequential" else len(plist[0][1])
        da, h = _select_dim(da, "id", run["index"], run["index"], total)
        how.append(h)
    else:
        for key, values in plist:
            parts = key.split(".")
            short = parts[-1]
            withm = "%s.%s" % (parts[2], parts[4]) if len(parts) == 5 else short
            dim = None
            by_index = False
            for cand, idx in ((short, False), (withm, False), (short + "_id", True), (withm + "_id", True)):
                if cand in extra:
                    dim, by_index = cand, idx
                    break
            if dim is None:
                if len(extra) == 1 and len(plist) == 1:
                    dim = extra[0]
                else:
                    raise ValueError("no dim for %r in %r" % (key, extra))
            pos = run["pos"][key]
            label = pos if by_index else run["params"][key]
            da, h = _select_dim(da, dim, label, pos, len(values))
            how.append(h)
    return _flatten_core(da), how


def _standalone(spec, params, seed=None, ambient=None):
    """-> (ints | None, inexact, raised | None, floats | None)

    seed: the pipeline_seed of the standalone Exposure; ambient: numpy's global generator is put into this state before
    the exposure (a seeded exposure must not depend on it)."""
    from harness import pyx

    try:
        det, pipe, readout = build_with_params(spec, params)
        if ambient is not None:
            np.random.seed(int(ambient))
        dt = pyx.run_exposure(det, pipe, readout, pipeline_seed=seed)
        vals = _flatten_core(_pixel_da(dt))
        ints, inexact = _to_ints(vals)
        return ints, inexact, None, vals
    except Exception as ex:  # noqa: BLE001
        return None, False, _exc(ex), None


def _enumerate_runs(mode, plist):
    runs = []
    if mode == "custom":
        keys = [k for k, _ in plist]
        for n, row in enumerate(zip(*[v for _, v in plist])):
            runs.append({"index": n, "pos": {k: n for k in keys}, "params": dict(zip(keys, row))})
    elif mode == "sequential":
        n = 0
        for key, values in plist:
            for i, v in enumerate(values):
                runs.append({"index": n, "pos": {key: i}, "params": {key: v}})
                n += 1
    else:
        keys = [k for k, _ in plist]
        for n, combo in enumerate(itertools.product(*[list(enumerate(v)) for _, v in plist])):
            runs.append({"index": n, "pos": {k: c[0] for k, c in zip(keys, combo)},
                         "params": {k: c[1] for k, c in zip(keys, combo)}})
    return runs


# ----------------------------------------------------------------------------------------------
# kind "observe"
# ----------------------------------------------------------------------------------------------
def do_observe(p, keep):
    import pyxel
    from pyxel.observation import Observation, ParameterValues

    spec = p["spec"]
    det, pipe, readout = build(spec)
    keep.append((det, pipe, readout))
    before = _snap_many(detector=det, pipeline=pipe, readout=readout)
    out = {"before": snap_list(before), "calls": []}
    prev_obs = None
    for call in p.get("calls") or []:
        mode = call.get("mode", "product")
        plist = [(q["key"], list(q["values"])) for q in call.get("parameters") or []]
        rec = {"raised": None, "runs": []}
        da = None
        seed = call.get("pipeline_seed")
        try:
            kw = {}
            if mode == "custom":
                # the rows of the file are the runs; every parameter is declared with the placeholder "_"
                np.savetxt("custom_params.txt", np.array([list(row) for row in zip(*[v for _, v in plist])], dtype=float))
                kw = dict(from_file="custom_params.txt", column_range=(0, len(plist)))
                pvs = [ParameterValues(key=k, values="_") for k, _ in plist]
            else:
                pvs = [ParameterValues(key=k, values=copy.deepcopy(v)) for k, v in plist]
            if seed is not None:
                kw["pipeline_seed"] = int(seed)
            if call.get("same_mode_object") and prev_obs is not None:
                obs = prev_obs           # the user runs the very same Observation object once more
            else:
                obs = Observation(
                    parameters=pvs,
                    readout=readout, mode=mode, with_dask=bool(call.get("with_dask")), outputs=None, **kw)
            prev_obs = obs
            if call.get("ambient") is not None:
                np.random.seed(int(call["ambient"]))      # the state of the global generator when the user calls
            sched = call.get("scheduler") or "synchronous"
            import dask

            with dask.config.set(scheduler=sched, **({"num_workers": 3} if sched == "threads" else
                                                     {"num_workers": 2} if sched == "processes" else {})):
                dt = pyxel.run_mode(mode=obs, detector=det, pipeline=pipe, with_inherited_coords=True)
                da = _pixel_da(dt).compute()
            rec["dims"] = [str(d) for d in da.dims]
        except Exception as ex:  # noqa: BLE001
            rec["raised"] = _exc(ex)
            rec["raised_msg"] = str(ex)[:200]
            da = None
        after = _snap_many(detector=det, pipeline=pipe, readout=readout)
        rec["after"] = snap_list(after)
        rec["changed"] = snap_diff(before, after)[:10]
        for run in _enumerate_runs(mode, plist):
            r = {"params": run["params"], "obs": None, "std": None, "std_raised": None, "inexact": False}
            # the standalone exposure runs under the same pipeline_seed, and under a DIFFERENT state of the global
            # generator (a seeded exposure does not depend on it)
            amb = None if seed is None else (int(call.get("ambient") or 0) * 31 + 17 * run["index"] + 5) % 100003
            std, inexact, raised, _ = _standalone(spec, run["params"], seed=seed, ambient=amb)
            r["std"], r["std_raised"] = std, raised
            r["inexact"] = bool(inexact)
            if da is not None:
                try:
                    vals, how = _extract_run(da, mode, plist, run)
                    ints, inex = _to_ints(vals)
                    r["obs"] = ints
                    r["sel"] = how
                    r["inexact"] = bool(r["inexact"] or inex)
                except Exception as ex:  # noqa: BLE001
                    r["obs"] = None
                    r["extract_error"] = "%s: %s" % (_exc(ex), str(ex)[:200])
            rec["runs"].append(r)
        out["calls"].append(rec)
    return out


# ----------------------------------------------------------------------------------------------
# kind "fitness"
# ----------------------------------------------------------------------------------------------
def do_fitness(p, keep):
    from pyxel.pipelines import Processor

    spec = p["spec"]
    target = float(p.get("target", 0.0))
    variables = [(v["key"], v.get("lo", 0), v.get("hi", 1000), v.get("n")) for v in p.get("variables") or []]
    inputs = [(q["key"], list(q["values"])) for q in p.get("input_arguments") or []]
    nproc = len(inputs[0][1]) if inputs else 1
    det, pipe, readout = build(spec)
    proc = Processor(det, pipe)
    keep.append(proc)
    rows, cols = det.geometry.row, det.geometry.col
    try:
        mf = _make_fitting(proc, variables, readout, rows, cols, target, input_arguments=inputs or None,
                           pipeline_seed=p.get("pipeline_seed"))
    except Exception as ex:  # noqa: BLE001
        return {"init_raised": _exc(ex), "init_msg": str(ex)[:300], "evals": []}
    seed = p.get("pipeline_seed")
    keep.append(mf)
    templates = list(mf.param_processor_list)
    b_caller = snapshot(proc)
    b_templ = _snap_many(**{"t%d" % i: t for i, t in enumerate(templates)})
    out = {"before_caller": snap_list(b_caller), "before_template": snap_list(b_templ), "evals": [],
           "template_is_caller": any(t is proc for t in templates), "processors": len(templates)}
    for nvec, vec in enumerate(p.get("vectors") or []):
        rec = {"vec": list(vec), "obs": None, "raised": None, "std": None, "std_raised": None}
        prev_disabled = logging.root.manager.disable
        arg = np.array(vec, dtype=float)
        if seed is not None:
            np.random.seed(1000 + 7 * nvec)               # the global generator's state differs from call to call
        try:
            logging.disable(logging.CRITICAL)      # fitness() logs the traceback with logging.exception
            f = mf.fitness(arg)[0]
            rec["obs"] = int(round(float(f) * 1024))
            if abs(rec["obs"] / 1024 - float(f)) > 1e-9:
                rec["inexact"] = True
        except Exception as ex:  # noqa: BLE001
            rec["raised"] = _exc(ex)
        finally:
            logging.disable(prev_disabled)
        rec["vector_changed"] = [float(x) for x in arg] != [float(x) for x in vec]
        a_caller = snapshot(proc)
        a_templ = _snap_many(**{"t%d" % i: t for i, t in enumerate(mf.param_processor_list)})
        rec["caller_changed"] = snap_diff(b_caller, a_caller)[:10]
        rec["template_changed"] = snap_diff(b_templ, a_templ)[:10]
        if rec["vector_changed"]:
            rec["caller_changed"] = (rec["caller_changed"] + ["<decision vector>"])[:10]
        rec["after_caller"] = snap_list(a_caller) + ([1] if rec["vector_changed"] else [])
        rec["after_template"] = snap_list(a_templ)
        # the candidate's parameter values: scalars and slices of the decision vector
        params = {}
        a = 0
        for (k, _, _, n) in variables:
            if n:
                params[k] = [float(x) for x in vec[a:a + n]]
                a += n
            else:
                params[k] = float(vec[a])
                a += 1
        total = 0.0
        for i in range(nproc):
            pi = dict(params)
            for k, vals in inputs:
                pi[k] = vals[i]
            _, _, raised, vals_i = _standalone(spec, pi, seed=seed, ambient=None if seed is None else 77 + i)
            if raised is not None:
                rec["std_raised"] = raised
                break
            try:
                sim = np.array(vals_i, dtype=float).reshape((-1, rows, cols))
                tgt = np.full((rows, cols), target, dtype=float)
                total += float(np.nansum(np.abs(tgt - sim)))
            except Exception as ex:  # noqa: BLE001
                rec["std_raised"] = _exc(ex)
                break
        if rec["std_raised"] is None:
            rec["std"] = int(round(total * 1024))
        out["evals"].append(rec)
    return out


# ----------------------------------------------------------------------------------------------
# kind "calibration": a REAL calibration (pygmo archipelago, several islands evaluating candidates concurrently)
# ----------------------------------------------------------------------------------------------
TOL = 1e-9


def _close(a, b) -> bool:
    return abs(a - b) <= TOL * max(1.0, abs(a), abs(b))


def _canon_pair(obs, std):
    """Two lists of floats -> two lists of ints that are equal iff the floats agree within TOL (the candidates are
    arbitrary binary64 values chosen by pygmo: no exact rational form; tolerance on this oracle only)."""
    si = [int(round(v * 1024)) for v in std]
    if len(obs) == len(std) and all(_close(a, b) for a, b in zip(obs, std)):
        return list(si), si
    oi = [int(round(v * 1024)) for v in obs]
    if oi == si:
        oi = oi + [1]
    return oi, si


def do_calibration(p, keep):
    import pyxel
    from pyxel.calibration import Algorithm, Calibration
    from pyxel.calibration.fitting_datatree import ModelFittingDataTree
    from pyxel.observation import ParameterValues
    from pyxel.pipelines import FitnessFunction

    spec = p["spec"]
    target = float(p.get("target", 0.0))
    variables = [(v["key"], float(v["lo"]), float(v["hi"])) for v in p["variables"]]
    inputs = [(q["key"], list(q["values"])) for q in p.get("input_arguments") or []]
    nproc = len(inputs[0][1]) if inputs else 1
    det, pipe, readout = build(spec)
    keep.append((det, pipe, readout))
    rows, cols = det.geometry.row, det.geometry.col
    nt = len(readout.times)
    names = []
    for i in range(nproc):
        name = str(Path("ctarget%d.npy" % i).resolve())
        np.save(name, np.full((nt, rows, cols), target, dtype=float))
        names.append(name)
    cal = Calibration(
        target_data_path=names,
        fitness_function=FitnessFunction(func="pyxel.calibration.fitness.sum_of_abs_residuals"),
        algorithm=Algorithm(type="sade", generations=int(p.get("generations", 1)),
                            population_size=int(p.get("pop", 7))),
        parameters=[ParameterValues(key=k, values="_", boundaries=(lo, hi)) for k, lo, hi in variables],
        result_input_arguments=([ParameterValues(key=k, values=list(v)) for k, v in inputs] or None),
        readout=readout, result_type="pixel", result_fit_range=(0, rows, 0, cols), target_fit_range=(0, rows, 0, cols),
        pygmo_seed=int(p.get("pygmo_seed", 1)), num_islands=int(p.get("islands", 2)),
        num_evolutions=int(p.get("evolutions", 1)), num_best_decisions=int(p.get("num_best", 0)),
        topology="ring" if int(p.get("islands", 2)) > 1 else "unconnected",
        **({} if p.get("pipeline_seed") is None else {"pipeline_seed": int(p["pipeline_seed"])}))
    seed = p.get("pipeline_seed")
    log, lock = [], threading.Lock()
    orig_fit = ModelFittingDataTree.fitness

    problems = []

    def wrapped(self, decision_vector_1d):
        x0 = [float(v) for v in np.array(decision_vector_1d, dtype=float)]
        f = orig_fit(self, decision_vector_1d)
        with lock:
            log.append((x0, float(f[0]), threading.current_thread().name))
            if not any(q is self for q in problems):
                problems.append(self)
        return f

    before = _snap_many(detector=det, pipeline=pipe, readout=readout)
    out = {"before": snap_list(before), "raised": None, "evals": [], "champions": []}
    ModelFittingDataTree.fitness = wrapped
    prev_disabled = logging.root.manager.disable
    dt = None
    try:
        logging.disable(logging.CRITICAL)
        import dask

        with dask.config.set(scheduler=p.get("scheduler") or "threads"):
            dt = pyxel.run_mode(mode=cal, detector=det, pipeline=pipe, with_inherited_coords=True)
        champ = np.asarray(dt["/champion/parameters"].isel(evolution=-1).values, dtype=float)   # island, param
    except Exception as ex:  # noqa: BLE001
        out["raised"] = _exc(ex)
        out["raised_msg"] = str(ex)[:300]
    finally:
        ModelFittingDataTree.fitness = orig_fit
        logging.disable(prev_disabled)
    after = _snap_many(detector=det, pipeline=pipe, readout=readout)
    out["after"] = snap_list(after)
    out["changed"] = snap_diff(before, after)[:10]
    out["n_evals"] = len(log)
    out["threads"] = len({t for _, _, t in log})

    def standalone_fitness(x):
        params = {k: float(v) for (k, _, _), v in zip(variables, x)}
        total = 0.0
        sims = []
        for i in range(nproc):
            pi = dict(params)
            for k, vals in inputs:
                pi[k] = vals[i]
            _, _, raised, vals_i = _standalone(spec, pi, seed=seed, ambient=None if seed is None else 91 + i)
            if raised is not None:
                return None, None, raised
            a = np.array(vals_i, dtype=float).reshape((-1, rows, cols))
            sims.append(a)
            total += float(np.nansum(np.abs(np.full((rows, cols), target) - a)))
        return total, sims, None

    # every candidate evaluated by the islands is judged against an independently built exposure (a sample of them when
    # there are many: first, last and evenly spaced ones)
    limit = int(p.get("max_judged", 24))
    idx = list(range(len(log)))
    if len(idx) > limit:
        step = len(idx) / float(limit)
        idx = sorted({int(i * step) for i in range(limit)} | {0, len(log) - 1})
    for i in idx:
        x, f, _ = log[i]
        total, _, raised = standalone_fitness(x)
        if raised is not None:
            out["evals"].append({"x": x, "obs": [int(round(f * 1024))], "std": None, "std_raised": raised})
            continue
        oi, si = _canon_pair([f], [total])
        out["evals"].append({"x": x, "obs": oi, "std": si, "f": f, "f_std": total})
    if dt is not None and out["raised"] is None and problems:
        for isl in range(champ.shape[0]):
            x = [float(v) for v in champ[isl]]
            _, sims, raised = standalone_fitness(x)
            if raised is not None:
                out["champions"].append({"x": x, "obs": [0], "std": None, "std_raised": raised})
                continue
            # the champion's frames as the calibration's own post-processing computes them (_apply_parameters on each
            # template processor; the /simulated nodes of the returned tree cannot be computed: finding C11-resim)
            mf = problems[0]
            obs = []
            for tmpl in mf.param_processor_list:
                tree = mf._apply_parameters(processor=tmpl, parameter=np.array(x, dtype=float))
                obs += _flatten_core(_pixel_da(tree))
            std = [float(v) for a in sims for v in a.reshape(-1)]
            oi, si = _canon_pair(obs, std)
            out["champions"].append({"x": x, "obs": oi, "std": si})
    return out


# ----------------------------------------------------------------------------------------------
def handle(p):
    import warnings

    import dask

    import verif_probes

    warnings.simplefilter("ignore")
    verif_probes.reset()
    dask.config.set(scheduler="synchronous")
    keep = []          # every visited object stays alive until the end so that ids are unique
    kind = p.get("kind")
    try:
        if kind == "graph":
            return do_graph(p, keep)
        if kind == "sitefail":
            return do_sitefail(p, keep)
        if kind == "observe":
            return do_observe(p, keep)
        if kind == "fitness":
            return do_fitness(p, keep)
        if kind == "calibration":
            return do_calibration(p, keep)
        return {"error": "unknown kind %r" % (kind,)}
    except Exception as ex:  # noqa: BLE001
        import traceback

        return {"driver_error": _exc(ex), "msg": str(ex)[:300], "tb": traceback.format_exc()[-1500:]}
    finally:
        keep.clear()
