"""Implementation side of C04: one payload = one session (a list of items run one after the other in
this process).  Before and after every item the process-wide generator's state is hashed; probes inside
pipelines record it too (verif_probes.rng_probe).  States, drawn values and results are renumbered by
first occurrence over the whole session, so only equality patterns leave the driver."""
from __future__ import annotations

import hashlib
import os

import numpy as np

GROUP_ORDER = ["photon_collection", "charge_generation", "charge_collection", "charge_measurement"]

# short name -> (group, func, arguments without seed)
MODELS = {
    "shot_noise": ("photon_collection", "pyxel.models.photon_collection.shot_noise", dict(type="poisson")),
    "shot_noise_normal": ("photon_collection", "pyxel.models.photon_collection.shot_noise", dict(type="normal")),
    "simple_conversion": ("charge_generation", "pyxel.models.charge_generation.simple_conversion",
                          dict(quantum_efficiency=0.5, binomial_sampling=True)),
    "simple_dark_current": ("charge_generation", "pyxel.models.charge_generation.simple_dark_current",
                            dict(dark_rate=20.0)),
    "dark_current": ("charge_generation", "pyxel.models.charge_generation.dark_current",
                     dict(figure_of_merit=1.0e6, spatial_noise_factor=0.4, temporal_noise=True)),
    "fixed_pattern_noise": ("charge_collection", "pyxel.models.charge_collection.fixed_pattern_noise",
                            dict(fixed_pattern_noise_factor=0.02)),
    "output_node_noise": ("charge_measurement", "pyxel.models.charge_measurement.output_node_noise",
                          dict(std_deviation=0.001)),
    "ktc_noise": ("charge_measurement", "pyxel.models.charge_measurement.ktc_noise", dict(node_capacitance=30.0e-15)),
    "output_node_noise_cmos": ("charge_measurement", "pyxel.models.charge_measurement.output_node_noise_cmos",
                               dict(readout_noise=5.0, readout_noise_std=1.0)),
    "emccd": ("charge_transfer", "pyxel.models.charge_transfer.multiplication_register",
              dict(total_gain=100, gain_elements=10)),
}


def state_hash() -> str:
    import verif_probes as vp
    return vp.rng_state_hash()   # the same function the probes inside pipelines use


def _fp_tree(dt) -> str:
    h = hashlib.sha1()
    for node in sorted(dt.subtree, key=lambda n: n.path):
        ds = node.to_dataset(inherit=False)
        for k in sorted(ds.data_vars):
            v = ds[k]
            if getattr(v, "chunks", None) is not None and v.chunks:
                continue
            if v.dtype.kind not in "fiub":
                continue
            h.update(node.path.encode() + str(k).encode() + str(v.dtype).encode() + str(v.shape).encode())
            h.update(np.ascontiguousarray(v.values).tobytes())
    return h.hexdigest()[:16]


def _pipeline_spec(entries, kind="ccd"):
    """entries: list of dicts in execution order (the harness generates them in group order)."""
    spec = {}
    first_ph = [dict(func="verif_probes.write", name="illum", arguments=dict(bucket="photon", value=200.0, tag=0))]
    spec["photon_collection"] = list(first_ph)
    for i, e in enumerate(entries):
        if e["k"] == "probe":
            g = e["group"]
            m = dict(func="verif_probes.rng_probe", name=f"probe{i}", arguments=dict(draw=e.get("draw", 0), tag=e.get("tag", i)))
        elif e["k"] == "fail":
            g = e["group"]
            m = dict(func="verif_probes.fail", name=f"fail{i}", arguments=dict(cls="ValueError", msg="boom", at_step=e.get("at_step")))
        elif e["k"] == "collect":
            g = "charge_collection"
            m = dict(func="pyxel.models.charge_collection.simple_collection", name="simple_collection")
        elif e["k"] == "measure":
            g = "charge_measurement"
            m = dict(func="pyxel.models.charge_measurement.simple_measurement", name="simple_measurement")
        else:
            g, func, args = MODELS[e["model"]]
            args = dict(args)
            if "seed" in e and e["model"] != "emccd":
                args["seed"] = e["seed"]
            m = dict(func=func, name=e.get("name", e["model"] + str(i)), arguments=args)
        spec.setdefault(g, []).append(m)
    return spec


def _detector(kind="ccd"):
    from harness import pyx
    det = pyx.make_detector(kind, rows=3, cols=3)
    det.environment.temperature = 300.0   # warm enough for the dark-current models to actually draw noise
    return det


def _run_item(it, cfg_tag):
    """-> (result fingerprint or None, raised class or None)"""
    import dask
    import pyxel
    from harness import pyx

    op = it["op"]
    if op == "exposure":
        det = _detector(it.get("det", "ccd"))
        pipe = pyx.make_pipeline(_pipeline_spec(it["pipeline"]))
        ro = pyx.make_readout(times=[float(k + 1) for k in range(it.get("steps", 1))])
        dt = pyx.run_exposure(det, pipe, ro, pipeline_seed=it.get("pipeline_seed"))
        return _fp_tree(dt)
    if op == "observation":
        from pyxel.observation import Observation, ParameterValues
        det = _detector(it.get("det", "ccd"))
        pipe = pyx.make_pipeline(_pipeline_spec(it["pipeline"]))
        # sweep an argument that does not change any data: every run consumes the generator identically
        params = [ParameterValues(key="pipeline.photon_collection.illum.arguments.tag", values=[int(v) for v in it["values"]])]
        obs = Observation(parameters=params, mode="product", readout=pyx.make_readout(times=[1.0]),
                          with_dask=bool(it.get("dask")), pipeline_seed=it.get("pipeline_seed"))
        with dask.config.set(scheduler="synchronous"):
            dt = pyxel.run_mode(mode=obs, detector=det, pipeline=pipe, with_inherited_coords=True)
            if it.get("dask"):
                dt = dt.compute()
        return _fp_tree(dt)
    if op == "call":
        import importlib
        g, func, args = MODELS[it["model"]]
        det = _detector(it.get("det", "ccd"))
        det.set_readout(times=[1.0], start_time=0.0, non_destructive=False) if hasattr(det, "set_readout") else None
        det.readout_properties.time = 1.0
        det.readout_properties.time_step = 1.0
        shape = (det.geometry.row, det.geometry.col)
        base = np.arange(shape[0] * shape[1], dtype=float).reshape(shape) * 8.0 + 64.0
        det.photon.array = base.copy()
        det.charge.add_charge_array(base.copy())
        det.pixel.array = base.copy()
        det.signal.array = base.copy() * 1.0e-3
        modname, fname = func.rsplit(".", 1)
        f = getattr(importlib.import_module(modname), fname)
        kw = dict(args)
        kw["seed"] = it.get("seed")
        f(det, **kw)
        h = hashlib.sha1()
        for b in ("photon", "pixel", "signal"):
            h.update(np.ascontiguousarray(getattr(det, b).array).tobytes())
        h.update(np.ascontiguousarray(det.charge.array).tobytes())
        return h.hexdigest()[:16]
    if op == "calibration":
        from pyxel.calibration import Algorithm, Calibration
        from pyxel.observation import ParameterValues
        from pyxel.pipelines import FitnessFunction
        target = os.path.abspath("c04_target.npy")
        if not os.path.exists(target):
            np.save(target, np.full((3, 3), 40.0))
        det = _detector("ccd")
        pipe = pyx.make_pipeline(_pipeline_spec(it["pipeline"]))
        cal = Calibration(
            target_data_path=[target],
            fitness_function=FitnessFunction(func="pyxel.calibration.fitness.sum_of_abs_residuals"),
            algorithm=Algorithm(type="sade", generations=it.get("generations", 1), population_size=it.get("pop", 7)),
            parameters=[
                ParameterValues(key="pipeline.charge_generation.qe.arguments.quantum_efficiency", values="_",
                                boundaries=(0.1, 0.9)),
                ParameterValues(key="pipeline.photon_collection.illum.arguments.value", values="_",
                                boundaries=(90.0, 110.0))],
            readout=None, result_type="pixel", result_fit_range=(0, 3, 0, 3), target_fit_range=(0, 3, 0, 3),
            pygmo_seed=it.get("pygmo_seed", 5), pipeline_seed=it.get("pipeline_seed"), num_islands=1,
            num_evolutions=it.get("evolutions", 1), num_best_decisions=0)
        with dask.config.set(scheduler="synchronous"):
            dt = pyxel.run_mode(mode=cal, detector=det, pipeline=pipe, with_inherited_coords=True)
        return _fp_tree(dt)
    raise ValueError(op)


def handle(p):
    import verif_probes as vp

    raw = []
    # start from a state that is not the state right after any np.random.seed(j) of the session
    np.random.seed(987654321)
    np.random.random(7)
    for it in p["items"]:
        vp.reset()
        pre = state_hash()
        res, raised, top_draws = None, None, []
        op = it["op"]
        if op == "seed":
            np.random.seed(int(it["j"]))
        elif op == "draws":
            top_draws = [float(np.random.random()).hex() for _ in range(int(it["k"]))]
        else:
            try:
                res = _run_item(it, it.get("cfg"))
            except Exception as ex:  # noqa: BLE001
                raised = type(ex).__name__
        post = state_hash()
        inner, draws = [], []
        for e in vp.TRACE:
            if e.get("probe") == "rng":
                inner.append(e["before"])
                for v in e["draws"]:
                    draws.append(float(v).hex())
                inner.append(e["after"])
        if op in ("seed", "draws"):
            raw.append(dict(run=False, pre=pre, inner=[], post=post, draws=top_draws, res=None, raised=False, err=None))
        else:
            key = None if raised else f"{it.get('cfg')}|{res}"
            if raised:
                key = f"{it.get('cfg')}|raised"
            raw.append(dict(run=True, pre=pre, inner=inner, post=post, draws=draws, res=key,
                            raised=bool(raised), err=raised))
    # renumber by first occurrence over the whole session (same order as Model/Rng.v impl_out)
    smap, dmap, rmap = {}, {}, {}

    def num(m, k):
        if k not in m:
            m[k] = len(m)
        return m[k]

    out = []
    for r in raw:
        o = dict(run=r["run"], raised=r["raised"], err=r["err"])
        o["pre"] = num(smap, r["pre"])
        o["inner"] = [num(smap, s) for s in r["inner"]]
        o["post"] = num(smap, r["post"])
        out.append(o)
    for r, o in zip(raw, out):
        o["draws"] = [num(dmap, d) for d in r["draws"]]
    for r, o in zip(raw, out):
        o["res"] = num(rmap, r["res"]) if r["run"] else -1
    return {"items": out}
