"""Implementation side of C04: one payload = one session (a list of items run one after the other).
Before and after every item the process-wide generator's state is hashed; probes inside pipelines record
it too (verif_probes.rng_probe).  States, drawn values and results are renumbered by first occurrence
over the whole session, so only equality patterns leave the driver.

A session may name several interpreter processes (`procs`: PYTHONHASHSEED values; every item carries the
index `proc` of the one it runs in).  Each group of consecutive items with the same `proc` then runs in a
FRESH child interpreter started with that hash seed; the generator state is carried from one child to the
next (get_state -> JSON -> set_state), everything else about the process is new.  Digests are sha1 over
bytes, so they mean the same thing in every process.

How a seed reaches the run is part of the item (`via`): constructor, YAML text through pyxel.loads,
attribute setter (after the constructor was given ANOTHER seed), override key through run_mode's
override_dct.  Model `seed` arguments likewise: ModelFunction arguments, override key, or an observation
sweep over the seed itself.

Multi-island calibrations: pygmo.island is wrapped from outside so that the k-th island created sleeps a
planned time after it is built (forcing the island-creating threads to FINISH in a chosen order); the
wrapper records the order in which they really finished, and after _build the seed every island of the
archipelago actually has.  `parallel: false` is injected into ArchipelagoDataTree from outside."""
from __future__ import annotations

import hashlib
import json
import os
import subprocess
import sys
import threading
import time
from pathlib import Path

import numpy as np

GROUP_ORDER = ["photon_collection", "charge_generation", "charge_collection", "charge_measurement"]


def _data(name: str) -> str:
    import pyxel
    return str(Path(pyxel.__file__).parent / "models" / "charge_generation" / "data" / name)


NGHXRG_NOISE = [
    {"ktc_bias_noise": dict(ktc_noise=1, bias_offset=2, bias_amp=2)},
    {"white_read_noise": dict(rd_noise=1, ref_pixel_noise_ratio=2)},
    {"corr_pink_noise": dict(c_pink=1.0)},
    {"uncorr_pink_noise": dict(u_pink=1.0)},
    {"acn_noise": dict(acn=1.0)},
    {"pca_zero_noise": dict(pca0_amp=1.0)},
]

# short name -> (group, func, arguments without seed[, detector options for a direct call])
MODELS = {
    "shot_noise": ("photon_collection", "pyxel.models.photon_collection.shot_noise", dict(type="poisson")),
    "shot_noise_normal": ("photon_collection", "pyxel.models.photon_collection.shot_noise", dict(type="normal")),
    "simple_conversion": ("charge_generation", "pyxel.models.charge_generation.simple_conversion",
                          dict(quantum_efficiency=0.5, binomial_sampling=True)),
    "simple_conversion_det": ("charge_generation", "pyxel.models.charge_generation.simple_conversion",
                              dict(quantum_efficiency=0.5, binomial_sampling=False)),
    "simple_dark_current": ("charge_generation", "pyxel.models.charge_generation.simple_dark_current",
                            dict(dark_rate=20.0)),
    "dark_current": ("charge_generation", "pyxel.models.charge_generation.dark_current",
                     dict(figure_of_merit=1.0, spatial_noise_factor=0.01, temporal_noise=True), dict(rows=6)),
    "fixed_pattern_noise": ("charge_collection", "pyxel.models.charge_collection.fixed_pattern_noise",
                            dict(fixed_pattern_noise_factor=0.02)),
    "output_node_noise": ("charge_measurement", "pyxel.models.charge_measurement.output_node_noise",
                          dict(std_deviation=0.001)),
    "ktc_noise": ("charge_measurement", "pyxel.models.charge_measurement.ktc_noise", dict(node_capacitance=30.0e-15)),
    "output_node_noise_cmos": ("charge_measurement", "pyxel.models.charge_measurement.output_node_noise_cmos",
                               dict(readout_noise=5.0, readout_noise_std=1.0), dict(kind="cmos")),
    # a stochastic model WITHOUT a `seed` parameter: only the pipeline seed makes it reproducible
    "sar_adc": ("readout_electronics", "pyxel.models.readout_electronics.sar_adc_with_noise",
                dict(strengths=[0.0] * 16, noises=[3.0e-4] * 16)),
    "emccd": ("charge_transfer", "pyxel.models.charge_transfer.multiplication_register",
              dict(total_gain=100, gain_elements=10)),
    # the functions that used to be covered by the bracket table only
    "charge_deposition": ("charge_generation", "pyxel.models.charge_generation.charge_deposition",
                          dict(flux=2000.0, step_size=1.0, energy_mean=1.0, energy_spread=0.1,
                               stopping_power_curve="@protons-in-silicon_stopping-power.csv"), dict(rows=6)),
    "charge_deposition_in_mct": ("charge_generation", "pyxel.models.charge_generation.charge_deposition_in_mct",
                                 dict(flux=2000.0, step_size=1.0, energy_mean=1.0, energy_spread=0.1,
                                      stopping_power_curve="@mct-stopping-power.csv"), dict(kind="cmos", rows=6)),
    "cosmix": ("charge_generation", "pyxel.models.charge_generation.cosmix",
               dict(simulation_mode="cosmic_ray", running_mode="stepsize", particle_type="proton", initial_energy=100.0,
                    particles_per_second=20.0, spectrum_file="@proton_L2_solarMax_11mm_Shielding.txt", progressbar=False),
               dict(rows=6)),
    "radiation_induced_dark_current": ("charge_generation", "pyxel.models.charge_generation.radiation_induced_dark_current",
                                       dict(depletion_volume=64.0, annealing_time=0.1, displacement_dose=500.0,
                                            shot_noise=True), dict(rows=6)),
    "dark_current_rule07": ("charge_generation", "pyxel.models.charge_generation.dark_current_rule07",
                            dict(cutoff_wavelength=2.5, spatial_noise_factor=0.1, temporal_noise=True),
                            dict(kind="cmos", rows=6)),
    "dark_current_saphira": ("charge_generation", "pyxel.models.charge_generation.dark_current_saphira", dict(),
                             dict(kind="apd", rows=6, temp=100.0, gain=10.0)),
    "readout_noise_saphira": ("charge_measurement", "pyxel.models.charge_measurement.readout_noise_saphira",
                              dict(roic_readout_noise=0.15, controller_noise=0.1),
                              dict(kind="apd", rows=6, temp=100.0, gain=10.0)),
    "conversion_with_qe_map": ("charge_generation", "pyxel.models.charge_generation.conversion_with_qe_map",
                               dict(filename="@@qe6.npy", binomial_sampling=True), dict(rows=6)),
    "nghxrg": ("charge_measurement", "pyxel.models.charge_measurement.nghxrg",
               dict(noise=NGHXRG_NOISE, n_output=1), dict(kind="cmos", rows=16, temp=100.0)),
    "nghxrg2": ("charge_measurement", "pyxel.models.charge_measurement.nghxrg",
                dict(noise=[NGHXRG_NOISE[3], NGHXRG_NOISE[0], NGHXRG_NOISE[4]], n_output=1),
                dict(kind="cmos", rows=16, temp=100.0)),
}


def _args(args: dict) -> dict:
    out = {}
    for k, v in args.items():
        if isinstance(v, str) and v.startswith("@@"):
            path = os.path.abspath("c04_" + v[2:])
            if not os.path.exists(path):
                np.save(path, np.full((6, 6), 0.5))
            v = path
        elif isinstance(v, str) and v.startswith("@"):
            v = _data(v[1:])
        out[k] = v
    return out


def state_hash() -> str:
    import verif_probes as vp
    return vp.rng_state_hash()   # the same function the probes inside pipelines use


def _fp_tree(dt) -> str:
    h = hashlib.sha1()
    for node in sorted(dt.subtree, key=lambda n: n.path):
        ds = node.to_dataset(inherit=False)
        for k in sorted(ds.data_vars):
            v = ds[k]
            if getattr(v, "chunks", None) is not None and v.chunks:
                continue
            if v.dtype.kind not in "fiub":
                continue
            h.update(node.path.encode() + str(k).encode() + str(v.dtype).encode() + str(v.shape).encode())
            h.update(np.ascontiguousarray(v.values).tobytes())
    return h.hexdigest()[:16]


def _model_entry(e, i):
    """-> (group, ModelFunction spec dict, override dict for this entry)"""
    g, func, args = MODELS[e["model"]][:3]
    args = _args(args)
    name = e.get("name", e["model"] + str(i))
    ovr = {}
    if "seed" in e and e["model"] != "emccd":
        if e.get("seed_via") == "override":
            args["seed"] = e.get("stale_seed", 78)          # replaced through the override key before the run
            ovr[f"pipeline.{g}.{name}.arguments.seed"] = e["seed"]
        else:
            args["seed"] = e["seed"]
    return g, dict(func=func, name=name, arguments=args), ovr


def _pipeline_spec(entries):
    """entries: list of dicts in execution order (the harness generates them in group order).
    -> (spec, override dict for model arguments)"""
    spec, ovr = {}, {}
    spec["photon_collection"] = [dict(func="verif_probes.write", name="illum", arguments=dict(bucket="photon", value=200.0, tag=0))]
    for i, e in enumerate(entries):
        if e["k"] == "probe":
            g = e["group"]
            m = dict(func="verif_probes.rng_probe", name=f"probe{i}", arguments=dict(draw=e.get("draw", 0), tag=e.get("tag", i)))
        elif e["k"] == "fail":
            g = e["group"]
            m = dict(func="verif_probes.fail", name=f"fail{i}", arguments=dict(cls="ValueError", msg="boom", at_step=e.get("at_step")))
        elif e["k"] == "collect":
            g = "charge_collection"
            m = dict(func="pyxel.models.charge_collection.simple_collection", name="simple_collection")
        elif e["k"] == "measure":
            g = "charge_measurement"
            m = dict(func="pyxel.models.charge_measurement.simple_measurement", name="simple_measurement")
        else:
            g, m, o = _model_entry(e, i)
            ovr.update(o)
        spec.setdefault(g, []).append(m)
    return spec, ovr


def _detector(kind="ccd", rows=3, temp=300.0, gain=None):
    from harness import pyx
    det = pyx.make_detector(kind, rows=rows, cols=rows)
    det.environment.temperature = temp   # warm enough for the dark-current models to actually draw noise
    if gain is not None:
        det.characteristics.avalanche_gain = gain
    return det


DET_YAML = dict(
    geometry=dict(row=3, col=3, total_thickness=40.0, pixel_vert_size=10.0, pixel_horz_size=10.0),
    environment=dict(temperature=300.0),
    characteristics=dict(quantum_efficiency=1.0, charge_to_volt_conversion=1.0e-6, pre_amplification=1.0,
                         full_well_capacity=100000, adc_bit_resolution=16, adc_voltage_range=[0.0, 10.0]))

STALE = 77   # what the constructor is given when the real seed arrives later (setter / override)


def _yaml_pipeline(spec):
    doc = {}
    for g, models in spec.items():
        doc[g] = [dict(name=m["name"], func=m["func"], enabled=True, **({"arguments": m["arguments"]} if m.get("arguments") else {}))
                  for m in models]
    return doc


def _cal_target():
    target = os.path.abspath("c04_target.npy")
    if not os.path.exists(target):
        np.save(target, np.full((3, 3), 40.0))
    return target


def _mode_kwargs(it, spec):
    """Plain-data constructor arguments of the running mode (also what goes into the YAML section)."""
    op = it["op"]
    if op == "exposure":
        return dict(readout=dict(times=[float(k + 1) for k in range(it.get("steps", 1))], non_destructive=False))
    if op == "observation":
        sw = it.get("sweep_seed")
        if sw:
            e = it["pipeline"][sw["index"]]
            g = MODELS[e["model"]][0]
            name = e.get("name", e["model"] + str(sw["index"]))
            params = [dict(key=f"pipeline.{g}.{name}.arguments.seed", values=[int(v) for v in sw["values"]])]
        else:
            # sweep an argument that does not change any data: every run consumes the generator identically
            params = [dict(key="pipeline.photon_collection.illum.arguments.tag", values=[int(v) for v in it["values"]])]
        return dict(parameters=params, mode="product", readout=dict(times=[1.0], non_destructive=False),
                    with_dask=bool(it.get("dask")))
    if op == "calibration":
        return dict(
            target_data_path=[_cal_target()],
            fitness_function=dict(func="pyxel.calibration.fitness.sum_of_abs_residuals"),
            algorithm=dict(type="sade", generations=it.get("generations", 1), population_size=it.get("pop", 7)),
            parameters=[dict(key="pipeline.charge_generation.qe.arguments.quantum_efficiency", values="_",
                             boundaries=[0.1, 0.9]),
                        dict(key="pipeline.photon_collection.illum.arguments.value", values="_",
                             boundaries=[90.0, 110.0])],
            result_type="pixel", result_fit_range=[0, 3, 0, 3], target_fit_range=[0, 3, 0, 3],
            pygmo_seed=it.get("pygmo_seed", 5), num_islands=it.get("islands", 1),
            num_evolutions=it.get("evolutions", 1), num_best_decisions=0, topology=it.get("topology", "unconnected"))
    raise ValueError(op)


def _build_mode(it):
    """-> (mode, detector, pipeline, override_dct) with the pipeline seed arriving through it['via']."""
    import pyxel
    from harness import pyx
    op = it["op"]
    via = it.get("via", "ctor")
    seed = it.get("pipeline_seed")
    spec, ovr = _pipeline_spec(it["pipeline"])
    kw = _mode_kwargs(it, spec)
    section = {"exposure": "exposure", "observation": "observation", "calibration": "calibration"}[op]
    if via == "yaml":
        import yaml
        sec = dict(kw)
        if seed is not None or it.get("yaml_null"):
            sec["pipeline_seed"] = seed
        doc = {section: sec, "ccd_detector": DET_YAML, "pipeline": _yaml_pipeline(spec)}
        cfg = pyxel.loads(yaml.safe_dump(doc, sort_keys=False))
        return cfg.running_mode, cfg.detector, cfg.pipeline, (ovr or None)
    ctor_seed = seed if via == "ctor" else it.get("stale_seed", STALE)
    readout = pyx.make_readout(**{k: v for k, v in kw.pop("readout").items()}) if "readout" in kw else None
    if op == "exposure":
        from pyxel.exposure import Exposure
        mode = Exposure(readout=readout, pipeline_seed=ctor_seed)
    elif op == "observation":
        from pyxel.observation import Observation, ParameterValues
        kw["parameters"] = [ParameterValues(**p) for p in kw["parameters"]]
        mode = Observation(readout=readout, pipeline_seed=ctor_seed, **kw)
    else:
        from pyxel.calibration import Algorithm, Calibration
        from pyxel.observation import ParameterValues
        from pyxel.pipelines import FitnessFunction
        kw["parameters"] = [ParameterValues(**dict(p, boundaries=tuple(p["boundaries"]))) for p in kw["parameters"]]
        kw["fitness_function"] = FitnessFunction(**kw["fitness_function"])
        kw["algorithm"] = Algorithm(**kw["algorithm"])
        kw["result_fit_range"] = tuple(kw["result_fit_range"])
        kw["target_fit_range"] = tuple(kw["target_fit_range"])
        mode = Calibration(readout=None, pipeline_seed=ctor_seed, **kw)
    override = dict(ovr)
    if via == "setter":
        mode.pipeline_seed = seed
    elif via == "override":
        override[f"{section}.pipeline_seed"] = seed
    elif via != "ctor":
        raise ValueError(via)
    det = _shared_detector(it)
    pipe = pyx.make_pipeline(spec)
    return mode, det, pipe, (override or None)


SHARED_DETECTORS = {}      # key given by the item (`share_det`) -> the ONE Detector object reused by later items


def _shared_detector(it):
    """A fresh detector for every item - unless the item names a shared one (`share_det`): then the same Detector
    OBJECT is handed to every such run of this interpreter process, as in a notebook that calls run_mode twice."""
    def fresh():
        return _detector(it.get("det", "ccd"), rows=int(it.get("rows", 3)), temp=float(it.get("temp", 300.0)))
    key = it.get("share_det")
    if key is None:
        return fresh()
    if key not in SHARED_DETECTORS:
        SHARED_DETECTORS[key] = fresh()
    return SHARED_DETECTORS[key]


# ------------------------------------------------------------------ calibration: islands observed from outside

ISLAND_LOG = dict(active=False, plan=[], calls=[], finished=[], archi=[], lock=threading.Lock())


def _install_island_wrappers(parallel):
    """Wrap pygmo.island.__init__ (sleep after construction as planned, log the finishing order) and
    ArchipelagoDataTree.__init__/_build (inject `parallel`, read the seed of every island)."""
    import pygmo as pg
    from pyxel.calibration import archipelago_datatree as ad

    if not getattr(pg.island, "_c04_wrapped", False):
        # pygmo itself installs island.__init__ with setattr on the class; archipelago.push_back insists on
        # type(x) == pygmo.island, so the class stays and only its __init__ is wrapped
        orig_init_island = pg.island.__init__

        def island_init(self, *a, **kw):
            L = ISLAND_LOG
            if not L["active"]:
                return orig_init_island(self, *a, **kw)
            with L["lock"]:
                k = len(L["calls"])
                L["calls"].append(kw.get("seed"))
            pre = L["preplan"][k] if k < len(L.get("preplan", [])) else 0.0
            if pre:
                time.sleep(pre)       # changes the order in which the island constructors START their work
            orig_init_island(self, *a, **kw)
            d = L["plan"][k] if k < len(L["plan"]) else 0.0
            if d:
                time.sleep(d)
            with L["lock"]:
                L["finished"].append(k)

        pg.island.__init__ = island_init
        pg.island._c04_wrapped = True
    cls = ad.ArchipelagoDataTree
    if not getattr(cls, "_c04_wrapped", False):
        orig_init, orig_build = cls.__init__, cls._build

        def __init__(self, *a, **kw):
            if ISLAND_LOG.get("parallel") is not None:
                kw["parallel"] = ISLAND_LOG["parallel"]
            return orig_init(self, *a, **kw)

        def _build(self):
            ISLAND_LOG["active"] = True
            try:
                return orig_build(self)
            finally:
                ISLAND_LOG["active"] = False
                try:
                    ISLAND_LOG["archi"] = [int(isl.get_population().get_seed()) for isl in self._pygmo_archi]
                except Exception as ex:  # noqa: BLE001
                    ISLAND_LOG["archi"] = ["err:" + type(ex).__name__]

        cls.__init__, cls._build, cls._c04_wrapped = __init__, _build, True
    ISLAND_LOG["parallel"] = parallel


def _run_item(it):
    """-> (result fingerprint, aux) ; aux = for calibrations (completion order, task index at every island position)"""
    import dask
    import pyxel

    op = it["op"]
    if op == "call":
        import importlib
        spec = MODELS[it["model"]]
        g, func, args = spec[:3]
        opt = spec[3] if len(spec) > 3 else {}
        det = _detector(it.get("det") or opt.get("kind", "ccd"), rows=opt.get("rows", 3), temp=opt.get("temp", 300.0),
                        gain=opt.get("gain"))
        det.set_readout(times=[1.0], start_time=0.0, non_destructive=False) if hasattr(det, "set_readout") else None
        det.readout_properties.time = 1.0
        det.readout_properties.time_step = 1.0
        shape = (det.geometry.row, det.geometry.col)
        base = np.arange(shape[0] * shape[1], dtype=float).reshape(shape) * 8.0 + 64.0
        det.photon.array = base.copy()
        det.charge.add_charge_array(base.copy())
        det.pixel.array = base.copy()
        det.signal.array = base.copy() * 1.0e-3
        modname, fname = func.rsplit(".", 1)
        f = getattr(importlib.import_module(modname), fname)
        kw = _args(args)
        kw["seed"] = it.get("seed")
        f(det, **kw)
        h = hashlib.sha1()
        for b in ("photon", "pixel", "signal"):
            h.update(np.ascontiguousarray(getattr(det, b).array).tobytes())
        h.update(np.ascontiguousarray(det.charge.array).tobytes())
        return h.hexdigest()[:16], None
    mode, det, pipe, override = _build_mode(it)
    if op == "exposure":
        dt = pyxel.run_mode(mode=mode, detector=det, pipeline=pipe, override_dct=override, with_inherited_coords=True)
        return _fp_tree(dt), None
    if op == "observation":
        with dask.config.set(scheduler="synchronous"):
            dt = pyxel.run_mode(mode=mode, detector=det, pipeline=pipe, override_dct=override, with_inherited_coords=True)
            if it.get("dask"):
                dt = dt.compute()
        return _fp_tree(dt), None
    if op == "calibration":
        n = int(it.get("islands", 1))
        aux = None
        if n > 1 or it.get("parallel") is not None:
            _install_island_wrappers(it.get("parallel"))
            L = ISLAND_LOG
            L.update(plan=[float(x) for x in it.get("delay", [])], preplan=[float(x) for x in it.get("predelay", [])],
                     calls=[], finished=[], archi=[])
        with dask.config.set(scheduler="synchronous"):
            dt = pyxel.run_mode(mode=mode, detector=det, pipeline=pipe, override_dct=override, with_inherited_coords=True)
        fp = _fp_tree(dt)
        if n > 1 or it.get("parallel") is not None:
            L = ISLAND_LOG
            calls = list(L["calls"])            # seed handed to the k-th created island = submission order
            pos = [calls.index(s) if s in calls else -1 for s in L["archi"]]
            aux = dict(order=list(L["finished"]), assignment=pos, n=len(calls))
            fp = hashlib.sha1((fp + json.dumps(L["archi"])).encode()).hexdigest()[:16]
            L["parallel"] = None
        return fp, aux
    raise ValueError(op)


# ------------------------------------------------------------------ np.random.seed / set_state seen from outside

BRACKET_LOG = dict(active=False, events=[], lock=threading.Lock(), installed=False)


def _install_bracket_log():
    """Wrap the module attributes np.random.seed / np.random.set_state (what set_random_seed calls) so that,
    while an item runs, every call is recorded with the calling thread and the seed."""
    if BRACKET_LOG["installed"]:
        return
    orig_seed, orig_set = np.random.seed, np.random.set_state

    def seed(*a, **kw):
        if BRACKET_LOG["active"]:
            s = a[0] if a else kw.get("seed")
            with BRACKET_LOG["lock"]:
                BRACKET_LOG["events"].append((threading.get_ident(), "enter", None if s is None else int(s)))
        return orig_seed(*a, **kw)

    def set_state(*a, **kw):
        if BRACKET_LOG["active"]:
            with BRACKET_LOG["lock"]:
                BRACKET_LOG["events"].append((threading.get_ident(), "exit", None))
        return orig_set(*a, **kw)

    np.random.seed, np.random.set_state = seed, set_state
    BRACKET_LOG.update(installed=True, orig_seed=orig_seed, orig_set=orig_set)


def _bracket_trace():
    tmap, out = {}, []
    for tid, kind, s in BRACKET_LOG["events"]:
        t = tmap.setdefault(tid, len(tmap))
        out.append([t, kind, s])
    return out


# ------------------------------------------------------------------ running a list of items in THIS process


def _state_to_json(st):
    return [st[0], [int(x) for x in st[1]], int(st[2]), int(st[3]), float(st[4]).hex()]


def _state_from_json(j):
    return (j[0], np.array(j[1], dtype=np.uint32), int(j[2]), int(j[3]), float.fromhex(j[4]))


def run_segment(items, state=None):
    """Run items one after the other here; -> (raw observations with hashes, final generator state)."""
    import verif_probes as vp

    raw = []
    _install_bracket_log()
    if state is None:
        # start from a state that is not the state right after any np.random.seed(j) of the session
        np.random.seed(987654321)
        np.random.random(7)
    else:
        np.random.set_state(_state_from_json(state))
    SHARED_DETECTORS.clear()
    for it in items:
        vp.reset()
        pre = state_hash()
        res, raised, top_draws, aux, post_held = None, None, [], None, None
        op = it["op"]
        if op == "seed":
            np.random.seed(int(it["j"]))
        elif op == "draws":
            top_draws = [float(np.random.random()).hex() for _ in range(int(it["k"]))]
        else:
            BRACKET_LOG["events"] = []
            BRACKET_LOG["active"] = True
            try:
                res, aux = _run_item(it)
            except Exception as ex:  # noqa: BLE001
                raised = type(ex).__name__
                # the state a caller sees in its `except` block, i.e. while the exception (and through its traceback
                # every frame of the failed run) is still referenced
                post_held = state_hash()
            finally:
                BRACKET_LOG["active"] = False
        post = state_hash()
        if post_held is not None and post_held != pre:
            post = post_held
        inner, draws = [], []
        for e in vp.TRACE:
            if e.get("probe") == "rng":
                inner.append(e["before"])
                for v in e["draws"]:
                    draws.append(float(v).hex())
                inner.append(e["after"])
        if op in ("seed", "draws"):
            raw.append(dict(run=False, pre=pre, inner=[], post=post, draws=top_draws, res=None, raised=False, err=None,
                            aux=None, trace=[]))
        else:
            key = f"{it.get('cfg')}|raised" if raised else f"{it.get('cfg')}|{res}"
            raw.append(dict(run=True, pre=pre, inner=inner, post=post, draws=draws, res=key,
                            raised=bool(raised), err=raised, aux=aux, trace=_bracket_trace()))
    return raw, _state_to_json(np.random.get_state())


def _child(items, state, hashseed):
    """Run a segment in a fresh interpreter with its own PYTHONHASHSEED."""
    tag = hashlib.sha1(json.dumps([items, hashseed], sort_keys=True).encode()).hexdigest()[:10]
    fin, fout = os.path.abspath(f"c04_child_{tag}.in.json"), os.path.abspath(f"c04_child_{tag}.out.json")
    with open(fin, "w") as fh:
        json.dump([dict(segment=items, state=state)], fh)
    if os.path.exists(fout):
        os.unlink(fout)
    env = dict(os.environ, PYTHONHASHSEED=str(int(hashseed)))
    r = subprocess.run([sys.executable, "-B", "-m", "harness.drivers._main", "c04", fin, fout],
                       env=env, capture_output=True, text=True, timeout=900)
    if not os.path.exists(fout):
        raise RuntimeError(f"child interpreter failed rc={r.returncode}: {r.stderr[-600:]}")
    out = json.load(open(fout))[0]
    if "driver_error" in out:
        raise RuntimeError("child interpreter: " + out["driver_error"] + out.get("tb", "")[-600:])
    os.unlink(fin)
    os.unlink(fout)
    return out["raw"], out["state"], out["hashseed"]


def handle(p):
    if "segment" in p:      # we ARE the child interpreter
        raw, st = run_segment(p["segment"], p.get("state"))
        return dict(raw=raw, state=st, hashseed=os.environ.get("PYTHONHASHSEED"))

    items = p["items"]
    procs = p.get("procs")
    seen_hashseeds = []
    if not procs:
        raw, _ = run_segment(items)
    else:
        raw, state, k = [], None, 0
        # the very first state is produced by the first child the same way run_segment does without a state
        while k < len(items):
            pr = int(items[k].get("proc", 0))
            seg = []
            while k < len(items) and int(items[k].get("proc", 0)) == pr:
                seg.append(items[k])
                k += 1
            r, state, hs = _child(seg, state, procs[pr])
            seen_hashseeds.append(hs)
            raw += r
    # renumber by first occurrence over the whole session (same order as Model/Rng.v impl_out)
    smap, dmap, rmap = {}, {}, {}

    def num(m, k):
        if k not in m:
            m[k] = len(m)
        return m[k]

    out = []
    for r in raw:
        o = dict(run=r["run"], raised=r["raised"], err=r["err"], aux=r.get("aux"), trace=r.get("trace", []))
        o["pre"] = num(smap, r["pre"])
        o["inner"] = [num(smap, s) for s in r["inner"]]
        o["post"] = num(smap, r["post"])
        out.append(o)
    for r, o in zip(raw, out):
        o["draws"] = [num(dmap, d) for d in r["draws"]]
    for r, o in zip(raw, out):
        o["res"] = num(rmap, r["res"]) if r["run"] else -1
    return {"items": out, "hashseeds": seen_hashseeds}
