"""Implementation side of C18: build a detector from a plain spec, send it through the codec under test
(dict / .asdf file / load_detector in a pipeline) and return the STRUCTURAL canonical form (see
probes/verif_probes_c18.py) of the original and of what came back.  The library's `==` is never used."""
from __future__ import annotations

import os

import numpy as np

KINDS = {"ccd": "CCD", "cmos": "CMOS", "mkid": "MKID", "apd": "APD"}


def _f(vals, shape, dtype="float64"):
    return np.asarray(vals, dtype=dtype).reshape(shape)


def build(spec):
    from pyxel import detectors as d

    kind, rows, cols = spec["kind"], spec["rows"], spec["cols"]
    pr = spec.get("props", {})
    geo_kw = dict(row=rows, col=cols, total_thickness=pr.get("total_thickness", 40.0),
                  pixel_vert_size=pr.get("pixel_vert_size", 10.0), pixel_horz_size=pr.get("pixel_horz_size", 10.0))
    if pr.get("pixel_scale") is not None:
        geo_kw["pixel_scale"] = pr["pixel_scale"]
    env_kw = dict(temperature=pr.get("temperature", 200.0))
    if pr.get("wavelength") is not None:
        w = pr["wavelength"]
        env_kw["wavelength"] = (d.WavelengthHandling(cut_on=w[0], cut_off=w[1], resolution=w[2])
                                if isinstance(w, list) else float(w))
    env = d.Environment(**env_kw)
    ch_kw = dict(quantum_efficiency=pr.get("quantum_efficiency", 1.0),
                 full_well_capacity=pr.get("full_well_capacity", 100000),
                 adc_bit_resolution=pr.get("adc_bit_resolution", 16),
                 adc_voltage_range=tuple(pr.get("adc_voltage_range", (0.0, 10.0))))
    if kind == "apd":
        ch = d.APDCharacteristics(roic_gain=pr.get("roic_gain", 0.5), avalanche_gain=pr.get("avalanche_gain", 2.0),
                                  pixel_reset_voltage=pr.get("pixel_reset_voltage", 5.0), **ch_kw)
        det = d.APD(geometry=d.APDGeometry(**geo_kw), environment=env, characteristics=ch)
    else:
        ch = d.Characteristics(charge_to_volt_conversion=pr.get("charge_to_volt_conversion", 2.0 ** -20),
                               pre_amplification=pr.get("pre_amplification", 1.0), **ch_kw)
        G = {"ccd": (d.CCD, d.CCDGeometry), "cmos": (d.CMOS, d.CMOSGeometry), "mkid": (d.MKID, d.MKIDGeometry)}[kind]
        det = G[0](geometry=G[1](**geo_kw), environment=env, characteristics=ch)
    fill(det, spec.get("init", {}), rows, cols)
    return det


_SPECIAL = {"nan": float("nan"), "inf": float("inf"), "-inf": float("-inf"), "-0.0": -0.0}


def _values(v):
    """numpy array of one variable of a tree spec: {"dtype", "shape", "vals"} (vals are exact: small integers, dyadic
    floats, the strings nan/inf/-inf/-0.0, [re, im] pairs, strings, ns since the epoch)."""
    dt, vals = v.get("dtype", "float64"), v["vals"]
    if dt.startswith("complex"):
        arr = np.array([complex(_SPECIAL.get(a, a), _SPECIAL.get(b, b)) for a, b in vals], dtype=dt)
    elif dt.startswith("datetime64") or dt.startswith("timedelta64"):
        arr = np.array(vals, dtype="int64").astype(dt.split("[")[0] + "[ns]").astype(dt)
    elif dt.startswith("float"):
        arr = np.array([_SPECIAL.get(x, x) for x in vals], dtype=dt)
    elif dt == "bool":
        arr = np.array([bool(x) for x in vals], dtype=bool)
    else:
        arr = np.array(vals, dtype=dt)
    return arr.reshape(tuple(v["shape"]))


def _dataset(g):
    import xarray as xr

    mk = lambda v: (tuple(v["dims"]), _values(v), dict(v.get("attrs") or {}))  # noqa: E731
    return xr.Dataset({v["name"]: mk(v) for v in g.get("vars", [])},
                      coords={v["name"]: mk(v) for v in g.get("coords", [])}, attrs=dict(g.get("attrs") or {}))


class InvalidSpec(Exception):
    """the generated tree spec is not a tree xarray accepts (nothing of the codec under test was involved)."""


def fill_tree(tree, spec):
    try:
        _fill_tree(tree, spec)
    except Exception as ex:  # noqa: BLE001
        raise InvalidSpec(f"{type(ex).__name__}: {str(ex)[:200]}") from ex


def _fill_tree(tree, spec):
    """Graft the groups of a tree spec into an existing xr.DataTree through its public mapping interface (parents
    before children, so that no assignment replaces an already built sub-tree)."""
    import xarray as xr

    if spec.get("root"):
        tree.dataset = _dataset(spec["root"])
    for g in sorted(spec.get("groups", []), key=lambda g: g["path"].count("/")):
        tree[g["path"]] = xr.DataTree(_dataset(g))


def fill(det, init, rows, cols):
    import xarray as xr

    sh = (rows, cols)
    ph = init.get("photon")
    if ph is not None:
        if ph["mode"] == "2d":
            det.photon.array = _f(ph["vals"], sh, ph.get("dtype", "float64"))
        else:
            wl = [float(x) for x in ph["wl"]]
            wlc = ("wavelength", wl, dict(ph["wl_attrs"])) if ph.get("wl_attrs") else wl
            det.photon.array_3d = xr.DataArray(_f(ph["vals"], (len(wl),) + sh, ph.get("dtype", "float64")),
                                               dims=["wavelength", "y", "x"], coords={"wavelength": wlc},
                                               attrs=dict(ph.get("attrs") or {}), name=ph.get("name"))
    for b in ("pixel", "signal", "phase"):
        if init.get(b) is not None:
            v = init[b]
            getattr(det, b).array = _f(v["vals"], sh, v["dtype"]) if isinstance(v, dict) else _f(v, sh)
    if init.get("image") is not None:
        det.image.array = _f(init["image"]["vals"], sh, init["image"].get("dtype", "uint16"))
    if init.get("charge_array") is not None:
        det.charge.add_charge_array(_f(init["charge_array"], sh))
    fr = init.get("charge_frame")
    if fr is not None:
        n = len(fr["clusters"])
        col = lambda j: np.array([float(c[j]) for c in fr["clusters"]])  # noqa: E731
        z = np.zeros(n)
        det.charge.add_charge(particle_type="e", particles_per_cluster=col(0), init_energy=col(3),
                              init_ver_position=col(1), init_hor_position=col(2), init_z_position=z,
                              init_ver_velocity=z, init_hor_velocity=z, init_z_velocity=z)
        if fr.get("remove") is not None and n > 1:
            det.charge.remove_from_frame([int(det.charge.frame.index[fr["remove"] % n])])
    sc = init.get("scene")
    if sc is not None:
        for s in sc.get("sources", []):
            nref, wl = s["nref"], [float(x) for x in s["wl"]]
            ds = xr.Dataset(
                {"x": ("ref", _f(s["x"], (nref,))), "y": ("ref", _f(s["y"], (nref,))),
                 "weight": ("ref", _f(s["weight"], (nref,))),
                 "flux": (("ref", "wavelength"), _f(s["flux"], (nref, len(wl))))},
                coords={"ref": list(range(nref)), "wavelength": wl},
                attrs={"right_ascension": "56.75 deg", "declination": "24.5 deg", "fov_radius": "0.5 deg"})
            det.scene.add_source(ds)
        if sc.get("tree"):
            fill_tree(det.scene.data, sc["tree"])
    da = init.get("data")
    if da is not None:
        if da.get("tree"):
            fill_tree(det.data, da["tree"])
        for node in da.get("nodes", []):
            n = len(node["vals"])
            det.data[node["path"]] = xr.DataTree(xr.Dataset({node.get("var", "v"): ("k", _f(node["vals"], (n,)))},
                                                            coords={"k": list(range(n))}))


def _trees(P, det, back):
    """nested view of the two trees of a detector (walked through `.children`), the keys the implementation's to_dict
    wrote for them, and the nested view of what came back (None: nothing came back)."""
    out = {}
    try:
        dd = det.to_dict()["data"]
    except Exception:  # noqa: BLE001
        return out
    for name, tree, btree in (("data", det._data, getattr(back, "_data", None)),
                              ("scene", det._scene.data if det._scene is not None else None,
                               back._scene.data if back is not None and back._scene is not None else None)):
        if tree is None or dd.get(name) is None:
            continue
        out[name] = {"orig": P.c_nested(tree), "keys": [P._asc(k) for k in dd[name]],
                     "back": None if btree is None else P.c_nested(btree)}
    return out


def _exc(ex, stage=None):
    out = {"raise": type(ex).__name__, "msg": str(ex)[:200]}
    if stage:
        out["stage"] = stage
    return out


_N = [0]


def _fname(ext="asdf"):
    _N[0] += 1
    return f"det_{os.getpid()}_{_N[0]}.{ext}"


def handle(p):
    import verif_probes_c18 as P
    from pyxel.detectors import Detector

    route = p["route"]
    if route == "h5py":
        try:
            import h5py  # noqa: F401
            return {"h5py": True}
        except Exception:  # noqa: BLE001
            return {"h5py": False}
    try:
        det = build(p["spec"])
    except InvalidSpec as ex:
        return {"invalid_spec": str(ex)}
    out = {}
    if route == "dict":
        # to_dict -> [the in-memory conversion of processed-data Datasets that every backend performs before writing]
        # -> from_dict.  No file library involved: isolates pyxel's own key handling.
        stage = "save"
        try:
            dct = det.to_dict()
            out["orig"] = P.canon_detector(det)
            dd = dct["data"].get("data")
            if dd is not None:
                dct["data"]["data"] = {k: (v.to_dict() if hasattr(v, "data_vars") else v) for k, v in dd.items()}
            stage = "load"
            back = Detector.from_dict(dct)
            out["back"] = P.canon_detector(back)
            out["trees"] = _trees(P, det, back)
        except Exception as ex:  # noqa: BLE001
            out.setdefault("orig", P.canon_detector(det))
            out["back"] = _exc(ex, stage)
            if stage == "load":
                out["trees"] = _trees(P, det, None)
        return out
    if route == "asdf":
        fn = _fname()
        stage = "save"
        try:
            getattr(det, p.get("save", "save"))(fn)
            out["orig"] = P.canon_detector(det)
            loader = p.get("load", "load")
            stage = "load"
            back = getattr(Detector, loader)(fn) if loader != "class_load" else type(det).load(fn)
            out["back"] = P.canon_detector(back)
            out["trees"] = _trees(P, det, back)
        except Exception as ex:  # noqa: BLE001
            out.setdefault("orig", P.canon_detector(det))
            out["back"] = _exc(ex, stage)
            if stage == "load":
                out["trees"] = _trees(P, det, None)
        finally:
            if os.path.exists(fn):
                os.unlink(fn)
        return out
    if route == "pipeline":
        # `det` is the FILE's detector; the running detector is built from p["running"]
        from harness.pyx import make_pipeline, make_readout, run_exposure

        fn = _fname()
        try:
            group = p.get("group", "photon_collection")
            if p.get("save") == "model":
                # the file is written by the save_detector MODEL at the end of a pipeline that first fills an
                # (emptied) detector of the same kind; what was saved = what a probe just before save_detector saw
                saver = build(dict(p["spec"], init={}))
                P.reset()
                run_exposure(saver, make_pipeline({p.get("save_group", group): [
                    {"func": "verif_probes_c18.fill_from_spec", "name": "fill", "arguments": {"init": p["spec"].get("init", {})}},
                    {"func": "verif_probes_c18.record_canon", "name": "probe_s", "arguments": {"tag": "saved"}},
                    {"func": "pyxel.models.save_detector", "name": "save", "arguments": {"filename": fn}}]}),
                    make_readout(times=[1.0]))
                out["file"] = [t for t in P.TRACE if t["tag"] == "saved"][-1]["canon"]
                try:
                    out["file_back"] = P.canon_detector(Detector.load(fn))
                except Exception as ex:  # noqa: BLE001
                    out["file_back"] = _exc(ex, "load")
            else:
                det.save(fn)
                out["file"] = P.canon_detector(det)
            running = build(p["running"])
            models = [{"func": "pyxel.models.load_detector", "name": "load", "arguments": {"filename": fn}},
                      {"func": "verif_probes_c18.record_canon", "name": "probe", "arguments": {"tag": "after"}}]
            if p.get("probe_before"):
                models.insert(0, {"func": "verif_probes_c18.record_canon", "name": "probe0", "arguments": {"tag": "before"}})
            if p.get("fill_running"):
                # the running detector is emptied when the exposure starts: fill it INSIDE the pipeline, so that
                # load_detector has something to replace
                models.insert(0, {"func": "verif_probes_c18.fill_from_spec", "name": "fill_r",
                                  "arguments": {"init": p["running"].get("init", {})}})
            P.reset()
            # several readout steps: the load_detector model is executed once per step (the detector is emptied at the
            # start of each); what the probe sees after the LAST execution must still be the file's content
            res = run_exposure(running, make_pipeline({group: models}), make_readout(times=p.get("times") or [1.0]))
            seen = [t for t in P.TRACE if t["tag"] == "after"]
            before = [t for t in P.TRACE if t["tag"] == "before"]
            out["seen"] = seen[-1]["canon"] if seen else None
            out["before"] = before[-1]["canon"] if before else None
            out["final"] = P.canon_detector(running)
            bucket = {}
            for b in ("photon", "pixel", "signal", "image", "charge"):
                try:
                    v = res["/bucket"][b].values
                    bucket[b] = P.c_arr(v[0]) if v.ndim == 3 else None
                except Exception:  # noqa: BLE001
                    bucket[b] = None
            out["result_buckets"] = bucket
        except Exception as ex:  # noqa: BLE001
            out["error"] = _exc(ex)
        finally:
            if os.path.exists(fn):
                os.unlink(fn)
        return out
    raise ValueError(route)
