"""Implementation side of C09: run one generated scenario with injected faults and report what the
caller of pyxel.run_mode / of .load() sees (exception type, MRO, message, notes, chain; the probes'
call log; whether an object came back)."""
from __future__ import annotations

import logging
import os

T_KEY = "detector.environment.temperature"
Q_KEY = "detector.characteristics.quantum_efficiency"


def exc_info(ex: BaseException) -> dict:
    chain = []
    c = ex.__cause__ or ex.__context__
    while c is not None and len(chain) < 5:
        chain.append(dict(cls=type(c).__name__, msg=str(c)[:300]))
        c = c.__cause__ or c.__context__
    return dict(raised=True, cls=type(ex).__name__, mro=[k.__name__ for k in type(ex).__mro__][:8],
                msg=str(ex)[-6000:], notes=[str(n)[:1500] for n in getattr(ex, "__notes__", [])], chain=chain)


def _ident(run):
    return (run.get("t"), run.get("q"), run.get("tag"))


def build_pipeline(p):
    """Every model is verif_probes_c09.node; the faults are translated into its `faults` argument."""
    from harness import pyx

    runs = {r["id"]: r for r in p["runs"]}
    first = True
    spec = {}
    for g in p["groups"]:
        models = []
        for m in g["models"]:
            fl = []
            for f in p["faults"]:
                if f["key"] != m["key"]:
                    continue
                d = dict(step=f["step"], cls=f["cls"], msg=f["msg"])
                if p["mode"] == "calib":
                    d["n"] = f["run"]
                else:
                    r = runs[f["run"]]
                    for k in ("t", "q", "tag"):
                        if r.get(k) is not None:
                            d[k] = r[k]
                fl.append(d)
            args = dict(faults=fl)
            if p["mode"] == "calib":
                args["count_key"] = f"ev{m['key']}"
            if first and m.get("enabled", True):
                first = False
                if p["mode"] == "calib":
                    args.update(write_all=True, arg=1.0, arg2=0.5)
                elif any(pp["kind"] == "arg" for pp in p.get("params", [])):
                    args.update(set_tag=True, arg="?")
            models.append(dict(func="verif_probes_c09.node", name=m["name"], enabled=m.get("enabled", True),
                               arguments=args))
        spec[g["name"]] = models
    return pyx.make_pipeline(spec)


def first_enabled(p):
    for g in p["groups"]:
        for m in g["models"]:
            if m.get("enabled", True):
                return g["name"], m["name"]
    raise ValueError("no enabled model")


def param_key(p, kind):
    if kind == "t":
        return T_KEY
    if kind == "q":
        return Q_KEY
    g, m = first_enabled(p)
    return f"pipeline.{g}.{m}.arguments.arg"


def trace_of(p):
    import verif_probes as vp

    ids = {_ident(r): r["id"] for r in p["runs"]}
    out = []
    for e in vp.TRACE:
        if e.get("probe") != "node":
            continue
        if p["mode"] == "calib":
            rid = e["n"]
        elif p["mode"] == "exposure":
            rid = 0
        else:
            r0 = p["runs"][0]
            key = (e["t"] if r0.get("t") is not None else None,
                   e["q"] if r0.get("q") is not None else None,
                   e["tag"] if r0.get("tag") is not None else None)
            rid = ids.get(key, 9999)
        out.append([rid, e["step"], e["name"]])
    return out


def handle(p):
    import warnings

    warnings.filterwarnings("ignore")
    logging.disable(logging.CRITICAL)
    import dask
    import verif_probes as vp
    from harness import pyx

    import pyxel

    vp.reset()
    mode = p["mode"]
    det = pyx.make_detector()
    pipe = build_pipeline(p)
    nsteps = p["nsteps"]
    readout = pyx.make_readout(times=[float(i + 1) for i in range(nsteps)])
    res = dict(call=dict(notrun=True), load=dict(notrun=True))
    sched = p.get("scheduler") or "threads"

    if mode == "exposure":
        from pyxel.exposure import Exposure

        m = Exposure(readout=readout)
    elif mode in ("obs_seq", "obs_dask"):
        from pyxel.observation import Observation, ParameterValues

        params = [ParameterValues(key=param_key(p, pp["kind"]), values=list(pp["values"])) for pp in p["params"]]
        m = Observation(parameters=params, readout=readout, mode="product", with_dask=(mode == "obs_dask"))
    else:
        import numpy as np
        from pyxel.calibration import Algorithm, Calibration
        from pyxel.observation import ParameterValues
        from pyxel.pipelines.model_function import FitnessFunction

        np.save("c09_target.npy", np.full((3, 4), 2.0))
        g, mn = first_enabled(p)
        m = Calibration(
            target_data_path=["c09_target.npy"],
            fitness_function=FitnessFunction(func="pyxel.calibration.fitness.sum_of_abs_residuals"),
            algorithm=Algorithm(type="sade", generations=1, population_size=p["pop"]),
            parameters=[ParameterValues(key=f"pipeline.{g}.{mn}.arguments.arg", values="_", boundaries=(0.0, 4.0)),
                        ParameterValues(key=f"pipeline.{g}.{mn}.arguments.arg2", values="_", boundaries=(0.0, 1.0))],
            readout=None, result_type="pixel", result_fit_range=(0, 3, 0, 4), target_fit_range=(0, 3, 0, 4),
            pygmo_seed=p.get("pygmo_seed", 1), num_islands=1, num_evolutions=p["evolutions"],
            type_islands="multithreading")

    with dask.config.set(scheduler=sched):
        try:
            out = pyxel.run_mode(mode=m, detector=det, pipeline=pipe, with_inherited_coords=True)
            res["call"] = dict(returned=True, type=type(out).__name__)
        except Exception as ex:  # noqa: BLE001
            out = None
            res["call"] = exc_info(ex)
        res["n_trace_call"] = len(vp.TRACE)
        if out is not None and mode in ("obs_dask", "calib"):
            try:
                loaded = out.load()
                res["load"] = dict(returned=True, type=type(loaded).__name__)
            except Exception as ex:  # noqa: BLE001
                res["load"] = exc_info(ex)
    tr = trace_of(p)
    res["n_trace"] = len(tr)
    res["trace"] = tr if mode in ("exposure", "obs_seq") else []
    res["runs_seen"] = sorted({e[0] for e in tr})
    return res
