"""Implementation side of C09: run one generated scenario with injected faults through one of the
public entry points that start a simulation and report what the caller sees (exception type, MRO,
message, notes, chain; the probes' call log; whether an object came back).

entry      what is called
---------  ---------------------------------------------------------------------------------------
run_mode   pyxel.run_mode(mode, detector, pipeline[, debug])            (+ .load() for dask / calibration)
run_file   pyxel.run(<yaml file written from the same scenario>)
cli        pyxel.run.main(["run", <yaml file>], standalone_mode=False)   (the `pyxel run` command)
method     Exposure.run_exposure / Observation.run_pipelines / Calibration.run_calibration on a Processor
deprecated pyxel.exposure_mode / pyxel.observation_mode / pyxel.calibration_mode

each with or without an `outputs` section/object.  `cleanup_fails`: pyxel.outputs.save_log_file (the
clean-up step of pyxel.run's `finally:` block) is replaced from outside by a function that raises.
"""
from __future__ import annotations

import itertools
import logging
import os

_CASE_IDS = itertools.count(1)

T_KEY = "detector.environment.temperature"
Q_KEY = "detector.characteristics.quantum_efficiency"
FUNC = "verif_probes_c09.node"
CLEANUP_MSG = "c09-cleanup-failed"


def exc_info(ex: BaseException) -> dict:
    chain = []
    c = ex.__cause__ or ex.__context__
    while c is not None and len(chain) < 6:
        chain.append(dict(cls=type(c).__name__, msg=str(c)[:300],
                          notes=[str(n)[:300] for n in getattr(c, "__notes__", [])]))
        c = c.__cause__ or c.__context__
    return dict(raised=True, cls=type(ex).__name__, mro=[k.__name__ for k in type(ex).__mro__][:8],
                msg=str(ex)[-6000:], notes=[str(n)[:1500] for n in getattr(ex, "__notes__", [])], chain=chain)


def _ident(run):
    return (run.get("t"), run.get("q"), run.get("tag"))


def model_specs(p):
    """{group: [ {func, name, enabled, arguments} ]}: every model is verif_probes_c09.node; the faults
    are translated into its `faults` argument."""
    runs = {r["id"]: r for r in p["runs"]}
    first = True
    spec = {}
    for g in p["groups"]:
        models = []
        for m in g["models"]:
            fl = []
            for f in p["faults"]:
                if f["key"] != m["key"]:
                    continue
                d = dict(step=f["step"], cls=f["cls"], msg=f["msg"])
                if f.get("chained") or p.get("chained"):
                    d["chained"] = True
                if f.get("corrupt"):
                    d["corrupt"] = True
                if p["mode"] == "calib":
                    d["n"] = f["run"]
                else:
                    r = runs[f["run"]]
                    for k in ("t", "q", "tag"):
                        if r.get(k) is not None:
                            d[k] = r[k]
                fl.append(d)
            args = dict(faults=fl, case_id=p["_cid"])
            if p["mode"] == "calib":
                args["count_key"] = f"{p['_cid']}:ev{m['key']}"
            if first and m.get("enabled", True):
                first = False
                if p["mode"] == "calib":
                    args.update(write_all=True, arg=1.0, arg2=0.5)
                else:
                    if any(pp["kind"] == "arg" for pp in p.get("params", [])):
                        args.update(set_tag=True, arg="?")       # "?" = the value of a run that does not sweep `arg`
                    if p.get("outputs"):
                        args.update(write_all=True)     # something to save
            models.append(dict(func=FUNC, name=m["name"], enabled=m.get("enabled", True), arguments=args))
        spec[g["name"]] = models
    return spec


def first_enabled(p):
    for g in p["groups"]:
        for m in g["models"]:
            if m.get("enabled", True):
                return g["name"], m["name"]
    raise ValueError("no enabled model")


def param_key(p, kind):
    if kind == "t":
        return T_KEY
    if kind == "q":
        return Q_KEY
    g, m = first_enabled(p)
    return f"pipeline.{g}.{m}.arguments.arg"


def trace_of(p):
    import verif_probes as vp

    ids = {_ident(r): r["id"] for r in p["runs"]}
    out = []
    for e in list(vp.TRACE):
        if e.get("probe") != "node" or e.get("case") != p["_cid"]:
            continue
        if p["mode"] == "calib":
            rid = e["n"]
        elif p["mode"] == "exposure":
            rid = 0
        else:
            r0 = p["runs"][0]
            key = (e["t"] if r0.get("t") is not None else None,
                   e["q"] if r0.get("q") is not None else None,
                   e["tag"] if r0.get("tag") is not None else None)
            rid = ids.get(key, 9999)
        out.append([rid, e["step"], e["name"]])
    return out


# ------------------------------------------------------------------------------------------ building


OUT_FOLDER = "c09_out"
SAVE = [{"detector.image.array": ["npy"]}]


def outputs_dict(p):
    return dict(output_folder=os.path.abspath(OUT_FOLDER), save_data_to_file=SAVE) if p.get("outputs") else None


def calib_kwargs(p):
    g, mn = first_enabled(p)
    return dict(
        target_data_path=["c09_target.npy"],
        fitness_function=dict(func="pyxel.calibration.fitness.sum_of_abs_residuals"),
        algorithm=dict(type="sade", generations=1, population_size=p["pop"]),
        parameters=[dict(key=f"pipeline.{g}.{mn}.arguments.arg", values="_", boundaries=[0.0, 4.0]),
                    dict(key=f"pipeline.{g}.{mn}.arguments.arg2", values="_", boundaries=[0.0, 1.0])],
        result_type="pixel", result_fit_range=[0, 3, 0, 4], target_fit_range=[0, 3, 0, 4],
        pygmo_seed=p.get("pygmo_seed", 1), num_islands=p.get("islands", 1), num_evolutions=p["evolutions"],
        type_islands="multithreading")


def obs_kwargs(p):
    return dict(mode=p.get("pmode", "product"), with_dask=(p["mode"] == "obs_dask"),
                parameters=[dict(key=param_key(p, pp["kind"]), values=list(pp["values"])) for pp in p["params"]])


def build_mode(p, readout):
    """The running-mode object, built directly (entries run_mode / method / deprecated)."""
    from pyxel.observation import ParameterValues

    mode, od = p["mode"], outputs_dict(p)
    if mode == "exposure":
        from pyxel.exposure import Exposure
        from pyxel.outputs import ExposureOutputs

        return Exposure(readout=readout, outputs=ExposureOutputs(**od) if od else None, pipeline_seed=p.get("seed"))
    if mode in ("obs_seq", "obs_dask"):
        from pyxel.observation import Observation
        from pyxel.outputs import ObservationOutputs

        kw = obs_kwargs(p)
        kw["parameters"] = [ParameterValues(**d) for d in kw["parameters"]]
        return Observation(readout=readout, outputs=ObservationOutputs(**od) if od else None,
                           pipeline_seed=p.get("seed"), **kw)
    from pyxel.calibration import Algorithm, Calibration
    from pyxel.outputs import CalibrationOutputs
    from pyxel.pipelines.model_function import FitnessFunction

    kw = calib_kwargs(p)
    kw["fitness_function"] = FitnessFunction(**kw["fitness_function"])
    kw["algorithm"] = Algorithm(**kw["algorithm"])
    kw["parameters"] = [ParameterValues(key=d["key"], values=d["values"], boundaries=tuple(d["boundaries"]))
                        for d in kw["parameters"]]
    return Calibration(readout=None, outputs=CalibrationOutputs(**od) if od else None, pipeline_seed=p.get("seed"), **kw)


def yaml_text(p, times):
    """The same scenario as a YAML configuration file (entries run_file / cli)."""
    import yaml

    mode, od = p["mode"], outputs_dict(p)
    doc = {}
    if mode == "exposure":
        sec = dict(readout=dict(times=times, non_destructive=False))
        name = "exposure"
    elif mode in ("obs_seq", "obs_dask"):
        sec = dict(obs_kwargs(p), readout=dict(times=times, non_destructive=False))
        name = "observation"
    else:
        sec = calib_kwargs(p)
        name = "calibration"
    if od:
        sec["outputs"] = od
    if p.get("seed") is not None:
        sec["pipeline_seed"] = p["seed"]
    doc[name] = sec
    doc["ccd_detector"] = dict(
        geometry=dict(row=3, col=4, total_thickness=40.0, pixel_vert_size=10.0, pixel_horz_size=10.0),
        environment=dict(temperature=200.0),
        characteristics=dict(quantum_efficiency=1.0, charge_to_volt_conversion=1.0e-6, pre_amplification=1.0,
                             full_well_capacity=100000, adc_bit_resolution=16, adc_voltage_range=[0.0, 10.0]))
    doc["pipeline"] = {g: [dict(name=m["name"], func=m["func"], enabled=m["enabled"], arguments=m["arguments"])
                           for m in ms] for g, ms in model_specs(p).items()}
    return yaml.safe_dump(doc, sort_keys=False)


# ------------------------------------------------------------------------------------------ running


def _start(p, nsteps):
    """Call the entry point; returns whatever it returns."""
    import pyxel
    from harness import pyx
    from pyxel.pipelines import Processor

    entry, mode = p.get("entry", "run_mode"), p["mode"]
    times = [float(i + 1) for i in range(nsteps)]
    if entry in ("run_file", "cli"):
        fn = os.path.abspath("c09_case.yaml")
        with open(fn, "w") as fh:
            fh.write(yaml_text(p, times))
        if entry == "run_file":
            return pyxel.run(fn)
        from pyxel.run import main

        return main(args=["run", fn], standalone_mode=False)

    det = pyx.make_detector()
    pipe = pyx.make_pipeline(model_specs(p))
    m = build_mode(p, pyx.make_readout(times=times))
    debug = bool(p.get("debug"))
    if entry == "run_mode":
        return pyxel.run_mode(mode=m, detector=det, pipeline=pipe, debug=debug, with_inherited_coords=True)
    if entry == "deprecated":
        if mode == "exposure":
            return pyxel.exposure_mode(exposure=m, detector=det, pipeline=pipe)
        if mode in ("obs_seq", "obs_dask"):
            return pyxel.observation_mode(observation=m, detector=det, pipeline=pipe)
        return pyxel.calibration_mode(calibration=m, detector=det, pipeline=pipe)
    if entry == "method":
        if m.outputs:
            m.outputs.create_output_folder()
        if mode == "exposure":
            return m.run_exposure(processor=Processor(detector=det, pipeline=pipe), debug=debug,
                                  with_inherited_coords=True)
        if mode in ("obs_seq", "obs_dask"):
            return m.run_pipelines(processor=Processor(detector=det, pipeline=pipe, observation_mode=m),
                                   with_inherited_coords=True)
        # round 2c: the progress bar is an argument of the method only (every other entry point leaves it on)
        return m.run_calibration(processor=Processor(detector=det, pipeline=pipe),
                                 output_dir=m.outputs.current_output_folder if m.outputs else None,
                                 with_inherited_coords=True, **({"with_progress_bar": False} if p.get("no_bar") else {}))
    raise ValueError(f"entry {entry!r}")


def _failing_cleanup(output_dir):
    raise OSError(CLEANUP_MSG)


def handle(p):
    import shutil
    import warnings

    warnings.filterwarnings("ignore")
    logging.disable(logging.CRITICAL)
    import dask
    import numpy as np
    import verif_probes as vp

    import pyxel  # noqa: F401
    import pyxel.outputs as pyxel_outputs

    import time

    t_start = time.time()
    vp.reset()
    p = dict(p, _cid=f"{os.getpid()}-{next(_CASE_IDS)}")
    mode = p["mode"]
    entry = p.get("entry", "run_mode")
    res = dict(call=dict(notrun=True), load=dict(notrun=True))
    sched = p.get("scheduler") or "threads"
    shutil.rmtree(OUT_FOLDER, ignore_errors=True)
    if mode == "calib":
        np.save("c09_target.npy", np.full((3, 4), 2.0))
    root = logging.getLogger()
    handlers_before = list(root.handlers)
    saved_cleanup = pyxel_outputs.save_log_file
    if p.get("cleanup_fails"):
        pyxel_outputs.save_log_file = _failing_cleanup

    try:
        with dask.config.set(scheduler=sched):
            try:
                out = _start(p, p["nsteps"])
                res["call"] = dict(returned=True, type=type(out).__name__)
            except BaseException as ex:  # noqa: BLE001 - KeyboardInterrupt / SystemExit are injected on purpose
                out = None
                res["call"] = exc_info(ex)
            res["n_trace_call"] = len(vp.TRACE)
            if out is not None and entry in ("run_mode", "method") and mode in ("obs_dask", "calib"):
                try:
                    loaded = out.load()
                    res["load"] = dict(returned=True, type=type(loaded).__name__)
                except BaseException as ex:  # noqa: BLE001
                    res["load"] = exc_info(ex)
    finally:
        pyxel_outputs.save_log_file = saved_cleanup
        for h in list(root.handlers):          # the CLI installs a file and a stdout handler on every call
            if h not in handlers_before:
                root.removeHandler(h)
                try:
                    h.close()
                except Exception:  # noqa: BLE001
                    pass
        logging.disable(logging.CRITICAL)
    tr = trace_of(p)
    res["n_trace"] = len(tr)
    res["trace"] = tr if mode in ("exposure", "obs_seq") else []
    res["runs_seen"] = sorted({e[0] for e in tr})
    if p.get("outputs"):
        res["files"] = sorted(f for _, _, fs in os.walk(OUT_FOLDER) for f in fs)[:12]
    shutil.rmtree(OUT_FOLDER, ignore_errors=True)
    res["secs"] = round(time.time() - t_start, 3)
    return res
