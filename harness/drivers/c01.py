"""Implementation side of C01: build the generated pipeline (YAML text through pyxel.load, or Python
objects), run it in the requested mode and return what the `verif_probes.record` probe saw.

payload:
  spec     [[key, models|None], ...]   the `pipeline:` mapping in (shuffled) key order;
           model = {name, enabled, explicit_enabled, arguments: dict|None}
  steps    number of readout times
  variant  "yaml" | "python"
  mode     "exposure" | "observation" | "calibration"
  debug    bool (exposure only)
  params   observation: [{group, model, key, values:[int...]}]
result:
  {"trace": [[step, name, {kwargs}], ...], "nodes": [[step, group, name], ...] | None,
   "det_ok": bool, "error": class name | None}
"""
from __future__ import annotations

import itertools
import os

_COUNTER = itertools.count()

DETECTOR_DOC = {
    "geometry": {"row": 2, "col": 2, "total_thickness": 40.0, "pixel_vert_size": 10.0, "pixel_horz_size": 10.0},
    "environment": {"temperature": 200.0},
    "characteristics": {"quantum_efficiency": 1.0, "charge_to_volt_conversion": 1.0e-6, "pre_amplification": 1.0,
                        "full_well_capacity": 100000, "adc_bit_resolution": 16, "adc_voltage_range": [0.0, 10.0]},
}

FUNC = "verif_probes.record"
ERRORS = ("TypeError", "ValueError", "KeyError", "AttributeError", "NotImplementedError", "RuntimeError")


def _times(n):
    return [float(i + 1) for i in range(n)]


def _model_doc(m):
    d = {"name": m["name"], "func": m.get("func", FUNC)}
    if not m["enabled"] or m.get("explicit_enabled", True):
        d["enabled"] = bool(m["enabled"])
    if m.get("arguments") is not None:
        d["arguments"] = m["arguments"]
    return d


def _pipeline_doc(spec):
    return {k: (None if ms is None else [_model_doc(m) for m in ms]) for k, ms in spec}


def _param_key(p):
    return f"pipeline.{p['group']}.{p['model']}.arguments.{p['key']}"


def _mode_doc(p):
    readout = {"times": _times(p["steps"]), "non_destructive": False}
    if p["mode"] == "exposure":
        return {"exposure": {"readout": readout}}
    if p["mode"] == "observation":
        return {"observation": {"mode": "sequential", "with_dask": False, "readout": readout,
                                "parameters": [{"key": _param_key(q), "values": list(q["values"])}
                                               for q in p["params"]]}}
    if p["mode"] == "calibration":
        return {"calibration": _calibration_doc(p)}
    raise ValueError(p["mode"])


def _calibration_doc(p):
    # the fitted parameter is a detector characteristic: model arguments stay as configured
    return {
        # default readout (one step): with explicit times the target must be a (time, y, x) cube, and that path
        # of the calibration code does not run (FitRange3D names the dimension "time", the data "readout_time")
        "mode": "pipeline", "result_type": "pixel", "result_fit_range": [0, 2, 0, 2],
        "target_data_path": ["target.npy"], "target_fit_range": [0, 2, 0, 2],
        "pipeline_seed": 1234, "num_islands": 1, "num_evolutions": 1, "num_best_decisions": 0,
        "fitness_function": {"func": "pyxel.calibration.fitness.sum_of_abs_residuals"},
        "algorithm": {"type": "sade", "generations": 2, "population_size": 8, "variant": 2},
        "parameters": [{"key": "detector.characteristics.quantum_efficiency", "values": "_",
                        "logarithmic": False, "boundaries": [0.5, 1.0]}],
    }


def full_yaml(p) -> str:
    import yaml

    doc = dict(_mode_doc(p))
    doc["ccd_detector"] = DETECTOR_DOC
    doc["pipeline"] = _pipeline_doc(p["spec"])
    return yaml.safe_dump(doc, sort_keys=False, default_flow_style=False)


def _build_python(p):
    from harness import pyx
    from pyxel.pipelines import DetectionPipeline, ModelFunction

    kw = {}
    for k, ms in p["spec"]:
        kw[k] = None if ms is None else [
            ModelFunction(func=m.get("func", FUNC), name=m["name"], arguments=m.get("arguments"),
                          enabled=bool(m["enabled"])) for m in ms]
    pipeline = DetectionPipeline(**kw)
    detector = pyx.make_detector(rows=2, cols=2)
    readout = pyx.make_readout(times=_times(p["steps"]))
    if p["mode"] == "exposure":
        from pyxel.exposure import Exposure
        mode = Exposure(readout=readout)
    elif p["mode"] == "observation":
        from pyxel.observation import Observation, ParameterValues
        mode = Observation(parameters=[ParameterValues(key=_param_key(q), values=list(q["values"]))
                                       for q in p["params"]],
                           mode="sequential", readout=readout, with_dask=False)
    else:
        raise ValueError("calibration is only driven through YAML")
    return mode, detector, pipeline


def _build_yaml(p):
    import pyxel

    fn = f"c01_{os.getpid()}_{next(_COUNTER)}.yaml"
    with open(fn, "w") as f:
        f.write(full_yaml(p))
    try:
        cfg = pyxel.load(fn)
    finally:
        try:
            os.remove(fn)
        except OSError:
            pass
    mode = getattr(cfg, p["mode"])
    return mode, cfg.detector, cfg.pipeline


def _nodes(result):
    try:
        inter = result["/intermediate"]
    except KeyError:
        return []
    out = []
    for tkey, tnode in inter.children.items():
        if not tkey.startswith("time_idx_"):
            continue
        step = int(tkey[len("time_idx_"):])
        for gkey, gnode in tnode.children.items():
            for mkey in gnode.children:
                out.append([step, str(gkey), str(mkey)])
    return out


def _canon_kwargs(kw):
    return {k: kw[k] for k in sorted(kw)}


def handle(p):
    import numpy as np
    import pyxel
    import verif_probes as vp

    vp.reset()
    if p["mode"] == "calibration":
        assert p["steps"] == 1
        np.save("target.npy", np.ones((2, 2)))
    try:
        if p["variant"] == "yaml":
            mode, detector, pipeline = _build_yaml(p)
        else:
            mode, detector, pipeline = _build_python(p)
    except Exception as ex:  # noqa: BLE001
        cls = type(ex).__name__
        return {"error": cls if cls in ERRORS else "Other", "stage": "build", "msg": str(ex)[:200]}
    vp.reset()
    try:
        if p["mode"] == "exposure":
            result = pyxel.run_mode(mode=mode, detector=detector, pipeline=pipeline, debug=bool(p.get("debug")),
                                    with_inherited_coords=True)
        elif p["mode"] == "observation":
            result = pyxel.run_mode(mode=mode, detector=detector, pipeline=pipeline, with_inherited_coords=True)
        else:
            import dask
            with dask.config.set(scheduler="synchronous"):
                result = pyxel.run_mode(mode=mode, detector=detector, pipeline=pipeline, with_inherited_coords=True)
                try:
                    result.compute()
                except Exception:  # noqa: BLE001 - only the calls made are of interest here
                    pass
    except Exception as ex:  # noqa: BLE001
        cls = type(ex).__name__
        return {"error": cls if cls in ERRORS else "Other", "stage": "run", "msg": str(ex)[:300],
                "notes": [str(n)[:200] for n in getattr(ex, "__notes__", [])]}
    entries = [e for e in vp.TRACE if e.get("probe") == "record"]
    trace = [[int(e["step"]), str(e["name"]), _canon_kwargs(e["kwargs"])] for e in entries]
    ids = {e["det_id"] for e in entries}
    if p["mode"] == "exposure":
        det_ok = ids <= {id(detector)}          # the detector handed to run_mode is the processor's detector
    else:
        det_ok = id(detector) not in ids        # every run works on its own copy
    nodes = _nodes(result) if (p["mode"] == "exposure" and p.get("debug")) else None
    return {"trace": trace, "nodes": nodes, "det_ok": bool(det_ok), "error": None}
