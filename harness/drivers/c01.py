"""Implementation side of C01: build the generated pipeline (YAML text through pyxel.load, or Python
objects), run it in the requested mode and return what the recording probes saw.

single-run payload (kind absent or "single"):
  spec     [[key, models|None], ...]   the `pipeline:` mapping in (shuffled) key order;
           model = {name, enabled, explicit_enabled, arguments: dict|None, func (optional)}
  steps    number of readout times
  variant  "yaml" | "python"
  det      "ccd" | "cmos" | "mkid" | "apd"   (default "ccd")
  mode     "exposure" | "observation" | "calibration"
  debug    bool (exposure only)
  nd       bool: non-destructive readout (exposure / observation; the execution of models must not depend on it)
  params   observation: [{group, model, path: [key, inner...], values:[int...]}]; omode "sequential" | "product";
           dask: bool (with_dask, run under the synchronous scheduler and computed)
  result:  {"trace": [[step, name, {kwargs}], ...], "nodes": [[step, group, name], ...] | None,
            "det_ok": bool, "error": class name | None}

history payload (kind "hist"): spec / variant / det as above (object 0) and
  ops      [{"op": "run", "obj", "mode", "steps", "debug", "params", "omode"} |
            {"op": "enable", "obj", "group", "index", "value", "via": "attr" | "set"} |
            {"op": "setarg", "obj", "group", "model", "path", "value"} |
            {"op": "models", "obj", "group", "sel": [old indices]} |
            {"op": "insert", "obj", "group", "index", "model": {...}} |
            {"op": "copy", "obj", "how": "deep" | "processor" | "pickle"}]
  result:  {"runs": [one single-run result per "run" op]}; when a configuration operation raises, every
           later run is reported as {"error": <class>, "stage": "op"}.
All runs of a history use ONE detector object (the usual notebook workflow).
"""
from __future__ import annotations

import copy
import itertools
import os
import pickle

_COUNTER = itertools.count()

_GEO = {"row": 2, "col": 2, "total_thickness": 40.0, "pixel_vert_size": 10.0, "pixel_horz_size": 10.0}
_CHAR = {"quantum_efficiency": 1.0, "charge_to_volt_conversion": 1.0e-6, "pre_amplification": 1.0,
         "full_well_capacity": 100000, "adc_bit_resolution": 16, "adc_voltage_range": [0.0, 10.0]}
_APD_CHAR = {"roic_gain": 0.8, "quantum_efficiency": 1.0, "full_well_capacity": 100000, "adc_bit_resolution": 16,
             "adc_voltage_range": [0.0, 10.0], "avalanche_gain": 1.0, "pixel_reset_voltage": 5.0}
DETECTOR_KEY = {"ccd": "ccd_detector", "cmos": "cmos_detector", "mkid": "mkid_detector", "apd": "apd_detector"}


def detector_doc(kind):
    return {"geometry": dict(_GEO), "environment": {"temperature": 200.0},
            "characteristics": dict(_APD_CHAR if kind == "apd" else _CHAR)}


DETECTOR_DOC = detector_doc("ccd")

FUNC = "verif_probes.record"
ERRORS = ("TypeError", "ValueError", "KeyError", "AttributeError", "NotImplementedError", "RuntimeError")


def _times(n):
    return [float(i + 1) for i in range(n)]


def _model_doc(m):
    d = {"name": m["name"], "func": m.get("func", FUNC)}
    if not m["enabled"] or m.get("explicit_enabled", True):
        d["enabled"] = bool(m["enabled"])
    if m.get("arguments") is not None:
        d["arguments"] = copy.deepcopy(m["arguments"])
    return d


def _pipeline_doc(spec):
    return {k: (None if ms is None else [_model_doc(m) for m in ms]) for k, ms in spec}


def _param_key(p):
    path = p["path"] if "path" in p else [p["key"]]
    return f"pipeline.{p['group']}.{p['model']}.arguments." + ".".join(str(x) for x in path)


def _readout_doc(steps, nd=False):
    return {"times": _times(steps), "non_destructive": bool(nd)}


def _mode_doc(p):
    readout = _readout_doc(p["steps"], p.get("nd"))
    if p["mode"] == "exposure":
        return {"exposure": {"readout": readout}}
    if p["mode"] == "observation":
        return {"observation": {"mode": p.get("omode", "sequential"), "with_dask": bool(p.get("dask")), "readout": readout,
                                "parameters": [{"key": _param_key(q), "values": list(q["values"])}
                                               for q in p["params"]]}}
    if p["mode"] == "calibration":
        return {"calibration": _calibration_doc(p)}
    raise ValueError(p["mode"])


def _calibration_doc(p):
    # the fitted parameter is a detector characteristic: model arguments stay as configured
    steps = int(p.get("steps", 1))
    if steps > 1:   # time-domain target: a (readout time, y, x) cube and 6-value fit ranges
        shape = {"readout": _readout_doc(steps), "result_fit_range": [0, steps, 0, 2, 0, 2],
                 "target_data_path": ["target3d.npy"], "target_fit_range": [0, steps, 0, 2, 0, 2]}
    else:           # default readout (one step)
        shape = {"result_fit_range": [0, 2, 0, 2], "target_data_path": ["target.npy"], "target_fit_range": [0, 2, 0, 2]}
    return {
        **shape,
        "mode": "pipeline", "result_type": "pixel",
        "pipeline_seed": 1234, "num_islands": 1, "num_evolutions": 1, "num_best_decisions": 0,
        "fitness_function": {"func": "pyxel.calibration.fitness.sum_of_abs_residuals"},
        "algorithm": {"type": "sade", "generations": 2, "population_size": 8, "variant": 2},
        "parameters": [{"key": "detector.characteristics.quantum_efficiency", "values": "_",
                        "logarithmic": False, "boundaries": [0.5, 1.0]}],
    }


def full_yaml(p) -> str:
    import yaml

    doc = dict(_mode_doc(p))
    kind = p.get("det", "ccd")
    doc[DETECTOR_KEY[kind]] = detector_doc(kind)
    doc["pipeline"] = _pipeline_doc(p["spec"])
    return yaml.safe_dump(doc, sort_keys=False, default_flow_style=False)


def _model_function(m):
    from pyxel.pipelines import ModelFunction

    return ModelFunction(func=m.get("func", FUNC), name=m["name"], arguments=copy.deepcopy(m.get("arguments")),
                         enabled=bool(m["enabled"]))


def _mode_object(p):
    from harness import pyx

    readout = pyx.make_readout(times=_times(p["steps"]), non_destructive=bool(p.get("nd")))
    if p["mode"] == "exposure":
        from pyxel.exposure import Exposure
        return Exposure(readout=readout)
    if p["mode"] == "observation":
        from pyxel.observation import Observation, ParameterValues
        return Observation(parameters=[ParameterValues(key=_param_key(q), values=list(q["values"]))
                                       for q in p["params"]],
                           mode=p.get("omode", "sequential"), readout=readout, with_dask=bool(p.get("dask")))
    raise ValueError("calibration is only driven through YAML")


def _build_python(p):
    from harness import pyx
    from pyxel.pipelines import DetectionPipeline

    kw = {}
    for k, ms in p["spec"]:
        kw[k] = None if ms is None else [_model_function(m) for m in ms]
    pipeline = DetectionPipeline(**kw)
    detector = pyx.make_detector(kind=p.get("det", "ccd"), rows=2, cols=2)
    return _mode_object(p), detector, pipeline


def _load_yaml_text(text):
    import pyxel

    fn = f"c01_{os.getpid()}_{next(_COUNTER)}.yaml"
    with open(fn, "w") as f:
        f.write(text)
    try:
        return pyxel.load(fn)
    finally:
        try:
            os.remove(fn)
        except OSError:
            pass


def _build_yaml(p):
    cfg = _load_yaml_text(full_yaml(p))
    mode = getattr(cfg, p["mode"])
    return mode, cfg.detector, cfg.pipeline


def _nodes(result):
    try:
        inter = result["/intermediate"]
    except KeyError:
        return []
    out = []
    for tkey, tnode in inter.children.items():
        if not tkey.startswith("time_idx_"):
            continue
        step = int(tkey[len("time_idx_"):])
        for gkey, gnode in tnode.children.items():
            for mkey in gnode.children:
                out.append([step, str(gkey), str(mkey)])
    return out


def _canon_kwargs(kw):
    return {k: kw[k] for k in sorted(kw)}


def _err(ex, stage):
    cls = type(ex).__name__
    return {"error": cls if cls in ERRORS else "Other", "stage": stage, "msg": str(ex)[:300],
            "notes": [str(n)[:200] for n in getattr(ex, "__notes__", [])]}


def _run_once(p, mode, detector, pipeline):
    """One pyxel.run_mode call; returns the single-run result dict."""
    import pyxel
    import verif_probes as vp

    vp.reset()
    try:
        if p["mode"] == "exposure":
            result = pyxel.run_mode(mode=mode, detector=detector, pipeline=pipeline, debug=bool(p.get("debug")),
                                    with_inherited_coords=True)
        elif p["mode"] == "observation" and p.get("dask"):
            import dask
            # one task per run; with the synchronous scheduler the calls of a run stay together
            with dask.config.set(scheduler="synchronous"):
                result = pyxel.run_mode(mode=mode, detector=detector, pipeline=pipeline, with_inherited_coords=True)
                result = result.compute()
        elif p["mode"] == "observation":
            result = pyxel.run_mode(mode=mode, detector=detector, pipeline=pipeline, with_inherited_coords=True)
        else:
            import dask
            with dask.config.set(scheduler="synchronous"):
                result = pyxel.run_mode(mode=mode, detector=detector, pipeline=pipeline, with_inherited_coords=True)
                try:
                    result.compute()
                except Exception:  # noqa: BLE001 - only the calls made are of interest here
                    pass
    except Exception as ex:  # noqa: BLE001
        return _err(ex, "run")
    entries = [e for e in vp.TRACE if e.get("probe") == "record"]
    trace = [[int(e["step"]), str(e["name"]), _canon_kwargs(e["kwargs"])] for e in entries]
    ids = {e["det_id"] for e in entries}
    if p["mode"] == "exposure":
        det_ok = ids <= {id(detector)}          # the detector handed to run_mode is the processor's detector
    else:
        det_ok = id(detector) not in ids        # every run works on its own copy
    nodes = _nodes(result) if (p["mode"] == "exposure" and p.get("debug")) else None
    return {"trace": trace, "nodes": nodes, "det_ok": bool(det_ok), "error": None}


def _save_targets(steps):
    import numpy as np

    np.save("target.npy", np.ones((2, 2)))
    if steps > 1:
        np.save("target3d.npy", np.ones((int(steps), 2, 2)))


def handle(p):
    import verif_probes as vp

    if p.get("kind") == "hist":
        return handle_hist(p)
    vp.reset()
    if p["mode"] == "calibration":
        _save_targets(p["steps"])
    try:
        if p["variant"] == "yaml":
            mode, detector, pipeline = _build_yaml(p)
        else:
            mode, detector, pipeline = _build_python(p)
    except Exception as ex:  # noqa: BLE001
        return _err(ex, "build")
    return _run_once(p, mode, detector, pipeline)


# ------------------------------------------------------------------------------------------ histories


def _apply_config_op(op, objs, detector):
    from pyxel.pipelines import Processor

    pipe = objs[op["obj"]]
    kind = op["op"]
    if kind == "enable":
        grp = getattr(pipe, op["group"])
        if op.get("via") == "set":
            name = grp.models[op["index"]].name
            Processor(detector=detector, pipeline=pipe).set(f"pipeline.{op['group']}.{name}.enabled", bool(op["value"]))
        else:
            grp.models[op["index"]].enabled = bool(op["value"])
    elif kind == "setarg":
        Processor(detector=detector, pipeline=pipe).set(_param_key(op), op["value"])
    elif kind == "models":
        grp = getattr(pipe, op["group"])
        old = list(grp.models)
        grp.models = [old[j] for j in op["sel"]]
    elif kind == "insert":
        grp = getattr(pipe, op["group"])
        old = list(grp.models)
        grp.models = old[:op["index"]] + [_model_function(op["model"])] + old[op["index"]:]
    elif kind == "copy":
        if op["how"] == "deep":
            objs.append(copy.deepcopy(pipe))
        elif op["how"] == "processor":
            objs.append(copy.deepcopy(Processor(detector=detector, pipeline=pipe)).pipeline)
        elif op["how"] == "pickle":
            objs.append(pickle.loads(pickle.dumps(pipe)))
        else:
            raise ValueError(op["how"])
    else:
        raise ValueError(kind)


def handle_hist(p):
    import verif_probes as vp

    vp.reset()
    first = dict(p, mode="exposure", steps=1)
    try:
        if p["variant"] == "yaml":
            _, detector, pipeline = _build_yaml(first)
        else:
            _, detector, pipeline = _build_python(first)
    except Exception as ex:  # noqa: BLE001
        return dict(_err(ex, "build"), runs=[])
    objs = [pipeline]
    runs = []
    broken = None
    for op in p["ops"]:
        if op["op"] != "run":
            if broken is None:
                try:
                    _apply_config_op(op, objs, detector)
                except Exception as ex:  # noqa: BLE001
                    broken = _err(ex, "op")
                    broken["op"] = op
            continue
        if broken is not None:
            runs.append(dict(broken))
            continue
        q = dict(op, det=p.get("det", "ccd"))
        try:
            if op["mode"] == "calibration":
                _save_targets(op["steps"])
                cal = dict(q, spec=[], variant="yaml")
                mode = _load_yaml_text(full_yaml(cal)).calibration
            else:
                mode = _mode_object(q)
        except Exception as ex:  # noqa: BLE001
            runs.append(_err(ex, "build"))
            continue
        runs.append(_run_once(q, mode, detector, objs[op["obj"]]))
    return {"runs": runs}
